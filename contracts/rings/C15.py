"""C15 -- native bounded rings (mode R): breeding-value matrices round-trip through scaling.

The oracle is written from the property statement, element by element in pure
python (math.fsum based mean / population standard deviation, explicit loops for
extrema and arg-extrema, a list model for every taxa-axis operation); nothing in
it is copied from the library's formulas.

Units
  ring[construct + original-scale summaries, three classes]
  ring[taxa-axis operation histories, three classes]
  ring[in-place and class-level taxa operations]        (append / remove / incorp / concat)
  ring[generic DenseScaledMatrix in-place scaling]

Finding classes (cls).  Generic clauses (a failure here is a VIOLATION):
  shape, labels, frame, roundtrip, summary, stored-centred-scaled, exception,
  scaled:* (generic scaled matrix clauses)
Input classes kept separate because the unchanged library is suspected / known
to violate the statement on them (one cls per defect):
  tstd-tvar-constant-trait             tstd/tvar(unscale=True) of a constant trait (truth 0)
  constant-trait-nonunit-scale         exactly constant trait whose stored scale is not 1 (mean rounding)
  concat_taxa-unscaled-splice          inherited concat_taxa
  append_taxa-unscaled-splice          inherited append_taxa
  incorp_taxa-unscaled-splice          inherited incorp_taxa
  remove_taxa-stale-location-scale     inherited remove_taxa
  scaled-rescale-constant-nonunit-scale  DenseScaledMatrix.rescale on an exactly constant column

NaN policy of the summaries: the statement does not say whether a summary of a
trait with missing values ignores or propagates them (the library mixes both:
extrema propagate, mean/std/var ignore).  For a column that contains NaN either
answer is accepted; for NaN-free columns the answer is unique.

Bounds on magnitudes: finite raw values have |x| <= ~1e12 (offsets) and spreads
>= 1e-3; overflow / underflow ranges (|x| > 1e150, spreads < 1e-150) are outside
the explored scope.
"""
import math
import warnings

from pyvc.unit import unit

P = "C15"
EPS = 2.220446049250313e-16
NAN = float("nan")
CLASSES = ("bv", "ebv", "gebv")

U_CONSTRUCT = "ring[construct + original-scale summaries, three classes]"
U_HISTORY = "ring[taxa-axis operation histories, three classes]"
U_INPLACE = "ring[in-place and class-level taxa operations]"
U_SCALED = "ring[generic DenseScaledMatrix in-place scaling]"

DEFECT_CLS = {
    "append": "append_taxa-unscaled-splice",
    "incorp": "incorp_taxa-unscaled-splice",
    "remove": "remove_taxa-stale-location-scale",
    "concat": "concat_taxa-unscaled-splice",
}


# --------------------------------------------------------------------------- encoding helpers
def enc(x):
    """python/numpy nested floats -> JSON-safe nested lists (NaN -> None)"""
    if isinstance(x, (list, tuple)):
        return [enc(y) for y in x]
    if x is None:
        return None
    x = float(x)
    return None if x != x else x


def dec(x):
    if isinstance(x, list):
        return [dec(y) for y in x]
    return NAN if x is None else float(x)


def isnan(x):
    return x != x


def close(a, b, tol):
    if isnan(a) or isnan(b):
        return isnan(a) and isnan(b)
    if a == b:
        return True
    if math.isinf(a) or math.isinf(b):
        return False
    return abs(a - b) <= tol


def _bv_class(name):
    if name == "bv":
        from pybrops.popgen.bvmat.DenseBreedingValueMatrix import DenseBreedingValueMatrix as C
    elif name == "ebv":
        from pybrops.popgen.bvmat.DenseEstimatedBreedingValueMatrix import DenseEstimatedBreedingValueMatrix as C
    elif name == "gebv":
        from pybrops.popgen.bvmat.DenseGenomicEstimatedBreedingValueMatrix import DenseGenomicEstimatedBreedingValueMatrix as C
    else:
        raise ValueError(name)
    return C


# --------------------------------------------------------------------------- the statement, on python lists
def py_mean(xs):
    return math.fsum(xs) / len(xs)


def py_var(xs):
    m = py_mean(xs)
    return math.fsum((x - m) * (x - m) for x in xs) / len(xs)


def first_index(col, pred):
    for i, x in enumerate(col):
        if pred(x):
            return i
    return None


def column_truth(col):
    """every per-trait summary of one raw column, under both missing-value policies.
    returns dict name -> list of acceptable values (one for NaN-free columns)"""
    n = len(col)
    fin = [x for x in col if x == x]
    has_nan = len(fin) < n
    out = {}
    if fin:
        mx, mn = fin[0], fin[0]
        for x in fin:
            if x > mx:
                mx = x
            if x < mn:
                mn = x
        aware = dict(tmax=mx, tmin=mn, trange=mx - mn, tmean=py_mean(fin), tvar=py_var(fin))
        aware["tstd"] = math.sqrt(aware["tvar"])
        aware["targmax"] = first_index(col, lambda x: x == mx)
        aware["targmin"] = first_index(col, lambda x: x == mn)
    else:
        aware = dict(tmax=NAN, tmin=NAN, trange=NAN, tmean=NAN, tvar=NAN, tstd=NAN, targmax=None, targmin=None)
    if has_nan:
        fn = first_index(col, isnan)
        plain = dict(tmax=NAN, tmin=NAN, trange=NAN, tmean=NAN, tvar=NAN, tstd=NAN, targmax=fn, targmin=fn)
        for k in aware:
            out[k] = [plain[k], aware[k]]
    else:
        for k in aware:
            out[k] = [aware[k]]
    out["_fin"] = fin
    out["_const"] = bool(fin) and all(x == fin[0] for x in fin)
    out["_has_nan"] = has_nan
    return out


# --------------------------------------------------------------------------- list model of a breeding value matrix
class Model:
    """raw values (truth, never rounded), labels, history length and the running
    per-trait magnitude that the centred storage had to represent"""

    def __init__(self, rows, t, taxa, grp, trait):
        self.rows = [list(r) for r in rows]
        self.t = t
        self.taxa = None if taxa is None else list(taxa)
        self.grp = None if grp is None else list(grp)
        self.trait = None if trait is None else list(trait)
        self.steps = 0
        self.colmax = [0.0] * t
        self.saw(self.rows)

    def saw(self, rows):
        for r in rows:
            for j, x in enumerate(r):
                if x == x and abs(x) > self.colmax[j]:
                    self.colmax[j] = abs(x)

    @property
    def n(self):
        return len(self.rows)


def norm_ix(i, n):
    return i + n if i < 0 else i


def obj_indices(obj, n):
    """decode an encoded obj (int | list | {'slice': [a,b,c]}) to (kind, list of normalised indices)"""
    if isinstance(obj, dict):
        a, b, c = obj["slice"]
        return "slice", list(range(*slice(a, b, c).indices(n)))
    if isinstance(obj, list):
        return "list", [norm_ix(int(i), n) for i in obj]
    return "int", [norm_ix(int(obj), n)]


def obj_native(obj, as_array=False):
    import numpy
    if isinstance(obj, dict):
        a, b, c = obj["slice"]
        return slice(a, b, c)
    if isinstance(obj, list):
        return numpy.array(obj, dtype="int64") if as_array else list(obj)
    return int(obj)


def m_select(m, idx):
    ix = [norm_ix(int(i), m.n) for i in idx]
    m.rows = [list(m.rows[i]) for i in ix]
    if m.taxa is not None:
        m.taxa = [m.taxa[i] for i in ix]
    if m.grp is not None:
        m.grp = [m.grp[i] for i in ix]


def m_delete(m, obj):
    _, ix = obj_indices(obj, m.n)
    drop = set(ix)
    keep = [i for i in range(m.n) if i not in drop]
    m_select(m, keep)


def m_insert(m, obj, vals, taxa, grp):
    """rows of vals go in before the given original positions (stable for equal positions);
    an int (or single-element list) position takes the whole block"""
    kind, ix = obj_indices(obj, m.n)
    k = len(vals)
    if len(ix) == 1:
        ix = ix * k
    assert len(ix) == k, "generator error: %d positions for %d rows" % (len(ix), k)
    order = sorted(range(k), key=lambda q: ix[q])          # python sort is stable
    new_rows, new_taxa, new_grp = [], [], []
    o = 0
    for p in range(m.n + 1):
        while o < k and ix[order[o]] == p:
            q = order[o]
            new_rows.append(list(vals[q]))
            new_taxa.append(None if taxa is None else taxa[q])
            new_grp.append(None if grp is None else grp[q])
            o += 1
        if p < m.n:
            new_rows.append(m.rows[p])
            new_taxa.append(None if m.taxa is None else m.taxa[p])
            new_grp.append(None if m.grp is None else m.grp[p])
    assert o == k
    m.rows = new_rows
    if m.taxa is not None:
        m.taxa = new_taxa
    if m.grp is not None:
        m.grp = new_grp
    m.saw(vals)


def m_adjoin(m, vals, taxa, grp):
    m_insert(m, m.n, vals, taxa, grp)


def m_sort_order(m):
    """indirect stable sort: primary key group (if any), secondary key name (if any)"""
    def key(i):
        return ((m.grp[i],) if m.grp is not None else ()) + ((m.taxa[i],) if m.taxa is not None else ())
    return sorted(range(m.n), key=key)


# --------------------------------------------------------------------------- building real objects
def build_bv(clsname, rows, t, taxa, grp, trait):
    import numpy
    C = _bv_class(clsname)
    arr = numpy.array(rows, dtype="float64").reshape(len(rows), t)
    keep = arr.copy()
    obj = C.from_numpy(
        mat=arr,
        taxa=None if taxa is None else numpy.array(taxa, dtype=object),
        taxa_grp=None if grp is None else numpy.array(grp, dtype="int64"),
        trait=None if trait is None else numpy.array(trait, dtype=object),
    )
    same = numpy.array_equal(arr, keep, equal_nan=True)
    return obj, same


def label_arrays(taxa, grp):
    import numpy
    return (None if taxa is None else numpy.array(taxa, dtype=object),
            None if grp is None else numpy.array(grp, dtype="int64"))


# --------------------------------------------------------------------------- conformance of one object with the model
def check_state(obj, m, row_tags=None, strict_ties=None):
    """(clause, message) pairs; see check_state3"""
    return [(c, msg) for c, msg, _ in check_state3(obj, m, row_tags, strict_ties)]


def check_state3(obj, m, row_tags=None, strict_ties=None):
    """(clause, message, key) triples, key = (trait index, summary name) where that applies"""
    out = []
    for item in _check_state(obj, m, row_tags, strict_ties):
        out.append(item if len(item) == 3 else (item[0], item[1], None))
    return out


def _check_state(obj, m, row_tags=None, strict_ties=None):
    """all clauses of the statement for one matrix object; returns list of (clause, message).
    clauses: shape, labels, frame, roundtrip[-new], summary, tstd-tvar-constant-trait,
    constant-trait-nonunit-scale, stored-centred-scaled"""
    import numpy
    out = []
    n, t = m.n, m.t
    k = m.steps + 1
    if strict_ties is None:
        strict_ties = (m.steps == 0)
    mat, loc, sc = obj.mat, obj.location, obj.scale
    if (not isinstance(mat, numpy.ndarray) or tuple(mat.shape) != (n, t)
            or not isinstance(loc, numpy.ndarray) or tuple(loc.shape) != (t,)
            or not isinstance(sc, numpy.ndarray) or tuple(sc.shape) != (t,)):
        return [("shape", "mat/location/scale shapes %s %s %s, expected (%d,%d) (%d,) (%d,)" % (
            getattr(mat, "shape", None), getattr(loc, "shape", None), getattr(sc, "shape", None), n, t, t, t))]
    if obj.ntaxa != n or obj.ntrait != t:
        return [("shape", "ntaxa/ntrait %s/%s, expected %d/%d" % (obj.ntaxa, obj.ntrait, n, t))]
    # labels (exact)
    for name, want in (("taxa", m.taxa), ("taxa_grp", m.grp), ("trait", m.trait)):
        got = getattr(obj, name)
        if (got is None) != (want is None):
            out.append(("labels", "%s is %s, expected %s" % (name, "None" if got is None else "present",
                                                              "None" if want is None else want)))
        elif got is not None and list(got.tolist()) != list(want):
            out.append(("labels", "%s = %s, expected %s" % (name, got.tolist(), want)))
    before = (mat.copy(), loc.copy(), sc.copy())
    # un-scaling reproduces the raw value of every taxon
    u = obj.unscale()
    if not isinstance(u, numpy.ndarray) or tuple(u.shape) != (n, t):
        return out + [("shape", "unscale() shape %s, expected (%d,%d)" % (getattr(u, "shape", None), n, t))]
    ul = u.tolist()
    nbad = 0
    for j in range(t):
        tol = 32 * EPS * m.colmax[j] * k + 1e-300
        for i in range(n):
            want, got = m.rows[i][j], ul[i][j]
            if not close(got, want, tol):
                tag = "roundtrip" if row_tags is None or row_tags[i] == "old" else "roundtrip-new"
                if nbad < 3:
                    out.append((tag, "unscale()[%d,%d] = %r, raw value %r (tol %.3g)" % (i, j, got, want, tol)))
                nbad += 1
    # summaries on the original scale
    res = {}
    names = ["tmean", "tstd", "tvar"] + (["tmax", "tmin", "trange"] if n > 0 else [])
    for nm in names:
        r = getattr(obj, nm)(unscale=True)
        r = numpy.asarray(r)
        if tuple(r.shape) != (t,):
            out.append(("summary:" + nm, "%s(unscale=True) shape %s, expected (%d,)" % (nm, r.shape, t)))
            continue
        res[nm] = r.tolist()
    if n > 0:
        for nm in ("targmax", "targmin"):
            r = numpy.asarray(getattr(obj, nm)())
            if tuple(r.shape) != (t,):
                out.append(("summary:" + nm, "%s() shape %s, expected (%d,)" % (nm, r.shape, t)))
                continue
            res[nm] = r.tolist()
    matl, scl = mat.tolist(), sc.tolist()
    for j in range(t):
        col = [m.rows[i][j] for i in range(n)]
        tr = column_truth(col)
        M = m.colmax[j]
        base = EPS * M * k
        std_true = tr["tstd"][-1]
        err_s = (64 + 4 * n) * base
        tols = dict(tmax=32 * base, tmin=32 * base, trange=64 * base, tmean=(32 + 4 * n) * base, tstd=err_s,
                    tvar=(0.0 if isnan(std_true) else 2 * std_true * err_s + err_s * err_s + 8 * EPS * std_true * std_true))
        for nm in ("tmax", "tmin", "trange", "tmean", "tstd", "tvar"):
            if nm not in res:
                continue
            got = res[nm][j]
            if n == 0:
                ok = isnan(got)           # mean / deviation of no values is undefined
                wants = [NAN]
            else:
                wants = tr[nm]
                ok = any(close(got, w, tols[nm] + 1e-300) for w in wants)
            if not ok:
                clause = "tstd-tvar-constant-trait" if (nm in ("tstd", "tvar") and tr["_const"]) else "summary:" + nm
                out.append((clause, "%s(unscale=True)[%d] = %r, raw column %s has %s = %s" % (
                    nm, j, got, enc(col), nm[1:], " or ".join(repr(w) for w in wants)), (j, nm)))
        for nm, ext in (("targmax", "tmax"), ("targmin", "tmin")):
            if nm not in res:
                continue
            got = res[nm][j]
            wants = [w for w in tr[nm] if w is not None]
            ok = got in wants
            if not ok and isinstance(got, int) and 0 <= got < n and tr["_fin"]:
                # a value within rounding of the extreme is an acceptable location of it, except that exact
                # ties of a freshly constructed matrix must resolve to the first occurrence
                v, e = col[got], tr[ext][-1]
                if v == v and abs(v - e) <= 32 * base and (v != e or not strict_ties):
                    ok = True
            if not ok:
                out.append(("summary:" + nm, "%s()[%d] = %r, raw column %s has its %s at %s" % (
                    nm, j, got, enc(col), ext[1:], wants)))
        # stored values: centred and scaled per trait, unit scale for constant traits
        if tr["_fin"]:
            stored = [matl[i][j] for i in range(n) if col[i] == col[i]]
            if any(isnan(s) for s in stored):
                continue                 # already reported by roundtrip
            if tr["_const"]:
                if scl[j] != 1.0:
                    # after a history the retained values carry rounding of earlier round trips, so values that are
                    # equal in truth may reach the library an ulp apart: a scale at rounding level is then all that
                    # can be asked for.  A freshly constructed matrix sees the exact values: unit scale, exactly.
                    if m.steps == 0 or not (0.0 < scl[j] <= 64 * base):
                        out.append(("constant-trait-nonunit-scale" if scl[j] <= 64 * base else "stored-centred-scaled",
                                    "trait %d is constant (%r x %d) but scale = %r, stored values %s" % (
                                        j, tr["_fin"][0], len(stored), scl[j], stored[:4]), (j, "scale")))
                else:
                    tolc = 32 * base + 1e-300
                    if any(abs(s) > tolc for s in stored):
                        out.append(("stored-centred-scaled", "constant trait %d stored as %s, expected 0" % (j, stored[:4])))
            elif std_true > 0:
                tolc = (64 + 4 * n) * base / std_true + 1e-9
                sm = py_mean(stored)
                ss = math.sqrt(py_var(stored))
                if not (abs(sm) <= tolc and abs(ss - 1.0) <= tolc):
                    out.append(("stored-centred-scaled", "trait %d stored with mean %r and deviation %r (tol %.3g); "
                                "scale %r, true deviation %r" % (j, sm, ss, tolc, scl[j], std_true)))
    # asking for summaries / unscaled values must not change the matrix
    for nm, a, b in (("mat", before[0], obj.mat), ("location", before[1], obj.location), ("scale", before[2], obj.scale)):
        if a.shape != b.shape or not numpy.array_equal(a, b, equal_nan=True):
            out.append(("frame", "%s changed by unscale()/summary calls" % nm))
    return out


def snapshot(obj):
    import numpy
    d = {}
    for nm in ("mat", "location", "scale", "taxa", "taxa_grp", "trait"):
        v = getattr(obj, nm)
        d[nm] = None if v is None else numpy.array(v, copy=True)
    return d


def unchanged(obj, snap):
    import numpy
    for nm, a in snap.items():
        b = getattr(obj, nm)
        if (a is None) != (b is None):
            return nm
        if a is None:
            continue
        if a.shape != b.shape:
            return nm
        if a.dtype.kind == "f":
            if not numpy.array_equal(a, b, equal_nan=True):
                return nm
        elif a.tolist() != b.tolist():
            return nm
    return None


# --------------------------------------------------------------------------- one step on the real object + the model
def values_argument(clsname, step, m):
    """the `values` argument of insert/adjoin/append/incorp: a raw ndarray, or a matrix of the same class"""
    import numpy
    vals = dec(step["vals"])
    arr = numpy.array(vals, dtype="float64").reshape(len(vals), m.t)
    if step.get("vdtype") and not step.get("wrap"):
        arr = arr.astype(step["vdtype"])          # exactly representable by construction of the step
    taxa, grp = label_arrays(step.get("taxa"), step.get("grp"))
    if step.get("wrap"):
        C = _bv_class(clsname)
        vobj = C.from_numpy(mat=arr.copy(), taxa=taxa, taxa_grp=grp,
                            trait=None if m.trait is None else numpy.array(m.trait, dtype=object))
        if step.get("wrap") == "override":
            return vobj, taxa, grp, vals      # labels given again explicitly (must win / agree)
        return vobj, None, None, vals
    return arr, taxa, grp, vals


def apply_step(clsname, obj, m, step):
    """returns (new object, list of (clause,msg) about the operand frame)"""
    import numpy
    op = step["op"]
    via = step.get("via", "taxa")
    axis = {"generic0": 0, "generic-2": -2}.get(via)
    issues = []
    snap = snapshot(obj)
    if op == "select":
        idx = step["idx"]
        arg = numpy.array(idx, dtype="int64") if step.get("as") == "array" else list(idx)
        new = obj.select_taxa(arg) if axis is None else obj.select(arg, axis=axis)
        m_select(m, idx)
    elif op == "delete":
        arg = obj_native(step["obj"], step.get("as") == "array")
        new = obj.delete_taxa(arg) if axis is None else obj.delete(arg, axis=axis)
        m_delete(m, step["obj"])
    elif op in ("insert", "adjoin"):
        values, taxa, grp, vals = values_argument(clsname, step, m)
        vkeep = values.copy() if isinstance(values, numpy.ndarray) else snapshot(values)
        if op == "insert":
            arg = obj_native(step["obj"], step.get("as") == "array")
            if axis is None:
                new = obj.insert_taxa(arg, values, taxa=taxa, taxa_grp=grp)
            else:
                new = obj.insert(arg, values, axis=axis, taxa=taxa, taxa_grp=grp)
            m_insert(m, step["obj"], vals, step.get("taxa"), step.get("grp"))
        else:
            if axis is None:
                new = obj.adjoin_taxa(values, taxa=taxa, taxa_grp=grp)
            else:
                new = obj.adjoin(values, axis=axis, taxa=taxa, taxa_grp=grp)
            m_adjoin(m, vals, step.get("taxa"), step.get("grp"))
        if isinstance(values, numpy.ndarray):
            if not numpy.array_equal(values, vkeep, equal_nan=True):
                issues.append(("frame", "%s modified its `values` array" % op))
        elif unchanged(values, vkeep) is not None:
            issues.append(("frame", "%s modified its `values` matrix (%s)" % (op, unchanged(values, vkeep))))
    elif op == "reorder":
        obj.reorder_taxa(numpy.array(step["idx"], dtype="int64"))
        m_select(m, step["idx"])
        m.steps += 0
        return obj, issues
    elif op in ("sort", "group"):
        order = m_sort_order(m)
        if op == "sort":
            obj.sort_taxa()
        else:
            obj.group_taxa()
        m_select(m, order)
        return obj, issues
    else:
        raise ValueError(op)
    m.steps += 1
    bad = unchanged(obj, snap)
    if bad is not None:
        issues.append(("frame", "%s changed the %s of the matrix it was called on" % (op, bad)))
    if new is obj:
        issues.append(("frame", "%s returned the matrix it was called on" % op))
    if type(new) is not type(obj):
        issues.append(("shape", "%s returned a %s from a %s" % (op, type(new).__name__, type(obj).__name__)))
    return new, issues


def initial(case):
    rows = dec(case["raw"])
    t = case["t"]
    m = Model(rows, t, case.get("taxa"), case.get("grp"), case.get("trait"))
    obj, same = build_bv(case["cls"], rows, t, case.get("taxa"), case.get("grp"), case.get("trait"))
    issues = [] if same else [("frame", "from_numpy modified the raw array it was given")]
    return obj, m, issues


# --------------------------------------------------------------------------- case runners
SUSPECT = ("tstd-tvar-constant-trait", "constant-trait-nonunit-scale")


def cls_of(clause):
    """finding class of a clause: all summaries share one generic class"""
    return "summary" if clause.startswith("summary:") else clause


def fails_construct(case):
    obj, m, issues = initial(case)
    issues += check_state(obj, m)
    return [(cls_of(c), c, "construct: " + msg) for c, msg in issues]


def fails_history(case):
    obj, m, issues = initial(case)
    out = [(cls_of(c), c, "initial: " + msg) for c, msg in issues + check_state(obj, m)]
    generic_bad = any(c not in SUSPECT for c, _, _ in out)
    for si, step in enumerate(case["steps"]):
        if generic_bad:
            break
        obj, issues = apply_step(case["cls"], obj, m, step)
        issues += check_state(obj, m)
        for c, msg in issues:
            out.append((cls_of(c), c, "after step %d (%s): %s" % (si, step["op"], msg)))
            if c not in SUSPECT:
                generic_bad = True
    return out


def fails_inplace(case):
    """sound prefix (checked with the generic clauses) followed by ONE of append/remove/incorp/concat;
    after that operation shape, labels and the raw values of the taxa that were already in the matrix keep
    their generic clause, every other clause is attributed to the operation's own class"""
    import numpy
    obj, m, issues = initial(case)
    out = [(cls_of(c), c, "initial: " + msg) for c, msg in issues + check_state(obj, m)]
    for si, step in enumerate(case.get("pre", [])):
        obj, issues = apply_step(case["cls"], obj, m, step)
        for c, msg in issues + check_state(obj, m):
            out.append((cls_of(c), c, "after pre-step %d (%s): %s" % (si, step["op"], msg)))
    if any(c not in SUSPECT for c, _, _ in out):
        return out
    # the defects of the construction itself are reported by the other rings; here only the last operation counts
    out = []
    step = case["last"]
    op = step["op"]
    dcls = DEFECT_CLS[op]
    via = step.get("via", "taxa")
    axis = {"generic0": 0, "generic-2": -2}.get(via)
    tags = None
    try:
        if op == "remove":
            arg = obj_native(step["obj"], step.get("as") == "array")
            ret = obj.remove_taxa(arg) if axis is None else obj.remove(arg, axis=axis)
            m_delete(m, step["obj"])
            tags = ["old"] * m.n
            res = obj
        elif op in ("append", "incorp"):
            values, taxa, grp, vals = values_argument(case["cls"], step, m)
            old_ids = list(range(m.n))
            marker = Model([[float(i)] for i in old_ids], 1, None, None, None)
            if op == "append":
                ret = (obj.append_taxa(values, taxa=taxa, taxa_grp=grp) if axis is None
                       else obj.append(values, axis=axis, taxa=taxa, taxa_grp=grp))
                m_adjoin(m, vals, step.get("taxa"), step.get("grp"))
                m_adjoin(marker, [[-1.0]] * len(vals), None, None)
            else:
                arg = obj_native(step["obj"], step.get("as") == "array")
                ret = (obj.incorp_taxa(arg, values, taxa=taxa, taxa_grp=grp) if axis is None
                       else obj.incorp(arg, values, axis=axis, taxa=taxa, taxa_grp=grp))
                m_insert(m, step["obj"], vals, step.get("taxa"), step.get("grp"))
                m_insert(marker, step["obj"], [[-1.0]] * len(vals), None, None)
            tags = ["new" if r[0] < 0 else "old" for r in marker.rows]
            res = obj
        elif op == "concat":
            C = _bv_class(case["cls"])
            mats = [obj]
            for part in step["parts"]:
                prow = dec(part["raw"])
                po, _ = build_bv(case["cls"], prow, m.t, part.get("taxa"), part.get("grp"), m.trait)
                mats.append(po)
            if step.get("self_at", 0):
                # position of the running matrix in the list
                pos = min(step["self_at"], len(mats) - 1)
                mats = mats[1:pos + 1] + [mats[0]] + mats[pos + 1:]
            else:
                pos = 0
            snaps = [snapshot(x) for x in mats]
            res = C.concat_taxa(mats) if axis is None else C.concat(mats, axis=axis)
            # model: concatenation in list order
            parts = list(step["parts"])
            seq = parts[:pos] + [None] + parts[pos:]
            any_taxa = (m.taxa is not None) or any(p.get("taxa") is not None for p in parts)
            rows, taxa_l, grp_l = [], [], []
            for p in seq:
                if p is None:
                    prow, ptaxa, pgrp = m.rows, m.taxa, m.grp
                else:
                    prow, ptaxa, pgrp = dec(p["raw"]), p.get("taxa"), p.get("grp")
                    m.saw(prow)
                rows += [list(r) for r in prow]
                taxa_l += list(ptaxa) if ptaxa is not None else [None] * len(prow)
                if pgrp is not None:
                    grp_l += list(pgrp)
            m.rows = rows
            m.taxa = taxa_l if any_taxa else None
            m.grp = grp_l if m.grp is not None else None
            tags = ["new"] * m.n
            for x, s in zip(mats, snaps):
                if unchanged(x, s) is not None:
                    out.append(("frame", "frame", "concat changed the %s of an operand" % unchanged(x, s)))
            if type(res) is not C:
                out.append(("shape", "shape", "concat returned a %s" % type(res).__name__))
        else:
            raise ValueError(op)
    except Exception as e:
        return [(dcls, "exception", "%s raised %s: %s" % (op, type(e).__name__, e))]
    m.steps += 1
    if op != "concat" and ret is not None:
        out.append(("shape", "shape", "%s returned %r instead of working in place" % (op, type(ret).__name__)))
    try:
        issues = check_state3(res, m, row_tags=tags, strict_ties=False)
    except Exception as e:
        return out + [(dcls, "exception", "checking the matrix after %s raised %s: %s" % (op, type(e).__name__, e))]
    # what a freshly constructed matrix of the same raw values already gets wrong is the construction's
    # business (reported by the other rings), not this operation's
    fresh, _ = build_bv(case["cls"], m.rows, m.t, m.taxa, m.grp, m.trait)
    inherent = {(c, key) for c, _, key in check_state3(fresh, m, strict_ties=False) if c in SUSPECT}
    # extrema of the taxa that stay do not depend on location/scale being recomputed
    generic = {"shape", "labels", "roundtrip", "frame"}
    if op == "remove":
        generic |= {"summary:tmax", "summary:tmin", "summary:trange", "summary:targmax", "summary:targmin"}
    for c, msg, key in issues:
        if c in generic:
            out.append((cls_of(c), c, "after %s: %s" % (op, msg)))
        elif c in SUSPECT and (c, key) in inherent:
            continue
        else:
            out.append((dcls, c, "after %s: %s" % (op, msg)))
    return out


# --------------------------------------------------------------------------- generic scaled matrix
def nd_shape(x):
    s = []
    while isinstance(x, list):
        s.append(len(x))
        x = x[0] if x else None
    return tuple(s)


def nd_cols(x, t):
    """flatten a nested list whose last axis has length t into t columns (lists over all leading axes)"""
    cols = [[] for _ in range(t)]

    def walk(y):
        if y and isinstance(y[0], list):
            for z in y:
                walk(z)
        else:
            for j, v in enumerate(y):
                cols[j].append(v)
    walk(x)
    return cols


def fails_scaled(case):
    """truth T (nested list, last axis = traits) is represented by (mat, location, scale) with
    T = scale*mat + location; every step must keep that, and do what its name says"""
    import numpy
    from pybrops.core.mat.DenseScaledMatrix import DenseScaledMatrix
    out = []
    A = numpy.array(dec(case["mat"]), dtype="float64").reshape(case["shape"])
    t = case["shape"][-1]
    L0, S0 = case.get("location"), case.get("scale")

    def param(v, default):
        if v is None:
            return default, [default] * t
        if isinstance(v, list):
            return numpy.array(v, dtype="float64"), [float(x) for x in v]
        return v, [float(v)] * t
    Larg, Ll = param(L0, 0.0)
    Sarg, Sl = param(S0, 1.0)
    obj = DenseScaledMatrix(mat=A.copy(), location=Larg, scale=Sarg)
    # truth on the original scale, column by column
    Acols = nd_cols(A.tolist(), t)
    T = [[Sl[j] * a + Ll[j] for a in Acols[j]] for j in range(t)]
    colmax = [max([abs(x) for x in T[j] if x == x] + [abs(Ll[j]), 0.0]) for j in range(t)]
    nsteps = [0]

    def add(clause, msg, cls=None):
        out.append((cls or "scaled:" + clause, clause, msg))

    def check_repr(where, arr, loc, sc):
        """scale*arr + location reproduces the truth; missing stays missing"""
        k = nsteps[0] + 1
        if tuple(arr.shape) != tuple(case["shape"]) or tuple(loc.shape) != (t,) or tuple(sc.shape) != (t,):
            add("shape", "%s: shapes %s %s %s" % (where, arr.shape, loc.shape, sc.shape))
            return False
        cols = nd_cols(arr.tolist(), t)
        ll, sl = [float(x) for x in loc.tolist()], [float(x) for x in sc.tolist()]
        nb = 0
        for j in range(t):
            tol = 48 * EPS * colmax[j] * k + 1e-300
            for q, a in enumerate(cols[j]):
                got = sl[j] * a + ll[j]
                if not close(got, T[j][q], tol):
                    if nb < 3:
                        add("roundtrip", "%s: element %d of trait %d represents %r, raw value %r" % (where, q, j, got, T[j][q]))
                    nb += 1
        return nb == 0

    def check_centred(where, arr, sc):
        """arr is the centred and scaled form of the truth: mean 0 and deviation 1 per trait over all leading
        axes (NaN ignored); a constant trait has unit scale and is stored as 0"""
        k = nsteps[0] + 1
        cols = nd_cols(arr.tolist(), t)
        sl = [float(x) for x in sc.tolist()]
        for j in range(t):
            tr = column_truth(T[j])
            if not tr["_fin"]:
                continue
            stored = [a for a, x in zip(cols[j], T[j]) if x == x]
            if any(isnan(s) for s in stored):
                add("roundtrip", "%s: trait %d has NaN where the raw value is present" % (where, j))
                continue
            base = EPS * colmax[j] * k
            nn = len(stored)
            if tr["_const"]:
                if sl[j] != 1.0:
                    add("constant-scale", "%s: trait %d is constant (%r x %d) but scale = %r" % (
                        where, j, tr["_fin"][0], nn, sl[j]), cls="scaled-rescale-constant-nonunit-scale")
                elif any(abs(s) > 48 * base + 1e-300 for s in stored):
                    add("centred", "%s: constant trait %d stored as %s" % (where, j, stored[:4]))
            else:
                sd = tr["tstd"][-1]
                tolc = (96 + 4 * nn) * base / sd + 1e-9
                sm, ss = py_mean(stored), math.sqrt(py_var(stored))
                if not (abs(sm) <= tolc and abs(ss - 1.0) <= tolc):
                    add("centred", "%s: trait %d stored with mean %r, deviation %r (tol %.3g)" % (where, j, sm, ss, tolc))
                if not close(sl[j], sd, (96 + 4 * nn) * base + 1e-300):
                    add("centred", "%s: trait %d scale %r, true deviation %r" % (where, j, sl[j], sd))

    def state():
        return (obj.mat.copy(), numpy.array(obj.location, dtype="float64"), numpy.array(obj.scale, dtype="float64"))

    def same_state(a, b):
        return all(x.shape == y.shape and numpy.array_equal(x, y, equal_nan=True) for x, y in zip(a, b))

    if not check_repr("constructor", obj.mat, numpy.asarray(obj.location, dtype="float64"),
                      numpy.asarray(obj.scale, dtype="float64")):
        return out
    for si, step in enumerate(case["steps"]):
        op = step["op"]
        where = "step %d %s%s" % (si, op, "" if "inplace" not in step else "(inplace=%s)" % step["inplace"])
        before = state()
        if op == "rescale":
            nsteps[0] += 1
            r = obj.rescale(inplace=step["inplace"])
            if step["inplace"]:
                if r is not obj.mat:
                    add("frame", "%s: did not return the matrix's own array" % where)
                ok = check_repr(where, obj.mat, numpy.asarray(obj.location, dtype="float64"),
                                numpy.asarray(obj.scale, dtype="float64"))
                if ok:
                    check_centred(where, obj.mat, numpy.asarray(obj.scale, dtype="float64"))
            else:
                if not same_state(before, state()):
                    add("frame", "%s: changed the matrix" % where)
                if r is obj.mat or numpy.shares_memory(r, obj.mat):
                    add("frame", "%s: result aliases the matrix" % where)
                # r must be the centred/scaled truth: recover its affine parameters from the statement
                loc_t, sc_t = [], []
                for j in range(t):
                    tr = column_truth(T[j])
                    loc_t.append(tr["tmean"][-1])
                    sd = tr["tstd"][-1]
                    sc_t.append(1.0 if (tr["_const"] or isnan(sd)) else sd)
                cols = nd_cols(r.tolist(), t)
                k = nsteps[0] + 1
                consts = [column_truth(T[j])["_const"] for j in range(t)]
                for j in range(t):
                    tol = (96 + 4 * len(T[j])) * EPS * colmax[j] * k + 1e-300
                    nb = 0
                    for q, a in enumerate(cols[j]):
                        got = sc_t[j] * a + loc_t[j]
                        if not close(got, T[j][q], tol):
                            if consts[j] and not isnan(a) and not isnan(T[j][q]):
                                # rounding in the mean of a constant column: tiny scale, values +-1 (own class)
                                add("constant-scale", "%s: constant trait %d returned as %r" % (where, j, a),
                                    cls="scaled-rescale-constant-nonunit-scale")
                                break
                            if nb < 2:
                                add("roundtrip", "%s: returned element %d of trait %d is %r; with the true mean/deviation "
                                    "it represents %r, raw value %r" % (where, q, j, a, got, T[j][q]))
                            nb += 1
        elif op == "unscale":
            nsteps[0] += 1
            r = obj.unscale(inplace=step["inplace"])
            k = nsteps[0] + 1
            if tuple(r.shape) != tuple(case["shape"]):
                add("shape", "%s: result shape %s" % (where, r.shape))
                break
            cols = nd_cols(r.tolist(), t)
            for j in range(t):
                tol = 48 * EPS * colmax[j] * k + 1e-300
                nb = 0
                for q, a in enumerate(cols[j]):
                    if not close(a, T[j][q], tol):
                        if nb < 2:
                            add("roundtrip", "%s: element %d of trait %d is %r, raw value %r" % (where, q, j, a, T[j][q]))
                        nb += 1
            if step["inplace"]:
                if r is not obj.mat:
                    add("frame", "%s: did not return the matrix's own array" % where)
                if [float(x) for x in obj.location.tolist()] != [0.0] * t or [float(x) for x in obj.scale.tolist()] != [1.0] * t:
                    add("roundtrip", "%s: location/scale are %s/%s after an in-place unscale, expected 0/1" % (
                        where, obj.location.tolist(), obj.scale.tolist()))
                check_repr(where, obj.mat, numpy.asarray(obj.location, dtype="float64"),
                           numpy.asarray(obj.scale, dtype="float64"))
            else:
                if not same_state(before, state()):
                    add("frame", "%s: changed the matrix" % where)
                if numpy.shares_memory(r, obj.mat):
                    add("frame", "%s: result aliases the matrix" % where)
        elif op in ("transform", "untransform"):
            X = numpy.array(dec(step["x"]), dtype="float64").reshape(step["xshape"])
            X0 = X.copy()
            ll = [float(v) for v in obj.location.tolist()]
            sl = [float(v) for v in obj.scale.tolist()]
            r = getattr(obj, op)(X, copy=step["copy"])
            if step["copy"]:
                if not numpy.array_equal(X, X0, equal_nan=True):
                    add("frame", "%s(copy=True) modified its argument" % where)
                if r is X or numpy.shares_memory(r, X):
                    add("frame", "%s(copy=True) returned its argument" % where)
            elif r is not X:
                add("frame", "%s(copy=False) did not work in place" % where)
            if not same_state(before, state()):
                add("frame", "%s: changed the matrix" % where)
            xc, rc = nd_cols(X0.tolist(), t), nd_cols(r.tolist(), t)
            for j in range(t):
                nb = 0
                if isnan(ll[j]) or isnan(sl[j]):
                    continue              # an all-missing trait has no location/scale
                for q, x in enumerate(xc[j]):
                    if op == "transform":
                        want = (x - ll[j]) / sl[j]
                        tol = 16 * EPS * (abs(x) + abs(ll[j])) / abs(sl[j]) + 1e-300
                    else:
                        want = x * sl[j] + ll[j]
                        tol = 16 * EPS * (abs(x * sl[j]) + abs(ll[j])) + 1e-300
                    if isnan(tol):
                        tol = 0.0
                    if not close(rc[j][q], want, tol):
                        if nb < 2:
                            add("transform", "%s: element %d of trait %d -> %r, expected %r (location %r, scale %r)" % (
                                where, q, j, rc[j][q], want, ll[j], sl[j]))
                        nb += 1
            # and back again
            inv = "untransform" if op == "transform" else "transform"
            back = getattr(obj, inv)(numpy.array(r, copy=True), copy=True)
            bc = nd_cols(back.tolist(), t)
            for j in range(t):
                if isnan(ll[j]) or isnan(sl[j]):
                    continue
                for q, x in enumerate(xc[j]):
                    mag = abs(x) + abs(ll[j]) + (abs(x * sl[j]) if op == "untransform" else 0.0)
                    tol = 64 * EPS * mag * (1.0 if op == "transform" else max(1.0, 1.0 / abs(sl[j]))) + 1e-300
                    if isnan(tol):
                        tol = 0.0
                    if not close(bc[j][q], x, tol):
                        add("transform", "%s then %s: element %d of trait %d comes back as %r from %r" % (
                            where, inv, q, j, bc[j][q], x))
                        break
        else:
            raise ValueError(op)
        if any(c.startswith("scaled:") for c, _, _ in out):
            break
    return out


# --------------------------------------------------------------------------- dispatch / replay
RUNNERS = {"construct": fails_construct, "history": fails_history, "inplace": fails_inplace, "scaled": fails_scaled}


def run_case_all(case):
    """list of (cls, clause, message) for one case; a crash of the real code on a valid input is a failure"""
    with warnings.catch_warnings():
        warnings.simplefilter("ignore")
        try:
            fails = RUNNERS[case["kind"]](case)
        except Exception as e:
            import traceback
            tb = traceback.extract_tb(e.__traceback__)
            where = "%s:%d" % (tb[-1].filename.split("/")[-1], tb[-1].lineno) if tb else "?"
            fails = [("exception", "exception", "exception %s: %s (at %s)" % (type(e).__name__, e, where))]
    focus = case.get("focus")
    if focus is not None:
        fails = [f for f in fails if f[0] == focus]
    return fails


def run_case(case):
    fails = run_case_all(case)
    if not fails:
        return False, "ok"
    return True, " | ".join("[%s] %s" % (c, msg) for c, _, msg in fails[:6])


def _replay(case):
    try:
        return run_case(case)
    except Exception as e:
        return True, "exception %s: %s" % (type(e).__name__, e)


def drive(ctx, cases, sample_of):
    """run the cases; one stored failing input per (case, cls), at most 3 per cls, keep going otherwise"""
    seen = {}
    for case in cases:
        fails = run_case_all(case)
        ctx.case(key=repr(sorted(case.items(), key=str)), nontrivial=True, sample=sample_of(case))
        done = set()
        for cls, clause, msg in fails:
            if cls in done:
                continue
            done.add(cls)
            seen[cls] = seen.get(cls, 0) + 1
            if seen[cls] <= 3:
                ctx.fail_input("ring:%s" % cls, dict(case, focus=cls), cls=cls, message=msg)
        if len(ctx.failures) >= 24:
            break


# --------------------------------------------------------------------------- generators
PALETTE = [0.0, 1.0, -2.5, 0.1, NAN, 1000000000.5]
CONST_DYADIC = [0.0, 1.0, -2.5, 1024.0, 1e9]
CONST_OTHER = [0.1, 0.7, -3.3, 1.0 / 3.0, 1000000000.1, 2.2e-3]


def gen_col(rnd, n, kind=None):
    kind = kind or rnd.choice(["ints", "ints", "gauss", "gauss", "offset", "offset", "const-d", "const-o",
                               "allnan", "mixed", "twolevel"])
    if kind == "ints":
        col = [float(rnd.randint(-3, 3)) for _ in range(n)]
    elif kind == "gauss":
        s = rnd.choice([1.0, 1e-3, 1e3, 37.5])
        col = [rnd.gauss(0.0, 1.0) * s for _ in range(n)]
    elif kind == "offset":
        off = rnd.choice([1e3, 1e6, 1e9, -1e12, 123456.789])
        s = rnd.choice([1e-3, 1.0, 1e3])
        col = [off + rnd.gauss(0.0, 1.0) * s for _ in range(n)]
    elif kind == "const-d":
        c = rnd.choice(CONST_DYADIC)
        col = [c] * n
    elif kind == "const-o":
        c = rnd.choice(CONST_OTHER)
        col = [c] * n
    elif kind == "allnan":
        col = [NAN] * n
    elif kind == "twolevel":
        a, b = rnd.choice([(0.0, 1.0), (-1.0, 1.0), (5.0, 5.5), (1e9, 1e9 + 2.0)])
        col = [rnd.choice([a, b]) for _ in range(n)]
    else:
        col = [rnd.choice(PALETTE[:4] + [7.0, -7.0]) for _ in range(n)]
    if kind != "allnan" and rnd.random() < 0.3:
        col = [NAN if rnd.random() < 0.3 else x for x in col]
    return col


def gen_rows(rnd, n, t):
    cols = [gen_col(rnd, n) for _ in range(t)]
    return [[cols[j][i] for j in range(t)] for i in range(n)]


_name_counter = [0]


def fresh_names(k, rnd):
    out = []
    for _ in range(k):
        _name_counter[0] += 1
        out.append("%s%03d" % (rnd.choice("abcxyz"), _name_counter[0] % 1000))
    return out


def gen_labels(rnd, n, t, force=None):
    has_taxa = rnd.random() < 0.7 if force is None else force[0]
    has_grp = rnd.random() < 0.6 if force is None else force[1]
    taxa = fresh_names(n, rnd) if has_taxa else None
    if taxa and n > 1 and rnd.random() < 0.3:
        taxa[-1] = taxa[0]                 # duplicate names are allowed
    grp = [rnd.randint(0, 2) for _ in range(n)] if has_grp else None
    trait = ["trait%d" % j for j in range(t)] if rnd.random() < 0.7 else None
    return taxa, grp, trait


def gen_construct(rnd, tier):
    import itertools
    _name_counter[0] = 0
    nmax = 4 if tier == "quick" else 5
    c = 0
    for n in range(0, nmax + 1):
        for combo in itertools.product(range(len(PALETTE)), repeat=n):
            col = [PALETTE[i] for i in combo]
            for cls in (CLASSES if tier != "quick" else (CLASSES[c % 3],)):
                yield dict(kind="construct", cls=cls, t=1, raw=enc([[x] for x in col]))
            c += 1
    # degenerate shapes
    for cls in CLASSES:
        for n, t in ((0, 0), (0, 2), (3, 0), (1, 1), (1, 3), (5, 1)):
            rows = gen_rows(rnd, n, t)
            taxa, grp, trait = gen_labels(rnd, n, t)
            yield dict(kind="construct", cls=cls, t=t, raw=enc(rows), taxa=taxa, grp=grp, trait=trait)
    # constant columns whose mean does not round-trip exactly
    for c in CONST_OTHER + CONST_DYADIC:
        for n in ((1, 2, 3, 5, 6, 7, 10) if tier == "quick" else range(1, 24)):
            yield dict(kind="construct", cls=CLASSES[n % 3], t=1, raw=enc([[c]] * n))
    nrand = 3000 if tier == "quick" else 40000
    for _ in range(nrand):
        n = rnd.choice([0, 1, 2, 2, 3, 3, 4, 5, 6, 8, 12])
        t = rnd.choice([0, 1, 1, 2, 2, 3, 4])
        rows = gen_rows(rnd, n, t)
        taxa, grp, trait = gen_labels(rnd, n, t)
        yield dict(kind="construct", cls=rnd.choice(CLASSES), t=t, raw=enc(rows), taxa=taxa, grp=grp, trait=trait)


def gen_values(rnd, k, t, m):
    """k new taxa: mostly on the same scale as the columns they join, sometimes not"""
    rows = []
    for _ in range(k):
        r = []
        for j in range(t):
            colvals = [row[j] for row in m.rows if row[j] == row[j]]
            u = rnd.random()
            if colvals and u < 0.45:
                r.append(rnd.choice(colvals) + rnd.choice([0.0, 0.0, 1.0, -0.5]))
            elif u < 0.6:
                r.append(NAN)
            elif u < 0.8:
                r.append(float(rnd.randint(-3, 3)))
            else:
                r.append(rnd.gauss(0.0, 1.0) * rnd.choice([1.0, 1e3]))
        rows.append(r)
    return rows


def gen_obj_delete(rnd, n):
    u = rnd.random()
    if n == 0:
        return [] if u < 0.5 else {"slice": [None, None, None]}
    if u < 0.3:
        return rnd.randrange(-n, n)
    if u < 0.7:
        k = rnd.randint(0, n)
        ix = [rnd.randrange(-n, n) for _ in range(k)]     # duplicates allowed
        return ix
    if u < 0.8:
        return list(range(n))                             # everything
    a = rnd.choice([None, 0, 1, -2])
    b = rnd.choice([None, n, n - 1, -1])
    c = rnd.choice([None, 1, 2, -1])
    return {"slice": [a, b, c]}


def gen_step(rnd, m, ops):
    """one valid step for the current model; mutates a scratch copy of the model in the caller"""
    n, t = m.n, m.t
    op = rnd.choice(ops)
    via = rnd.choice(["taxa", "taxa", "generic0", "generic-2"])
    as_ = rnd.choice(["list", "array"])
    if op == "select":
        u = rnd.random()
        if n == 0:
            idx = []
        elif u < 0.2:
            idx = list(range(n))                           # full length, identity
        elif u < 0.35:
            idx = [rnd.randrange(n) for _ in range(n)]     # full length with duplicates
        elif u < 0.45:
            idx = list(range(n))
            rnd.shuffle(idx)
        elif u < 0.5:
            idx = []
        elif u < 0.6:
            idx = [rnd.randrange(n)] * rnd.randint(1, 4)   # one taxon repeated: every trait constant
        else:
            idx = [rnd.randrange(-n, n) for _ in range(rnd.randint(1, n + 2))]
        if not idx:
            as_ = "array"
        return dict(op="select", idx=idx, via=via, **{"as": as_})
    if op == "delete":
        obj = gen_obj_delete(rnd, n)
        if obj == []:
            as_ = "array"
        return dict(op="delete", obj=obj, via=via, **{"as": as_})
    if op in ("insert", "adjoin", "append", "incorp"):
        k = rnd.choice([0, 1, 1, 1, 2, 3])
        vals = gen_values(rnd, k, t, m)
        step = dict(op=op, vals=enc(vals), via=via)
        if k and rnd.random() < 0.2:
            # a raw `values` array of another numeric dtype (integer counts, single precision): the existing taxa's values
            # must not be cast to it
            vd = rnd.choice(["int64", "int8", "float32"])
            import numpy as _np
            if all(_np.isfinite(x) for row in vals for x in row):
                vv = [[float(_np.float32(v)) if vd == "float32" else float(max(-100, min(100, round(v)))) for v in row] for row in vals]
                if all(_np.isfinite(x) for row in vv for x in row):
                    step["vals"] = enc(vv)
                    step["vdtype"] = vd
        if m.taxa is not None and rnd.random() < 0.8:
            step["taxa"] = fresh_names(k, rnd)
        if m.grp is not None:
            step["grp"] = [rnd.randint(0, 3) for _ in range(k)]
        w = rnd.random()
        if w < 0.3:
            step["wrap"] = True
        elif w < 0.4:
            step["wrap"] = "override"
        if op in ("insert", "incorp"):
            u = rnd.random()
            if k == 0:
                step["obj"] = []
                step["as"] = "array"
            elif u < 0.45:
                step["obj"] = rnd.randrange(-n, n + 1) if n else 0
            elif u < 0.9 or n == 0:
                step["obj"] = [rnd.randrange(-n, n + 1) if n else 0 for _ in range(k)]
                step["as"] = as_
            else:
                a = rnd.randrange(0, n)
                sl = [a, None, 1]
                cnt = len(range(*slice(*sl).indices(n)))
                if cnt != k:
                    sl = [a, a + k, 1] if a + k <= n else None
                step["obj"] = {"slice": sl} if sl else 0
        return step
    if op == "reorder":
        idx = list(range(n))
        rnd.shuffle(idx)
        return dict(op="reorder", idx=idx)
    if op in ("sort", "group"):
        if (m.taxa is None and m.grp is None) or (m.taxa is not None and any(x is None for x in m.taxa)):
            return gen_step(rnd, m, [o for o in ops if o not in ("sort", "group")])
        return dict(op=op)
    raise ValueError(op)


def model_step(m, step):
    """advance a scratch model during generation (pure python)"""
    op = step["op"]
    if op in ("select", "reorder"):
        m_select(m, step["idx"])
    elif op in ("delete", "remove"):
        m_delete(m, step["obj"])
    elif op in ("insert", "incorp"):
        m_insert(m, step["obj"], dec(step["vals"]), step.get("taxa"), step.get("grp"))
    elif op in ("adjoin", "append"):
        m_adjoin(m, dec(step["vals"]), step.get("taxa"), step.get("grp"))
    elif op in ("sort", "group"):
        m_select(m, m_sort_order(m))


SOUND_OPS = ["select", "select", "delete", "delete", "insert", "insert", "adjoin", "adjoin", "reorder", "sort", "group"]


def gen_start(rnd, kind, nchoices=(1, 2, 3, 3, 4, 5, 6), tchoices=(1, 1, 2, 2, 3)):
    n, t = rnd.choice(nchoices), rnd.choice(tchoices)
    rows = gen_rows(rnd, n, t)
    taxa, grp, trait = gen_labels(rnd, n, t)
    case = dict(kind=kind, cls=rnd.choice(CLASSES), t=t, raw=enc(rows), taxa=taxa, grp=grp, trait=trait)
    return case, Model(rows, t, taxa, grp, trait)


def gen_history(rnd, tier):
    _name_counter[0] = 0
    ncases = 4000 if tier == "quick" else 40000
    maxlen = 5 if tier == "quick" else 9
    for _ in range(ncases):
        case, m = gen_start(rnd, "history")
        steps = []
        for _s in range(rnd.randint(1, maxlen)):
            st = gen_step(rnd, m, SOUND_OPS)
            model_step(m, st)
            steps.append(st)
        case["steps"] = steps
        yield case


def minimal_inplace():
    """smallest instances of each in-place / class-level operation, all three classes"""
    for cls in CLASSES:
        base = dict(kind="inplace", cls=cls, t=1, pre=[])
        yield dict(base, raw=[[1.0], [3.0]], last=dict(op="concat", parts=[dict(raw=[[10.0], [20.0]])], self_at=0, via="taxa"))
        yield dict(base, raw=[[1.0], [3.0]], last=dict(op="concat", parts=[], self_at=0, via="generic0"))
        yield dict(base, raw=[[1.0], [3.0]], last=dict(op="append", vals=[[5.0]], via="taxa"))
        yield dict(base, raw=[[1.0], [3.0]], last=dict(op="append", vals=[[5.0]], via="generic0", wrap=True))
        yield dict(base, raw=[[1.0], [3.0]], last=dict(op="incorp", obj=0, vals=[[5.0]], via="taxa"))
        yield dict(base, raw=[[1.0], [3.0]], last=dict(op="incorp", obj=[1], vals=[[5.0]], via="generic-2", wrap=True))
        yield dict(base, raw=[[1.0], [3.0], [8.0]], last=dict(op="remove", obj=2, via="taxa"))
        yield dict(base, raw=[[1.0], [3.0], [8.0]], last=dict(op="remove", obj=[0, 1], via="generic0"))
        yield dict(base, t=2, raw=[[1.0, None], [3.0, 4.0], [8.0, 6.0]], taxa=["a", "b", "c"], grp=[1, 0, 1],
                   trait=["y1", "y2"], last=dict(op="remove", obj={"slice": [None, 1, None]}, via="taxa"))


def gen_inplace(rnd, tier):
    _name_counter[0] = 0
    for case in minimal_inplace():
        yield case
    ncases = 3500 if tier == "quick" else 40000
    for _ in range(ncases):
        case, m = gen_start(rnd, "inplace")
        pre = []
        for _s in range(rnd.choice([0, 0, 1, 2])):
            st = gen_step(rnd, m, SOUND_OPS)
            model_step(m, st)
            pre.append(st)
        case["pre"] = pre
        op = rnd.choice(["append", "remove", "incorp", "concat"])
        if op == "remove":
            obj = gen_obj_delete(rnd, m.n)
            last = dict(op="remove", obj=obj, via=rnd.choice(["taxa", "taxa", "generic0", "generic-2"]))
            last["as"] = "array" if obj == [] else rnd.choice(["list", "array"])
        elif op == "concat":
            parts = []
            for _p in range(rnd.choice([0, 1, 1, 2, 3])):
                k = rnd.choice([0, 1, 2, 3])
                prow = gen_values(rnd, k, m.t, m)
                part = dict(raw=enc(prow))
                if m.taxa is not None and rnd.random() < 0.85:
                    part["taxa"] = fresh_names(k, rnd)
                if m.grp is not None:
                    part["grp"] = [rnd.randint(0, 3) for _ in range(k)]
                parts.append(part)
            last = dict(op="concat", parts=parts, self_at=rnd.choice([0, 0, 1, 2]),
                        via=rnd.choice(["taxa", "taxa", "generic0", "generic-2"]))
        else:
            last = gen_step(rnd, m, [op])
        case["last"] = last
        yield case


def gen_scaled(rnd, tier):
    for c in CONST_OTHER + CONST_DYADIC:
        for n in (1, 2, 3, 6):
            yield dict(kind="scaled", shape=[n, 1], mat=[c] * n, steps=[dict(op="rescale", inplace=True),
                                                                         dict(op="unscale", inplace=False)])
    ncases = 4500 if tier == "quick" else 50000
    for _ in range(ncases):
        t = rnd.choice([1, 2, 2, 3, 4])
        lead = rnd.choice([(), (1,), (2,), (3,), (3,), (5,), (2, 3), (3, 2), (1, 4), (4,)])
        shape = list(lead) + [t]
        nlead = 1
        for d in lead:
            nlead *= d
        cols = [gen_col(rnd, nlead) for _ in range(t)]
        flat = [cols[j][i] for i in range(nlead) for j in range(t)]
        case = dict(kind="scaled", shape=shape, mat=enc(flat))
        u = rnd.random()
        if u < 0.3:
            case["location"], case["scale"] = rnd.choice([0.0, 2.5, -1e6, 3]), rnd.choice([1.0, 0.5, 3.0, 2])
        elif u < 0.55:
            case["location"] = [rnd.choice([0.0, 1.0, -2.5, 1e6]) for _ in range(t)]
            case["scale"] = [rnd.choice([1.0, 2.0, 0.25, 10.0]) for _ in range(t)]
        steps = []
        for _s in range(rnd.randint(1, 5 if tier == "quick" else 8)):
            op = rnd.choice(["rescale", "rescale", "unscale", "unscale", "transform", "untransform"])
            if op in ("rescale", "unscale"):
                steps.append(dict(op=op, inplace=rnd.random() < 0.6))
            else:
                xs = rnd.choice([[t], [1, t], [2, t], [3, 1, t]])
                cnt = 1
                for d in xs:
                    cnt *= d
                x = [rnd.choice([0.0, 1.0, -1.5, 1e6, NAN, rnd.gauss(0, 1)]) for _ in range(cnt)]
                steps.append(dict(op=op, x=enc(x), xshape=xs, copy=rnd.random() < 0.5))
        case["steps"] = steps
        yield case


# --------------------------------------------------------------------------- units
@unit(P, U_CONSTRUCT, "R", bounded=True,
      note="bounded: exhaustive single-trait columns of <=4 (quick) / <=5 (thorough) taxa over a 6-value palette "
           "(0, 1, -2.5, 0.1, NaN, 1e9+0.5), constant columns up to 23 taxa, 3000 / 40000 seeded random matrices with "
           "<=12 taxa, <=4 traits, |x| <= ~1e12")
def u_ring_construct(ctx):
    ctx.rule = ("exhaustive small columns + seeded random matrices (ints with ties, gaussian, large offsets, constant, "
                "all-NaN, sprinkled NaN) for the three classes; each case: from_numpy then round trip, stored centring, "
                "unit scale of constant traits, 8 summaries on the original scale against a python oracle; distinct by "
                "class, raw matrix and labels")
    drive(ctx, gen_construct(ctx.rng, ctx.tier),
          lambda c: dict(cls=c["cls"], raw=c["raw"]) if len(c["raw"]) >= 3 else None)


@unit(P, U_HISTORY, "R", bounded=True,
      note="bounded: 4000 / 40000 seeded histories of <=5 / <=9 steps (select, delete, insert, adjoin via *_taxa and "
           "the axis dispatchers, reorder/sort/group) on matrices of <=6 taxa, <=3 traits")
def u_ring_history(ctx):
    ctx.rule = ("seeded random operation sequences, each step valid for the current list model (indices with duplicates, "
                "negatives, full length, empty, slices; values as raw arrays or matrices of the same class); the model "
                "applies the statement's list semantics; full conformance is checked after every step; distinct by "
                "start matrix and step list")
    drive(ctx, gen_history(ctx.rng, ctx.tier),
          lambda c: dict(cls=c["cls"], raw=c["raw"], steps=[s["op"] for s in c["steps"]]))


@unit(P, U_INPLACE, "R", bounded=True,
      note="bounded: 3500 / 40000 seeded cases: <=2 sound steps then one of append/remove/incorp (in place) or "
           "concat of <=4 matrices, <=6+3 taxa, <=3 traits")
def u_ring_inplace(ctx):
    ctx.rule = ("seeded random start matrix and prefix, then one in-place or class-level taxa operation (via *_taxa or "
                "the axis dispatcher); shape, labels and values of taxa already present keep the generic classes, "
                "everything else after the operation has the operation's own class; distinct by full input")
    drive(ctx, gen_inplace(ctx.rng, ctx.tier),
          lambda c: dict(cls=c["cls"], raw=c["raw"], last=c["last"]["op"]))


@unit(P, U_SCALED, "R", bounded=True,
      note="bounded: 4500 / 50000 seeded cases, arrays of 1-3 dimensions with <=6 leading elements and <=4 traits, "
           "<=5 / <=8 steps of rescale/unscale (in place or not) and transform/untransform (copy or not)")
def u_ring_scaled(ctx):
    ctx.rule = ("seeded random arrays (last axis = traits) with default, scalar or per-trait initial location/scale; "
                "after every step scale*mat+location must reproduce the raw values, rescale must centre/scale, "
                "in-place unscale must leave location 0 / scale 1, not-in-place calls must leave the matrix alone; "
                "distinct by array, parameters and step list")
    drive(ctx, gen_scaled(ctx.rng, ctx.tier),
          lambda c: dict(shape=c["shape"], steps=[s["op"] for s in c["steps"]]))


REPLAYERS = {U_CONSTRUCT: _replay, U_HISTORY: _replay, U_INPLACE: _replay, U_SCALED: _replay}
