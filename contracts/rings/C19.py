"""C19 -- native bounded rings (mode R): Pareto-front identification, the
feasibility-first dominance predicate and the distance-to-preference-vector
transformations, run on the REAL pybrops code against oracles written from the
property statement.

Oracles (independent of the code's formulas, plain loops):

* Pareto filter: on the weighted objectives ``fmat[i,k]*wt[k]`` (maximising) a
  point is *dominated* if another point is >= in every coordinate and > in one.
  marked => not dominated; unmarked => some marked point is >= it in every
  coordinate; mask form and index form name the same points; the set of
  efficient objective vectors equals the brute-force non-dominated set, also
  after a permutation of the rows and after a positive rescaling of a column.
* dominates(o1,cv1,o2,cv2): feasible means cv <= 0.  Both feasible: Pareto
  dominance (minimising, pymoo convention).  Feasible vs infeasible: the
  feasible one dominates.  Both infeasible: smaller violation dominates.
* distance transforms: weighted objectives are min-max scaled per objective to
  [0,1] (an objective whose range is zero becomes the zero column: after the
  minimum is subtracted every entry is exactly 0 and any finite rescale of 0 is
  0); the value for a point is its Euclidean distance to the line through the
  origin spanned by the preference vector, computed here with the Lagrange
  identity  d^2 = sum_{j<k} (p_j l_k - p_k l_j)^2 / |l|^2  (not with the
  projection the code uses).  Translation of the front leaves the values
  unchanged.  All values finite.

Floating point: flags, masks and index sets are compared exactly.  Distances
are compared to the oracle with absolute tolerance 1e-9 (two different
formulas cannot agree bit for bit); translation invariance is compared
EXACTLY on integer/dyadic fronts (where the translation is exact) and with
1e-9 on decimal fronts.
"""
import itertools
import math

from pyvc.unit import unit

P = "C19"

T_PARETO = "pybrops/core/util/pareto.py:is_pareto_efficient"
T_CORE = "pybrops/core/util/trans.py:trans_ndpt_pseudo_dist"
T_PROB = "pybrops/breed/prot/sel/prob/trans.py:trans_ndpt_to_vec_dist"
T_TRANSFN = "pybrops/breed/prot/sel/transfn.py:trans_ndpt_to_vec_dist"
T_DOM = "pybrops/opt/algo/pymoo_addon.py:dominates"

TOL = 1e-9

# classes of failing input that are (suspected) genuine defects of the unchanged tree
EXPECTED_PREFIXES = ("zero-range-nan:sel/", "roles-swapped:sel/")


# =====================================================================================
# 1. Pareto filter
# =====================================================================================

def _weighted(pts, wt):
    return [[p[k] * wt[k] for k in range(len(wt))] for p in pts]


def _geq(a, b):
    for k in range(len(a)):
        if not (a[k] >= b[k]):
            return False
    return True


def _dom_max(a, b):
    """a dominates b, maximising: a >= b everywhere and a > b somewhere"""
    strict = False
    for k in range(len(a)):
        if a[k] < b[k]:
            return False
        if a[k] > b[k]:
            strict = True
    return strict


def _nondominated(w):
    n = len(w)
    out = []
    for i in range(n):
        nd = True
        for j in range(n):
            if j != i and _dom_max(w[j], w[i]):
                nd = False
                break
        out.append(nd)
    return out


def _filter_exact(w, marked):
    """(clause, message) or None: soundness and completeness of the marking `marked`
    (list of bool) on the weighted objective rows `w`."""
    n = len(w)
    for i in range(n):
        if marked[i]:
            for j in range(n):
                if j != i and _dom_max(w[j], w[i]):
                    return ("marked-but-dominated",
                            "point %d %r is marked efficient but point %d %r is at least as good in every weighted "
                            "objective and strictly better in one" % (i, w[i], j, w[j]))
        else:
            ok = False
            for j in range(n):
                if marked[j] and _geq(w[j], w[i]):
                    ok = True
                    break
            if not ok:
                return ("unmarked-not-covered",
                        "point %d %r is not marked but no marked point equals or dominates it (marked=%r)" % (
                            i, w[i], [j for j in range(n) if marked[j]]))
    return None


def _forms(n, mask, idx):
    """(clause, message) or None: result forms and mask/index agreement"""
    import numpy
    if not isinstance(mask, numpy.ndarray) or mask.dtype != numpy.bool_ or mask.shape != (n,):
        return ("mask-form", "mask form is not a boolean array of shape (%d,): %r" % (n, mask))
    if not isinstance(idx, numpy.ndarray) or idx.ndim != 1 or idx.dtype.kind not in "iu":
        return ("index-form", "index form is not a 1-d integer array: %r" % (idx,))
    il = [int(x) for x in idx]
    if len(set(il)) != len(il) or any(x < 0 or x >= n for x in il):
        return ("index-form", "index form has duplicates or out-of-range entries: %r" % (il,))
    ml = [i for i in range(n) if bool(mask[i])]
    if sorted(il) != ml:
        return ("mask-index-disagree", "mask marks %r but the index form returns %r" % (ml, il))
    return None


def _fmat(pts, nobj, as_int):
    import numpy
    return numpy.array(pts, dtype="int64" if as_int else "float64").reshape(len(pts), nobj)


def _wtarr(wt, shape, as_int):
    import numpy
    a = numpy.array(wt, dtype="int64" if as_int else "float64")
    if shape == "col":
        a = a.reshape(-1, 1)
    elif shape == "row":
        a = a.reshape(1, -1)
    return a


def _eval_pf(case):
    """one point set: exactness, mask/index, no mutation, order and rescaling invariance"""
    import numpy
    from pybrops.core.util.pareto import is_pareto_efficient
    pts, wt = case["pts"], case["wt"]
    n, m = len(pts), len(wt)
    as_int = bool(case.get("int"))
    fmat = _fmat(pts, m, as_int)
    wta = _wtarr(wt, case.get("wtshape", "flat"), bool(case.get("wt_int")))
    f0, w0 = fmat.copy(), wta.copy()
    mask = is_pareto_efficient(fmat, wta)              # default form
    mask_kw = is_pareto_efficient(fmat, wta, return_mask=True)
    idx = is_pareto_efficient(fmat, wta, False)
    if not (numpy.array_equal(fmat, f0) and numpy.array_equal(wta, w0)):
        return ("pareto:input-mutated", "is_pareto_efficient modified its arguments")
    r = _forms(n, mask, idx)
    if r:
        return ("pareto:" + r[0], r[1])
    if not numpy.array_equal(mask, mask_kw):
        return ("pareto:mask-form", "default call and return_mask=True differ: %r vs %r" % (mask, mask_kw))
    rows = [list(map(int if as_int else float, p)) for p in pts]
    w = _weighted(rows, [int(x) for x in wt] if case.get("wt_int") else [float(x) for x in wt])
    marked = [bool(x) for x in mask]
    r = _filter_exact(w, marked)
    if r:
        return ("pareto:" + r[0], r[1])
    nd = _nondominated(w)
    # the set of efficient objective vectors, in weighted coordinates (original weights)
    want = set(tuple(w[i]) for i in range(n) if nd[i])
    got = set(tuple(w[i]) for i in range(n) if marked[i])
    if want != got:
        return ("pareto:efficient-set", "efficient vectors %r, brute force %r" % (sorted(got), sorted(want)))
    perm = case.get("perm")
    if perm is not None:
        fp = fmat[numpy.array(perm, dtype=int)] if n else fmat
        mp = is_pareto_efficient(fp, wta)
        ip = is_pareto_efficient(fp, wta, False)
        r = _forms(n, mp, ip)
        if r:
            return ("pareto:" + r[0], "(permuted rows %r) %s" % (perm, r[1]))
        gotp = set(tuple(w[perm[i]]) for i in range(n) if bool(mp[i]))
        if gotp != want:
            return ("pareto:order-variant", "rows permuted by %r: efficient vectors %r, original order %r" % (
                perm, sorted(gotp), sorted(want)))
    sc = case.get("scale")
    if sc is not None:
        k, c = int(sc[0]), float(sc[1])
        if case.get("scale_on") == "wt":
            w2 = wta.astype("float64").copy()
            w2.reshape(-1)[k] *= c
            ms = is_pareto_efficient(fmat, w2)
        else:
            f2 = fmat.astype("float64").copy()
            f2[:, k] *= c
            ms = is_pareto_efficient(f2, wta)
        gots = set(tuple(w[i]) for i in range(n) if bool(ms[i]))
        if gots != want:
            return ("pareto:rescale-variant", "objective %d rescaled by %r (%s): efficient vectors %r, before %r" % (
                k, c, case.get("scale_on", "fmat"), sorted(gots), sorted(want)))
    return None


def _decode_grid(n, m, vals, g):
    nv = len(vals)
    pts = []
    for _ in range(n):
        row = []
        for _k in range(m):
            row.append(vals[g % nv])
            g //= nv
        pts.append(row)
    return pts


def _decode_cols(n, vals, cols):
    """column codes -> n x len(cols) point list"""
    nv = len(vals)
    colv = []
    for c in cols:
        col = []
        for _ in range(n):
            col.append(vals[c % nv])
            c //= nv
        colv.append(col)
    return [[colv[k][i] for k in range(len(cols))] for i in range(n)]


def _grid_iter(case):
    n, m, vals = case["npt"], case["nobj"], case["vals"]
    if case.get("colsorted"):
        it = itertools.combinations_with_replacement(range(len(vals) ** n), m)
        for cols in itertools.islice(it, case["lo"], case["hi"]):
            yield _decode_cols(n, vals, cols)
    else:
        for g in range(case["lo"], case["hi"]):
            yield _decode_grid(n, m, vals, g)


def _grid_failures(case, limit=3):
    """exhaustive block: mask + index form against the definition; returns the failing
    point sets as replayable single cases"""
    import numpy
    from pybrops.core.util.pareto import is_pareto_efficient
    wt = [float(x) for x in case["wt"]]
    m = case["nobj"]
    wta = numpy.array(wt, dtype="float64")
    out = []
    count = 0
    for pts in _grid_iter(case):
        count += 1
        n = len(pts)
        fmat = numpy.array(pts, dtype="float64").reshape(n, m)
        single = dict(kind="pf", pts=pts, wt=wt, wtshape="flat", perm=None, scale=None)
        try:
            mask = is_pareto_efficient(fmat, wta, True)
            idx = is_pareto_efficient(fmat, wta, False)
            r = _forms(n, mask, idx)
            if r is None:
                r = _filter_exact(_weighted(pts, wt), [bool(x) for x in mask])
        except Exception as e:
            r = ("exception", "exception %s: %s" % (type(e).__name__, e))
        if r:
            out.append((single, "pareto:" + r[0], r[1]))
            if len(out) >= limit:
                break
    return out, count


# =====================================================================================
# 2. dominates
# =====================================================================================

def _dominates_oracle(o1, cv1, o2, cv2):
    feas1 = cv1 <= 0
    feas2 = cv2 <= 0
    if feas1 and feas2:
        strict = False
        for k in range(len(o1)):
            if o1[k] > o2[k]:
                return False
            if o1[k] < o2[k]:
                strict = True
        return strict
    if feas1 and not feas2:
        return True
    if feas2 and not feas1:
        return False
    return cv1 < cv2


def _cvval(x, kind):
    import numpy
    if kind == "numpy":
        return numpy.float64(x)
    if kind == "int":
        return int(x)
    return float(x)


def _eval_dom(case):
    import numpy
    from pybrops.opt.algo.pymoo_addon import dominates
    dt = "int64" if case.get("int") else "float64"
    o1 = numpy.array(case["o1"], dtype=dt)
    o2 = numpy.array(case["o2"], dtype=dt)
    c1, c2 = _cvval(case["cv1"], case.get("cvkind", "float")), _cvval(case["cv2"], case.get("cvkind", "float"))
    a1, a2 = o1.copy(), o2.copy()
    got = dominates(o1, c1, o2, c2)
    if not (numpy.array_equal(o1, a1) and numpy.array_equal(o2, a2)):
        return ("dominates:input-mutated", "dominates modified an objective vector")
    if not isinstance(got, (bool, numpy.bool_)):
        return ("dominates:form", "dominates returned %r (%s), not a truth value" % (got, type(got).__name__))
    want = _dominates_oracle(list(case["o1"]), case["cv1"], list(case["o2"]), case["cv2"])
    if bool(got) != want:
        f1, f2 = case["cv1"] <= 0, case["cv2"] <= 0
        kind = "feasible-pair" if (f1 and f2) else ("infeasible-pair" if not (f1 or f2) else "mixed-feasibility")
        return ("dominates:" + kind, "dominates(%r, %r, %r, %r) = %r, definition gives %r" % (
            case["o1"], case["cv1"], case["o2"], case["cv2"], bool(got), want))
    return None


def _domgrid_failures(case, limit=3):
    """all ordered pairs of (objective vector, violation) elements; definition on every
    pair, then irreflexivity, asymmetry, transitivity of the observed relation"""
    import numpy
    from pybrops.opt.algo.pymoo_addon import dominates
    m, vals, cvs = case["nobj"], case["vals"], case["cvs"]
    objs = [list(t) for t in itertools.product(vals, repeat=m)]
    elems = [(o, c) for o in objs for c in cvs]
    arrs = [numpy.array(o, dtype="float64") for o, _ in elems]
    ne = len(elems)
    out = []
    rel = numpy.zeros((ne, ne), dtype=bool)
    for i in range(ne):
        for j in range(ne):
            o1, c1 = elems[i]
            o2, c2 = elems[j]
            single = dict(kind="dom", o1=o1, cv1=c1, o2=o2, cv2=c2, cvkind="float")
            try:
                got = bool(dominates(arrs[i], c1, arrs[j], c2))
            except Exception as e:
                out.append((single, "dominates:exception", "exception %s: %s" % (type(e).__name__, e)))
                if len(out) >= limit:
                    return out, i * ne + j + 1
                continue
            rel[i, j] = got
            if got != _dominates_oracle(o1, c1, o2, c2):
                r = _eval_dom(single)
                out.append((single, r[0] if r else "dominates:unstable", r[1] if r else "not reproducible"))
                if len(out) >= limit:
                    return out, i * ne + j + 1
    if not out:
        # derived order laws on the observed relation (redundant with the definition; kept as a cross-check)
        if rel.diagonal().any():
            i = int(numpy.flatnonzero(rel.diagonal())[0])
            out.append((dict(kind="dom", o1=elems[i][0], cv1=elems[i][1], o2=elems[i][0], cv2=elems[i][1]),
                        "dominates:order-law", "an element dominates itself"))
        elif (rel & rel.T).any():
            i, j = [int(x) for x in numpy.argwhere(rel & rel.T)[0]]
            out.append((dict(kind="dom", o1=elems[i][0], cv1=elems[i][1], o2=elems[j][0], cv2=elems[j][1]),
                        "dominates:order-law", "two elements dominate each other"))
        else:
            r = rel.astype("int64")
            comp = (r @ r) > 0
            bad = comp & ~rel
            if bad.any():
                i, j = [int(x) for x in numpy.argwhere(bad)[0]]
                out.append((dict(kind="dom", o1=elems[i][0], cv1=elems[i][1], o2=elems[j][0], cv2=elems[j][1]),
                            "dominates:order-law", "relation is not transitive (a dom b dom c, not a dom c)"))
    return out, ne * ne


# =====================================================================================
# 3. distance-to-preference-vector transformations
# =====================================================================================

ARGN = {"core": ("objfn_minmax", "objfn_pseudoweight"), "prob": ("obj_wt", "vec_wt"),
        "transfn": ("objfn_wt", "wt"), "default": ("obj_wt", "vec_wt")}
MOD = {"core": "core/util/trans", "prob": "sel/prob/trans", "transfn": "sel/transfn", "default": "sel/prob/trans"}


def _geom(pts, sign, pref):
    """geometric definition: distances of the min-max scaled weighted points to the
    line spanned by pref; also returns whether some weighted objective is constant"""
    n, m = len(pts), len(sign)
    w = [[pts[i][k] * sign[k] for k in range(m)] for i in range(n)]
    s = [[0.0] * m for _ in range(n)]
    const = False
    for k in range(m):
        lo = min(w[i][k] for i in range(n))
        hi = max(w[i][k] for i in range(n))
        rg = hi - lo
        if rg > 0:
            for i in range(n):
                s[i][k] = (w[i][k] - lo) / rg
        else:
            const = True
    ll = 0.0
    for k in range(m):
        ll += pref[k] * pref[k]
    out = []
    for i in range(n):
        acc = 0.0
        for j in range(m):
            for k in range(j + 1, m):
                c = s[i][j] * pref[k] - s[i][k] * pref[j]
                acc += c * c
        out.append(math.sqrt(acc / ll))
    return out, const


def _call_impl(impl, mat, a, b):
    import numpy
    if impl == "core":
        from pybrops.core.util.trans import trans_ndpt_pseudo_dist
        return trans_ndpt_pseudo_dist(mat, a, b)
    if impl == "prob":
        from pybrops.breed.prot.sel.prob.trans import trans_ndpt_to_vec_dist
        return trans_ndpt_to_vec_dist(mat, obj_wt=a, vec_wt=b)
    if impl == "transfn":
        from pybrops.breed.prot.sel.transfn import trans_ndpt_to_vec_dist
        return trans_ndpt_to_vec_dist(mat, objfn_wt=a, wt=b)
    if impl == "default":
        # the default ndset_trans / ndset_trans_kwargs / ndset_wt installed by SelectionProtocol's setters,
        # used exactly as SubsetSelectionProtocol.select uses them
        from pybrops.breed.prot.sel.SelectionProtocol import SelectionProtocol

        class _Holder:
            pass
        h = _Holder()
        h.nobj = mat.shape[1]
        SelectionProtocol.ndset_wt.fset(h, None)
        SelectionProtocol.ndset_trans.fset(h, None)
        if bool(numpy.all(a == 1.0)) and bool(numpy.all(b == 1.0)):
            SelectionProtocol.ndset_trans_kwargs.fset(h, None)
        else:
            SelectionProtocol.ndset_trans_kwargs.fset(h, {"obj_wt": a, "vec_wt": b})
        return h._ndset_wt * h._ndset_trans(mat, **h._ndset_trans_kwargs)
    raise ValueError(impl)


def _close(d, ref, tol):
    for i in range(len(ref)):
        x = float(d[i])
        if not math.isfinite(x) or abs(x - ref[i]) > tol:
            return False
    return True


def _eval_td(case):
    import numpy
    impl = case["impl"]
    mod = MOD[impl]
    pts = [[float(x) for x in p] for p in case["pts"]]
    a = [float(x) for x in case["a"]]
    b = [float(x) for x in case["b"]]
    n, m = len(pts), len(a)
    branch = case.get("branch", "doc")
    mat = numpy.array(pts, dtype="float64").reshape(n, m)
    aa, ba = numpy.array(a, dtype="float64"), numpy.array(b, dtype="float64")
    m0, a0, b0 = mat.copy(), aa.copy(), ba.copy()
    with numpy.errstate(all="ignore"):
        d = _call_impl(impl, mat, aa, ba)
    if not (numpy.array_equal(mat, m0) and numpy.array_equal(aa, a0) and numpy.array_equal(ba, b0)):
        return ("dist-input-mutated:" + mod, "%s modified its arguments" % impl)
    if not isinstance(d, numpy.ndarray) or d.shape != (n,) or d.dtype.kind != "f":
        return ("dist-form:" + mod, "%s returned %r, expected a float array of shape (%d,)" % (impl, d, n))
    # documented reading: a = objective sign/weight vector, b = preference vector
    # other reading (what the two sel/ functions compute): b weights the objectives, a spans the line
    ref_doc, const_doc = _geom(pts, a, b)
    ok_doc = _close(d, ref_doc, TOL)
    finite = bool(numpy.all(numpy.isfinite(d)))
    rawconst = any(len(set(pts[i][k] for i in range(n))) == 1 for k in range(m))
    an, bn = ARGN[impl]
    what = "%s(%r, %s=%r, %s=%r) = %r" % (impl, pts, an, a, bn, b, [float(x) for x in d])
    if branch == "doc":
        if not ok_doc:
            if not finite and const_doc:
                return ("zero-range-nan:" + mod, what + "; not finite although the front only has a constant "
                        "(zero-range) weighted objective; definition gives %r" % (ref_doc,))
            ref_swp, const_swp = _geom(pts, b, a) if any(x != 0 for x in a) else (None, False)
            if ref_swp is not None and (_close(d, ref_swp, TOL) or (not finite and const_swp)):
                return ("roles-swapped:" + mod, what + "; definition (objectives weighted by the sign vector %s, "
                        "distance to the line spanned by the preference vector %s) gives %r; the returned values are "
                        "those obtained with the two vectors exchanged (objectives multiplied by %s, line spanned by "
                        "%s: %s)" % (an, bn, ref_doc, bn, an,
                                     repr(ref_swp) if finite else "an objective has zero range after multiplication "
                                                                  "by a zero preference component, hence not finite"))
            return ("dist-geometry:" + mod, what + "; geometric definition gives %r" % (ref_doc,))
    else:
        # input valid only under the other reading (b has negative entries, a is a non-negative non-zero line):
        # either reading of the two vectors is accepted
        ref_swp, const_swp = _geom(pts, b, a)
        if not (ok_doc or _close(d, ref_swp, TOL)):
            if not finite and const_swp:
                return ("zero-range-nan:" + mod, what + "; not finite although the front only has a constant "
                        "(zero-range) weighted objective; definition gives %r" % (ref_swp,))
            return ("dist-geometry:" + mod, what + "; geometric definition gives %r (line spanned by the first "
                    "vector) or %r (line spanned by the second)" % (ref_swp, ref_doc))
    if not finite:
        return ("dist-geometry:" + mod, what + "; not finite")
    sh = case.get("shift")
    if sh is not None:
        mat2 = mat + numpy.array([float(x) for x in sh], dtype="float64")
        with numpy.errstate(all="ignore"):
            d2 = _call_impl(impl, mat2, aa, ba)
        exact = bool(case.get("exact", True))
        same = numpy.array_equal(d, d2) if exact else bool(numpy.all(numpy.abs(d - d2) <= TOL))
        if not same:
            return ("dist-translation:" + mod, what + "; after translating the front by %r: %r" % (
                sh, [float(x) for x in d2]))
    return None


# =====================================================================================
# dispatch, replay
# =====================================================================================

def _eval(case):
    k = case.get("kind")
    if k == "pf":
        return _eval_pf(case)
    if k == "pfgrid":
        fl, _ = _grid_failures(case, limit=1)
        return (fl[0][1], "%s  [point set %r]" % (fl[0][2], fl[0][0]["pts"])) if fl else None
    if k == "dom":
        return _eval_dom(case)
    if k == "domgrid":
        fl, _ = _domgrid_failures(case, limit=1)
        return (fl[0][1], fl[0][2]) if fl else None
    if k == "td":
        return _eval_td(case)
    raise ValueError("unknown case kind %r" % (k,))


def _exc_cls(case):
    k = case.get("kind", "?")
    if k.startswith("pf"):
        return "pareto:exception"
    if k.startswith("dom"):
        return "dominates:exception"
    return "dist-exception:" + MOD.get(case.get("impl"), "?")


def eval_case(case):
    """(cls, message) or None; an exception of the real code on a valid input is a failure"""
    try:
        return _eval(case)
    except Exception as e:
        return (_exc_cls(case), "exception %s: %s" % (type(e).__name__, e))


def run_case(case):
    r = eval_case(case)
    if r is None:
        return False, "ok"
    return True, "[%s] %s" % (r[0], r[1])


class _Rec:
    """failure recorder: at most 3 inputs per cls; the unit stops after 3 failures outside
    the classes that are suspected genuine defects of the unchanged tree"""

    def __init__(self, ctx):
        self.ctx = ctx
        self.per = {}
        self.unexpected = 0

    def fail(self, obligation, case, cls, msg):
        c = self.per.get(cls, 0)
        self.per[cls] = c + 1
        if c < 3:
            self.ctx.fail_input(obligation, case, cls=cls, message=msg)
            if not cls.startswith(EXPECTED_PREFIXES):
                self.unexpected += 1

    def stop(self):
        return self.unexpected >= 3


# =====================================================================================
# unit 1/2: exhaustive grids for the Pareto filter
# =====================================================================================

SIGNS2 = [[1, 1], [1, -1], [-1, 1], [-1, -1]]
WTS2 = SIGNS2 + [[2, 0.5], [-3, 0.25], [0, 1], [-1, 0], [0, 0]]
SIGNS3 = [[1, 1, 1], [-1, -1, -1], [1, -1, 1], [-1, 1, 1], [1, 1, -1]]


def _grid_plan(tier):
    """(npt, nobj, vals, list of weight vectors)"""
    V = [0, 1, 2]
    V2 = [-1, 0, 2.5]
    plan = [
        (0, 1, V, [[1], [-1]]), (0, 2, V, SIGNS2), (0, 3, V, SIGNS3[:2]),
        (1, 1, V, [[1], [-1], [0]]), (2, 1, V, [[1], [-1], [0]]), (3, 1, V, [[1], [-1], [2.5]]),
        (4, 1, V, [[1], [-1]]), (5, 1, V, [[1], [-1]]),
        (1, 2, V, WTS2), (2, 2, V, WTS2), (3, 2, V, WTS2), (4, 2, V, SIGNS2 + [[-3, 0.25], [0, 1]]),
        (1, 3, V, SIGNS3), (2, 3, V, SIGNS3 + [[0, 1, -1], [2, 0.5, -4]]), (3, 3, V, SIGNS3[:3]),
        (3, 2, V2, SIGNS2), (5, 2, V, [[1, -1]]),
    ]
    if tier == "thorough":
        plan += [
            (5, 2, V, [[1, 1], [-1, 1], [-1, -1], [0.5, -3]]),
            (4, 2, V2, SIGNS2),
            (3, 3, V, SIGNS3[3:] + [[0, 1, -1]]),
            (4, 3, V, [[1, 1, 1], [-1, 1, -1]]),
            (6, 2, V, [[1, 1]]),
        ]
    return plan


def _run_grid_blocks(ctx, blocks, keybase):
    rec = _Rec(ctx)
    total = 0
    for bi, blk in enumerate(blocks):
        fl, count = _grid_failures(blk, limit=3)
        total += count
        ctx.evaluations += count - 1
        ctx.case(key=(keybase, bi, repr(sorted(blk.items(), key=str))), nontrivial=blk["npt"] >= 2,
                 sample=dict(npt=blk["npt"], nobj=blk["nobj"], wt=blk["wt"], grids=count) if blk["npt"] >= 3 else None)
        for single, cls, msg in fl:
            rec.fail("ring:" + cls, single, cls, msg)
        if rec.stop():
            break
    return total


@unit(P, "ring[pareto filter, exhaustive small grids]", "R", bounded=True, targets=[T_PARETO],
      note="bounded: every point sequence over a 3-value pool with npt<=4 x nobj<=2, npt<=3 x nobj<=3, npt<=5 x nobj=1, "
           "5x2 (one sign vector) in the quick tier; thorough adds 5x2 (4 more weight vectors), 4x3 (2), 6x2 (1); "
           "sign vectors of both signs, weight magnitudes and zero weights; each block is one (shape, weight vector)")
def u_ring_grid(ctx):
    ctx.rule = ("exhaustive enumeration of all npt x nobj matrices over a 3-value pool (every pattern of duplicates, "
                "single-coordinate ties, empty and one-point sets, collinear fronts at that size) for each listed weight "
                "vector; mask and index form checked against the O(n^2) definition; one counted case per (shape, weight "
                "vector) block, evaluations counts the matrices; non-trivial if npt >= 2")
    blocks = []
    for n, m, vals, wts in _grid_plan(ctx.tier):
        for wt in wts:
            blocks.append(dict(kind="pfgrid", npt=n, nobj=m, vals=vals, wt=wt, lo=0, hi=len(vals) ** (n * m)))
    total = _run_grid_blocks(ctx, blocks, "g")
    ctx.exhaustive = "%d matrices in %d (shape, weights) blocks" % (total, len(blocks))


def _ncwr(c, m):
    return math.comb(c + m - 1, m)


def _grid53(ctx, part, nparts):
    ctx.rule = ("5x3 matrices over {0,1,2} enumerated as multisets of columns; the definition is symmetric in the "
                "objectives, so this is exhaustive up to objective order; part %d of %d of the enumeration; quick: "
                "seeded slices of this part; counted per slice" % (part + 1, nparts))
    n, m, vals = 5, 3, [0, 1, 2]
    tot = _ncwr(len(vals) ** n, m)
    p_lo, p_hi = tot * part // nparts, tot * (part + 1) // nparts
    blocks = []
    if ctx.tier == "thorough":
        step = 100000
        for lo in range(p_lo, p_hi, step):
            blocks.append(dict(kind="pfgrid", npt=n, nobj=m, vals=vals, wt=[1, 1, 1], colsorted=True,
                               lo=lo, hi=min(p_hi, lo + step)))
    else:
        for _ in range(4):
            lo = ctx.rng.randrange(p_lo, p_hi - 15000)
            blocks.append(dict(kind="pfgrid", npt=n, nobj=m, vals=vals, wt=[1, 1, 1], colsorted=True,
                               lo=lo, hi=lo + 15000))
    total = _run_grid_blocks(ctx, blocks, "c%d" % part)
    ctx.exhaustive = "%d of the %d column-sorted 5x3 matrices of part %d/%d (all parts: %d)" % (
        total, p_hi - p_lo, part + 1, nparts, tot)


_NOTE53 = ("bounded: 5-point x 3-objective matrices over {0,1,2} whose columns are in non-decreasing code order "
           "(2,401,245 matrices = all 14,348,907 up to a permutation of the objectives), all-maximising weights; "
           "this unit covers one half of the enumeration: thorough runs the whole half, quick 4 seeded slices of 15,000")


@unit(P, "ring[pareto filter, 5x3 grids up to column order, part 1]", "R", bounded=True, targets=[T_PARETO], note=_NOTE53)
def u_ring_grid53a(ctx):
    _grid53(ctx, 0, 2)


@unit(P, "ring[pareto filter, 5x3 grids up to column order, part 2]", "R", bounded=True, targets=[T_PARETO], note=_NOTE53)
def u_ring_grid53b(ctx):
    _grid53(ctx, 1, 2)


# =====================================================================================
# unit 3: seeded random point sets
# =====================================================================================

def _rand_wt(rnd, m):
    style = rnd.random()
    if style < 0.45:
        return [rnd.choice([1, -1]) for _ in range(m)], True
    if style < 0.85:
        return [rnd.choice([1.0, -1.0, 0.5, -0.25, 2.0, -3.0, 10.0, -1e-3, 1e3]) for _ in range(m)], False
    return [rnd.choice([1.0, -1.0, 0.0, 2.0]) for _ in range(m)], False


def gen_pf_cases(rnd, tier):
    ncase = 2500 if tier == "quick" else 40000
    nmax = 12 if tier == "quick" else 40
    for _ in range(ncase):
        m = rnd.choice([1, 2, 2, 3, 3, 4, 5])
        u = rnd.random()
        n = 0 if u < 0.02 else (1 if u < 0.06 else rnd.randint(2, rnd.choice([4, 8, nmax])))
        style = rnd.choice(["int", "int", "dyadic", "mixed", "collinear", "front", "dups"])
        as_int = False
        if style == "int":
            hi = rnd.choice([1, 2, 3, 6])
            pts = [[rnd.randint(0, hi) for _ in range(m)] for _ in range(n)]
            as_int = rnd.random() < 0.5
        elif style == "dyadic":
            pts = [[rnd.randint(-16, 16) / 8.0 for _ in range(m)] for _ in range(n)]
        elif style == "mixed":
            pool = [-1e6, -3.5, -1.0, 0.0, 0.125, 1.0, 1.5, 7.0, 1e6]
            pts = [[rnd.choice(pool) for _ in range(m)] for _ in range(n)]
        elif style == "collinear":
            # points on one line: a trade-off line (all efficient under + weights) or a dominated chain
            d = [rnd.choice([-1, 1, 2, 0]) for _ in range(m)]
            o = [rnd.randint(-2, 2) for _ in range(m)]
            pts = [[o[k] + t * d[k] for k in range(m)] for t in [rnd.randint(0, 4) for _ in range(n)]]
            as_int = rnd.random() < 0.3
        elif style == "front":
            # integer simplex layer (x sums to a constant): mutually non-dominated under all-positive weights
            pts = []
            for _i in range(n):
                cuts = sorted(rnd.randint(0, 6) for _ in range(m - 1))
                cuts = [0] + cuts + [6]
                pts.append([cuts[k + 1] - cuts[k] for k in range(m)])
        else:
            base = [[rnd.randint(0, 3) for _ in range(m)] for _ in range(max(1, n // 3))]
            pts = [list(rnd.choice(base)) for _ in range(n)]
        wt, wt_int_ok = _rand_wt(rnd, m)
        wt_int = wt_int_ok and rnd.random() < 0.3
        perm = list(range(n))
        rnd.shuffle(perm)
        k = rnd.randrange(m)
        c = rnd.choice([0.25, 0.5, 2.0, 3.0, 7.5, 1e-3, 1e6])
        yield dict(kind="pf", pts=pts, wt=[float(x) for x in wt] if not wt_int else [int(x) for x in wt],
                   int=as_int, wt_int=wt_int, wtshape=rnd.choice(["flat", "flat", "col", "row"]),
                   perm=perm, scale=[k, c], scale_on=rnd.choice(["fmat", "wt"]), style=style)


def _nontrivial_pf(case):
    pts = case["pts"]
    return len(pts) >= 2 and len(set(tuple(p) for p in pts)) >= 2


@unit(P, "ring[pareto filter, seeded random sets and invariances]", "R", bounded=True, targets=[T_PARETO],
      note="bounded: 2,500 (quick) / 40,000 (thorough) seeded point sets, npt<=12 (quick) / 40 (thorough), nobj<=5; "
           "integer, dyadic and 1e-6..1e6 mixed values, duplicates, collinear and simplex fronts, empty and one-point "
           "sets; sign vectors, weight magnitudes, zero weights; int64 and float64 inputs; (n,), (n,1), (1,n) weights; "
           "one row permutation and one positive rescaling (matrix column or weight) per set")
def u_ring_random(ctx):
    ctx.rule = ("seeded random point sets (VERIF_SEED); for each: mask, default and index forms vs the definition, "
                "efficient vector set vs brute force, arguments not modified, the same after one random row permutation "
                "and after one positive rescaling of an objective; non-trivial if >= 2 distinct points")
    rec = _Rec(ctx)
    for case in gen_pf_cases(ctx.rng, ctx.tier):
        r = eval_case(case)
        nt = _nontrivial_pf(case)
        ctx.case(key=repr(sorted(case.items(), key=str)), nontrivial=nt,
                 sample=dict(npt=len(case["pts"]), wt=case["wt"], style=case["style"]) if nt else None)
        if r:
            rec.fail("ring:" + r[0], case, r[0], r[1])
            if rec.stop():
                break


# =====================================================================================
# unit 4: dominates
# =====================================================================================

CVS = [-2.0, -1e-300, 0.0, 1e-300, 0.5, 2.0, 1e300]


def gen_dom_cases(rnd, tier):
    ncase = 3000 if tier == "quick" else 60000
    pool = [-1.5, 0.0, 0.25, 1.0, 1.0, 3.0]
    for _ in range(ncase):
        m = rnd.choice([1, 2, 3, 4, 6])
        as_int = rnd.random() < 0.3
        if as_int:
            o1 = [rnd.randint(0, 2) for _ in range(m)]
        else:
            o1 = [rnd.choice(pool) for _ in range(m)]
        u = rnd.random()
        if u < 0.15:
            o2 = list(o1)
        elif u < 0.55:
            # differ in one or two coordinates only
            o2 = list(o1)
            for _j in range(rnd.choice([1, 1, 2])):
                k = rnd.randrange(m)
                o2[k] = o2[k] + rnd.choice([-1, 1]) * (1 if as_int else rnd.choice([0.5, 1.0, 1e-9]))
        else:
            o2 = [rnd.randint(0, 2) for _ in range(m)] if as_int else [rnd.choice(pool) for _ in range(m)]
        kind = rnd.choice(["float", "float", "numpy", "int"])
        if kind == "int":
            c1, c2 = rnd.randint(-2, 2), rnd.randint(-2, 2)
        else:
            c1 = rnd.choice(CVS + [rnd.uniform(-1, 1)])
            c2 = rnd.choice(CVS + [c1, rnd.uniform(-1, 1)])
        yield dict(kind="dom", o1=o1, cv1=c1, o2=o2, cv2=c2, int=as_int, cvkind=kind)


@unit(P, "ring[dominates, feasibility-first predicate]", "R", bounded=True, targets=[T_DOM],
      note="bounded: all ordered pairs of (objective vector over {0,1,2}^nobj, violation in 7 values around 0) for "
           "nobj<=2 (quick) / nobj<=3 (thorough: 189x189 pairs) plus 3,000 / 60,000 seeded random pairs with nobj<=6, "
           "int and float vectors, float / numpy / int violations")
def u_ring_dom(ctx):
    ctx.rule = ("exhaustive pairs on a small grid (each grid is one counted case; evaluations counts pairs), with "
                "irreflexivity, asymmetry and transitivity of the observed relation, then seeded random pairs biased to "
                "equal vectors and single-coordinate differences; non-trivial if the two elements differ")
    rec = _Rec(ctx)
    for m in ([1, 2] if ctx.tier == "quick" else [1, 2, 3]):
        blk = dict(kind="domgrid", nobj=m, vals=[0, 1, 2], cvs=CVS)
        fl, count = _domgrid_failures(blk, limit=3)
        ctx.evaluations += count - 1
        ctx.case(key=repr(sorted(blk.items(), key=str)), nontrivial=True, sample=dict(nobj=m, pairs=count))
        for single, cls, msg in fl:
            rec.fail("ring:" + cls, single, cls, msg)
    if rec.stop():
        return
    for case in gen_dom_cases(ctx.rng, ctx.tier):
        r = eval_case(case)
        ctx.case(key=repr(sorted(case.items(), key=str)),
                 nontrivial=(case["o1"] != case["o2"] or case["cv1"] != case["cv2"]), sample=None)
        if r:
            rec.fail("ring:" + r[0], case, r[0], r[1])
            if rec.stop():
                break


# =====================================================================================
# unit 5/6: distance transforms
# =====================================================================================

PREF2 = [[1, 1], [1, 0], [0, 1], [1, 2], [0.5, 0.5], [3, 0.25]]
PREF3 = [[1, 1, 1], [1, 0, 0], [0, 1, 2], [1, 2, 3], [0, 0, 1]]
SG3 = [[1, 1, 1], [-1, 1, 1], [1, -1, -1], [-1, -1, -1]]
SHIFT = [5, -3, 7, -11]


def gen_td_grid(rnd, tier, group):
    """integer fronts over {0,1,2}: exhaustive for small shapes, seeded samples for the next ones"""
    V = [0, 1, 2]
    full = [(1, 1), (2, 1), (3, 1), (1, 2), (2, 2), (3, 2), (1, 3), (2, 3)]
    sampled = [(3, 3, 250), (4, 2, 250), (4, 3, 120), (5, 2, 120), (3, 4, 80)]
    if tier == "thorough":
        full += [(4, 2), (3, 3)]
        sampled = [(4, 3, 2000), (5, 2, 2000), (5, 3, 1000), (3, 4, 1000), (6, 2, 500)]
    shapes = [(n, m, None) for n, m in full] + sampled
    for n, m, ns in shapes:
        tot = 3 ** (n * m)
        gs = range(tot) if ns is None else [rnd.randrange(tot) for _ in range(ns)]
        if m == 1:
            signs, prefs = [[1], [-1]], [[1], [2.5]]
        elif m == 2:
            signs, prefs = SIGNS2, PREF2
        elif m == 3:
            signs, prefs = SG3, PREF3
        else:
            signs, prefs = [[1, 1, 1, 1], [1, -1, 1, -1]], [[1, 1, 1, 1], [0, 1, 0, 2]]
        for g in gs:
            pts = _decode_grid(n, m, V, g)
            for si, sg in enumerate(signs):
                for pi, pf in enumerate(prefs):
                    yield (dict(kind="td", impl=group, branch="doc", pts=pts, a=sg, b=pf, shift=SHIFT[:m],
                                exact=True), (group, "d", n, m, g, si, pi))
                    if group != "core" and any(x < 0 for x in sg):
                        # the other reading of the two sel/ signatures: first vector spans the line
                        yield (dict(kind="td", impl=group, branch="impl", pts=pts, a=pf, b=sg, shift=SHIFT[:m],
                                    exact=True), (group, "i", n, m, g, si, pi))
            if group == "prob":
                yield (dict(kind="td", impl="default", branch="doc", pts=pts, a=[1] * m, b=[1] * m, shift=SHIFT[:m],
                            exact=True), ("default", "d", n, m, g, 0, 0))


def _td_nontrivial(case):
    pts = case["pts"]
    return len(pts) >= 2 and len(set(tuple(p) for p in pts)) >= 2


def _run_td(ctx, gen):
    rec = _Rec(ctx)
    for case, key in gen:
        r = eval_case(case)
        nt = _td_nontrivial(case)
        ctx.case(key=key if key is not None else repr(sorted(case.items(), key=str)), nontrivial=nt,
                 sample=dict(impl=case["impl"], npt=len(case["pts"]), sign=case["a"], pref=case["b"])
                 if nt and len(case["pts"]) >= 3 else None)
        if r:
            rec.fail("ring:" + r[0], case, r[0], r[1])
            if rec.stop():
                break


_NOTE_TDG = ("bounded: all fronts over {0,1,2} with npt<=3 x nobj<=2, npt<=2 x nobj=3, npt<=3 x nobj=1 (thorough: also "
             "4x2 and 3x3), seeded samples of 3x3, 4x2, 4x3, 5x2, 3x4 (thorough: 4x3, 5x2, 5x3, 3x4, 6x2); 4 sign vectors "
             "x 5-6 preference vectors (with zero components); integer translation compared exactly; distances vs "
             "definition to 1e-9; one unit per implementation: ")
_RULE_TDG = ("every integer front of the listed shapes x sign vector x preference vector; the value must equal the "
             "geometric definition (cross-product form), stay finite when an objective is constant (one-point fronts "
             "included) and be bit-identical after an integer translation; the sel/ functions are also called with the "
             "vectors in the order their code uses; non-trivial if the front has >= 2 distinct points")


@unit(P, "ring[front distance transforms, exhaustive integer fronts, core/util/trans]", "R", bounded=True,
      targets=[T_CORE], note=_NOTE_TDG + "core/util/trans.py:trans_ndpt_pseudo_dist")
def u_ring_td_grid_core(ctx):
    ctx.rule = _RULE_TDG
    _run_td(ctx, gen_td_grid(ctx.rng, ctx.tier, "core"))


@unit(P, "ring[front distance transforms, exhaustive integer fronts, sel/prob/trans]", "R", bounded=True,
      targets=[T_PROB], note=_NOTE_TDG + "sel/prob/trans.py:trans_ndpt_to_vec_dist and the SelectionProtocol default "
                                         "(setters given None, default kwargs)")
def u_ring_td_grid_prob(ctx):
    ctx.rule = _RULE_TDG
    _run_td(ctx, gen_td_grid(ctx.rng, ctx.tier, "prob"))


@unit(P, "ring[front distance transforms, exhaustive integer fronts, sel/transfn]", "R", bounded=True,
      targets=[T_TRANSFN], note=_NOTE_TDG + "sel/transfn.py:trans_ndpt_to_vec_dist")
def u_ring_td_grid_transfn(ctx):
    ctx.rule = _RULE_TDG
    _run_td(ctx, gen_td_grid(ctx.rng, ctx.tier, "transfn"))


def gen_td_random(rnd, tier):
    ncase = 6000 if tier == "quick" else 120000
    nmax = 8 if tier == "quick" else 30
    for _ in range(ncase):
        m = rnd.choice([1, 2, 2, 3, 3, 4, 5])
        n = 1 if rnd.random() < 0.05 else rnd.randint(2, rnd.choice([3, 5, nmax]))
        style = rnd.choice(["dyadic", "dyadic", "decimal", "int", "collinear", "front", "tiny"])
        exact = style != "decimal"
        if style == "dyadic":
            pts = [[rnd.randint(-512, 512) / 64.0 for _ in range(m)] for _ in range(n)]
            shift = [rnd.randint(-4096, 4096) / 64.0 for _ in range(m)]
        elif style == "tiny":
            # some objectives measured in very small units (exact power-of-two rescaling of a dyadic front): a range of
            # 1e-10 is still a range, and min-max scaling must treat it like any other
            unit_ = [2.0 ** -rnd.choice([0, 30, 40, 60]) for _ in range(m)]
            pts = [[rnd.randint(-512, 512) / 64.0 * unit_[k] for k in range(m)] for _ in range(n)]
            shift = [0.0 for _ in range(m)]
        elif style == "decimal":
            pts = [[round(rnd.random(), 3) for _ in range(m)] for _ in range(n)]
            shift = [round(rnd.uniform(-10, 10), 3) for _ in range(m)]
        elif style == "int":
            pts = [[rnd.randint(0, 4) for _ in range(m)] for _ in range(n)]
            shift = [rnd.randint(-1000, 1000) for _ in range(m)]
        elif style == "collinear":
            d = [rnd.choice([-1, 1, 2, 0]) for _ in range(m)]
            o = [rnd.randint(-2, 2) for _ in range(m)]
            pts = [[o[k] + t * d[k] for k in range(m)] for t in [rnd.randint(0, 5) for _ in range(n)]]
            shift = [rnd.randint(-50, 50) for _ in range(m)]
        else:
            pts = []
            for _i in range(n):
                cuts = [0] + sorted(rnd.randint(0, 8) for _ in range(m - 1)) + [8]
                pts.append([cuts[k + 1] - cuts[k] for k in range(m)])
            shift = [rnd.randint(-50, 50) for _ in range(m)]
        if rnd.random() < 0.2 and n >= 2:
            k = rnd.randrange(m)                      # a constant objective
            for p in pts:
                p[k] = pts[0][k]
        if rnd.random() < 0.15 and n >= 3:
            pts[-1] = list(pts[0])                    # a duplicated point
        if rnd.random() < 0.6:
            sign = [rnd.choice([1.0, -1.0]) for _ in range(m)]
        else:
            sign = [rnd.choice([1.0, -1.0, 0.5, -0.25, 2.0, -4.0]) for _ in range(m)]
        u = rnd.random()
        if u < 0.3:
            pref = [1.0] * m
        elif u < 0.45:
            pref = [1.0 / m] * m
        else:
            pref = [rnd.choice([0.0, 0.25, 0.5, 1.0, 1.0, 2.0, 3.0]) for _ in range(m)]
            if not any(pref):
                pref[rnd.randrange(m)] = 1.0
        impl = rnd.choice(["core", "core", "prob", "transfn", "default"])
        branch = "doc"
        if impl == "default" and rnd.random() < 0.7:
            sign, pref = [1.0] * m, [1.0] * m
        a, b = sign, pref
        if impl in ("prob", "transfn") and any(x < 0 for x in sign) and rnd.random() < 0.5:
            a, b, branch = pref, sign, "impl"
        # the translation is exact (bit-identical results required) only if every multiplier is dyadic too
        exact = exact and all(float(x * 64).is_integer() for x in sign + pref)
        yield (dict(kind="td", impl=impl, branch=branch, pts=pts, a=a, b=b, shift=shift, exact=exact, style=style),
               None)


@unit(P, "ring[front distance transforms, seeded random fronts]", "R", bounded=True,
      targets=[T_CORE, T_PROB, T_TRANSFN],
      note="bounded: 6,000 (quick) / 120,000 (thorough) seeded fronts, npt<=8 / 30, nobj<=5; dyadic, 3-decimal, integer, "
           "collinear and simplex fronts, injected constant objectives and duplicates, one-point fronts; +-1 and "
           "weighted sign vectors; uniform and random non-negative preference vectors with zeros; exact dyadic/integer "
           "translations compared exactly, decimal ones to 1e-9")
def u_ring_td_random(ctx):
    ctx.rule = ("seeded random fronts (VERIF_SEED) x random sign / preference vector x implementation (three functions "
                "and the SelectionProtocol default with its default kwargs); same checks as the exhaustive unit; "
                "non-trivial if the front has >= 2 distinct points")
    _run_td(ctx, gen_td_random(ctx.rng, ctx.tier))


# =====================================================================================

def _replay(case):
    return run_case(case)


REPLAYERS = {
    "ring[pareto filter, exhaustive small grids]": _replay,
    "ring[pareto filter, 5x3 grids up to column order, part 1]": _replay,
    "ring[pareto filter, 5x3 grids up to column order, part 2]": _replay,
    "ring[pareto filter, seeded random sets and invariances]": _replay,
    "ring[dominates, feasibility-first predicate]": _replay,
    "ring[front distance transforms, exhaustive integer fronts, core/util/trans]": _replay,
    "ring[front distance transforms, exhaustive integer fronts, sel/prob/trans]": _replay,
    "ring[front distance transforms, exhaustive integer fronts, sel/transfn]": _replay,
    "ring[front distance transforms, seeded random fronts]": _replay,
}
