"""C14 -- native bounded ring (mode R): phenotyping and breeding-value
estimation preserve truth and alignment.

Everything here runs the REAL pybrops code ($PYBROPS_REPO) and compares it with
oracles written from the property statement:

* the true genotypic value of a taxon is computed by explicit loops over its
  allele counts (intercept + sum count*additive effect [+ dominance effect at
  heterozygous loci]);
* a field trial must return exactly one record per (taxon, environment,
  replicate), carrying that taxon's name and group;
* all variances zero  =>  record == true genotypic value (1e-12);
* with noise: record - genotypic value == (one effect per environment) + (one
  effect per replicate) + (one error row per record); the draws are taken from
  a recording / scripted generator and classified by the covariance they were
  requested with (diag(var_env), diag(var_rep), diag(var_err), zero mean), which
  is the deterministic stand-in for "realised variances converge to the
  requested ones" (statistical convergence itself is NOT tested);
  with real seeded generators the same structure is checked by differencing
  records (constant over taxa when var_err == 0, ... pairwise distinct when the
  corresponding variance is > 0);
* set_h2 / set_H2: var / (var + var_err) == target (1e-12), var the model's own
  additive (h2) or genotypic (H2) variance of the population;
* mean-phenotype breeding values: row i of the result is the arithmetic mean
  (loop: sum / count) of the records of taxon gtobj.taxa[i], NaN when the taxon
  has no record, labels of the result are those of gtobj, extra phenotyped taxa
  are ignored, and shuffling the rows of the phenotype table changes nothing.

Excluded (outside the quantifier, see the final report of the ring author):
an empty population (0 taxa: variance and heritability undefined), a taxon name
occurring in two different groups of the phenotype table (DESIGN.md C14
precondition), genetic variance == 0 for the heritability clause (no error
variance can reach a target < 1), taxa_grp_col naming an all-missing column.
"""
import math
import warnings

import numpy

from pyvc.unit import unit

P = "C14"

TOL = 1e-12


# --------------------------------------------------------------------------- helpers
def _close(a, b, tol=TOL):
    a = float(a)
    b = float(b)
    if math.isnan(a) or math.isnan(b):
        return math.isnan(a) and math.isnan(b)
    return abs(a - b) <= tol * (1.0 + max(abs(a), abs(b)))


def _names(mode, n, seed):
    """taxon names (python list of str) or None"""
    if mode == "none":
        return None
    if mode == "padded":
        return ["T%03d" % (i + 1) for i in range(n)]
    if mode == "unpadded":          # Taxon1..TaxonN: lexicographic order != numeric order for N >= 10
        return ["Taxon%d" % (i + 1) for i in range(n)]
    rs = numpy.random.RandomState(seed)
    if mode == "unpadded_perm":     # the same, but not in numeric order either
        perm = rs.permutation(n)
        return ["Taxon%d" % (int(k) + 1) for k in perm]
    if mode == "mixed":             # digits, upper/lower case, prefixes of one another
        pool = ["10", "9", "2", "1", "a", "B", "b", "A", "aa", "a1", "a10", "a2", "Z", "z9", "line-7", "line-10",
                "line-8", "x y", "", "Taxon1", "Taxon01", "taxon1", "11", "100", "é", "_", "0", "00"]
        idx = rs.permutation(len(pool))[:n]
        out = [pool[int(k)] for k in idx]
        k = 0
        while len(out) < n:
            out.append("extra%d" % k)
            k += 1
        return out
    raise ValueError(mode)


def _dyadic(rs, shape, lo=-16, hi=17, den=8.0):
    return rs.randint(lo, hi, size=shape).astype(float) / den


def build_population(case):
    """-> dict(pg=DensePhasedGenotypeMatrix, geno=(2,n,p) list, names, grp, model, beta, u_a, u_d, trait)"""
    from pybrops.popgen.gmat.DensePhasedGenotypeMatrix import DensePhasedGenotypeMatrix
    from pybrops.model.gmod.DenseAdditiveLinearGenomicModel import DenseAdditiveLinearGenomicModel
    from pybrops.model.gmod.DenseAdditiveDominanceLinearGenomicModel import DenseAdditiveDominanceLinearGenomicModel
    n, p, t = case["n"], case["p"], case["t"]
    rs = numpy.random.RandomState(case["gseed"])
    geno = rs.randint(0, 2, size=(int(case.get("ploidy", 2)), n, p)).astype("int8")
    if case.get("clone") and n >= 2:        # two taxa with identical genotypes (ties in genotypic value)
        geno[:, 1, :] = geno[:, 0, :]
    if case.get("all_clones") and n >= 2:   # a fixed population: every taxon carries the same genotype, no variance among taxa
        geno[:, :, :] = geno[:, :1, :]
    beta = _dyadic(rs, (1, t), -40, 41, 4.0)
    if case.get("big_intercept"):
        beta = beta + 128.0
    if case.get("decimal_intercept"):
        # values that are not exactly representable (0.1, 7.3, ...): a trait without variance among taxa then has a common value
        # whose square and mean round -- comparisons of such cases are tolerance based
        beta = beta + numpy.array([[0.1, 7.3, 1.0 / 3.0][k % 3] for k in range(t)]).reshape(1, t)
    u_a = _dyadic(rs, (p, t))
    u_d = _dyadic(rs, (p, t))
    if case.get("zero_trait") is not None and case["zero_trait"] < t:   # a trait without genetic variance
        u_a[:, case["zero_trait"]] = 0.0
        u_d[:, case["zero_trait"]] = 0.0
    names = _names(case["taxa_mode"], n, case["gseed"] + 17)
    grp = None
    if case["grp"]:
        grp = [int(x) for x in rs.randint(1, 4, size=n)]
    trait = None
    if case["trait_named"]:
        trait = ["yield", "ht", "dtf", "oil"][:t]
    pg = DensePhasedGenotypeMatrix(
        mat=geno.copy(),
        taxa=None if names is None else numpy.array(names, dtype=object),
        taxa_grp=None if grp is None else numpy.array(grp, dtype="int64"),
    )
    kw = dict(beta=beta.copy(), u_misc=None, u_a=u_a.copy(),
              trait=None if trait is None else numpy.array(trait, dtype=object))
    if case["model"] == "AD":
        model = DenseAdditiveDominanceLinearGenomicModel(u_d=u_d.copy(), **kw)
    else:
        model = DenseAdditiveLinearGenomicModel(**kw)
    return dict(pg=pg, geno=geno, names=names, grp=grp, model=model, beta=beta, u_a=u_a, u_d=u_d, trait=trait,
                kind=case["model"])


def oracle_gv(pop, dominance=None):
    """true genotypic value, by loops: intercept + sum_j count_ij * a_j (+ d_j when heterozygous)"""
    geno, beta, u_a, u_d = pop["geno"], pop["beta"], pop["u_a"], pop["u_d"]
    if dominance is None:
        dominance = pop["kind"] == "AD"
    _, n, p = geno.shape
    t = beta.shape[1]
    out = [[0.0] * t for _ in range(n)]
    for i in range(n):
        for k in range(t):
            g = float(beta[0, k])
            for j in range(p):
                m_ = geno.shape[0]                                   # number of chromosome copies (ploidy)
                c = sum(int(geno[h, i, j]) for h in range(m_))
                g += c * float(u_a[j, k])
                if dominance and 0 < c < m_:                         # heterozygous: neither all copies 0 nor all copies 1
                    g += float(u_d[j, k])
            out[i][k] = g
    return out


def _var_arg(spec, t):
    """spec: None | number | list -> constructor argument; returns (arg, per-trait list of floats)"""
    if spec is None:
        return None, [0.0] * t
    if isinstance(spec, dict):      # {"int": [..]} integer dtype array
        v = list(spec["int"])[:t]
        v = v + [v[-1]] * (t - len(v))
        return numpy.array(v, dtype="int64"), [float(x) for x in v]
    if isinstance(spec, (list, tuple)):
        v = list(spec)[:t]
        v = v + [v[-1]] * (t - len(v))
        return numpy.array(v, dtype=float), [float(x) for x in v]
    return spec, [float(spec)] * t


class _RecRS(numpy.random.RandomState):
    """RandomState that records every multivariate_normal draw; when scripted it
    returns mean + sqrt(diag cov) * z with z pairwise distinct dyadic numbers."""

    def __init__(self, seed, scripted):
        super().__init__(seed)
        self.scripted = scripted
        self.log = []
        self.k = 0

    def multivariate_normal(self, mean, cov, size=None, *a, **kw):
        mean_a = numpy.array(mean, dtype=float)
        cov_a = numpy.array(cov, dtype=float)
        if self.scripted:
            t = len(mean_a)
            rows = 1 if size is None else int(size)
            z = numpy.empty((rows, t), dtype=float)
            for r in range(rows):
                for c in range(t):
                    self.k += 1
                    z[r, c] = (self.k if self.k % 2 else -self.k) / 64.0
            out = mean_a[None, :] + numpy.sqrt(numpy.diag(cov_a))[None, :] * z
            if size is None:
                out = out[0]
        else:
            out = super().multivariate_normal(mean, cov, size, *a, **kw)
        self.log.append(dict(mean=mean_a, cov=cov_a, size=size, out=numpy.array(out, dtype=float, copy=True)))
        return out


def _make_rng(kind, seed):
    if kind == "Generator":
        return numpy.random.default_rng(seed)
    if kind == "RandomState":
        return numpy.random.RandomState(seed)
    if kind == "recorded":
        return _RecRS(seed, False)
    if kind == "scripted":
        return _RecRS(seed, True)
    if kind == "global":
        return None
    raise ValueError(kind)


def _nrep_arg(nrep, nenv):
    if isinstance(nrep, (list, tuple)):
        return numpy.array(list(nrep), dtype="int64"), [int(x) for x in nrep]
    return nrep, [int(nrep)] * nenv


# --------------------------------------------------------------------------- frame analysis
def analyse_trial(df, pop, nenv, nrep_l, label_cols_expected=True):
    """Check the record / label clause of a G_E trial frame; returns
    (violation message or None, R) where R[(e,r)][i] = list of trait values of the
    record of taxon i in environment e (0-based, in ascending label order) and
    replicate r."""
    n = pop["geno"].shape[1]
    t = pop["beta"].shape[1]
    cols = list(df.columns)
    for c in ("taxa", "taxa_grp", "env", "rep"):
        if cols.count(c) != 1:
            return "label column %r occurs %d times in %r" % (c, cols.count(c), cols), None
    tcols = [c for c in cols if c not in ("taxa", "taxa_grp", "env", "rep")]
    if len(tcols) != t or len(set(tcols)) != t:
        return "expected %d distinct trait columns, got %r" % (t, tcols), None
    if pop["trait"] is not None and tcols != list(pop["trait"]):
        return "trait columns %r differ from the model's trait names %r" % (tcols, pop["trait"]), None
    nobs = n * sum(nrep_l)
    if len(df) != nobs:
        return "expected %d records (= %d taxa x %d replicates over all environments), got %d" % (
            nobs, n, sum(nrep_l), len(df)), None
    taxa = list(df["taxa"].to_numpy(dtype=object))
    grp = list(df["taxa_grp"].to_numpy(dtype=object))
    env = list(df["env"].to_numpy())
    rep = list(df["rep"].to_numpy())
    vals = df[tcols].to_numpy(dtype=float)
    # taxon identity of a label
    if pop["names"] is not None:
        ix = {}
        for i, nm in enumerate(pop["names"]):
            ix[nm] = i
    else:                                   # unlabelled population: generated labels, in order of first appearance
        ix = {}
        for nm in taxa:
            if nm not in ix:
                ix[nm] = len(ix)
        if len(ix) != n:
            return "unlabelled population of %d taxa got %d distinct generated labels" % (n, len(ix)), None
    envs = sorted(set(env))
    if len(envs) != nenv:
        return "expected %d environments, found labels %r" % (nenv, envs), None
    R = {}
    for row in range(len(df)):
        nm = taxa[row]
        if nm not in ix:
            return "record %d carries label %r which is no taxon of the population" % (row, nm), None
        i = ix[nm]
        if pop["grp"] is not None:
            if grp[row] is None or int(grp[row]) != pop["grp"][i]:
                return "record %d of taxon %r carries group %r, the taxon's group is %r" % (
                    row, nm, grp[row], pop["grp"][i]), None
        else:
            if not (grp[row] is None or (isinstance(grp[row], float) and math.isnan(grp[row]))):
                return "record %d carries group %r although the population has no groups" % (row, grp[row]), None
        e = envs.index(env[row])
        key = (e, rep[row])
        R.setdefault(key, {})
        if i in R[key]:
            return "two records for taxon %r, environment %r, replicate %r" % (nm, env[row], rep[row]), None
        R[key][i] = [float(x) for x in vals[row]]
    # replicate labels per environment
    out = {}
    for e in range(nenv):
        reps = sorted(set(k[1] for k in R if k[0] == e))
        if len(reps) != nrep_l[e]:
            return "environment #%d (label %r) has %d replicates, requested %d" % (
                e + 1, envs[e], len(reps), nrep_l[e]), None
        for r, lab in enumerate(reps):
            blk = R[(e, lab)]
            if len(blk) != n:
                return "environment %r replicate %r has records for %d of %d taxa" % (envs[e], lab, len(blk), n), None
            out[(e, r)] = [blk[i] for i in range(n)]
    return None, out


def _pheno_setup(case):
    from pybrops.breed.prot.pt.G_E_Phenotyping import G_E_Phenotyping
    pop = build_population(case)
    t = case["t"]
    nenv = case["nenv"]
    nrep_arg, nrep_l = _nrep_arg(case["nrep"], nenv)
    ve_arg, ve = _var_arg(case["var_env"], t)
    vr_arg, vr = _var_arg(case["var_rep"], t)
    vx_arg, vx = _var_arg(case["var_err"], t)
    rng = _make_rng(case["rng"], case["rseed"])
    kw = dict(gpmod=pop["model"], nenv=nenv, nrep=nrep_arg, rng=rng)
    if case.get("omit_none"):
        if ve_arg is not None:
            kw["var_env"] = ve_arg
        if vr_arg is not None:
            kw["var_rep"] = vr_arg
        if vx_arg is not None:
            kw["var_err"] = vx_arg
    else:
        kw.update(var_env=ve_arg, var_rep=vr_arg, var_err=vx_arg)
    if case.get("reconf"):
        # history: built with another configuration, then every setting replaced through the property setters
        pt = G_E_Phenotyping(gpmod=pop["model"], nenv=nenv + 1, nrep=2, var_env=7.0, var_rep=7.0, var_err=7.0,
                             rng=numpy.random.RandomState(0))
        pt.nenv = nenv
        pt.nrep = nrep_arg
        pt.var_env = ve_arg
        pt.var_rep = vr_arg
        pt.var_err = vx_arg
        pt.rng = rng
    else:
        pt = G_E_Phenotyping(**kw)
    if case.get("copy") == "copy":
        pt = pt.copy()
    elif case.get("copy") == "deepcopy":
        pt = pt.deepcopy()
        pop["model"] = pt.gpmod
    return pop, pt, rng, nenv, nrep_l, ve, vr, vx


def _snapshot_pg(pg):
    return (pg.mat.copy(), None if pg.taxa is None else list(pg.taxa),
            None if pg.taxa_grp is None else list(pg.taxa_grp))


def _same_pg(pg, snap):
    return (numpy.array_equal(pg.mat, snap[0])
            and (None if pg.taxa is None else list(pg.taxa)) == snap[1]
            and (None if pg.taxa_grp is None else list(pg.taxa_grp)) == snap[2])


# --------------------------------------------------------------------------- unit 1: G_E phenotype
def run_pheno(case):
    """returns (violated, message, cls)"""
    pop, pt, rng, nenv, nrep_l, ve, vr, vx = _pheno_setup(case)
    n, t = case["n"], case["t"]
    gv = oracle_gv(pop)
    snap = _snapshot_pg(pop["pg"])
    miscout = {} if case.get("miscout") else None
    for call in range(case.get("calls", 1)):        # a second trial with the same protocol object must hold as well
        if hasattr(rng, "log"):
            del rng.log[:]
        with warnings.catch_warnings():
            warnings.simplefilter("ignore")
            df = pt.phenotype(pop["pg"], miscout=miscout)
    if not _same_pg(pop["pg"], snap):
        return True, "phenotype() modified the genotype matrix it was given", "pheno-mutates-input"
    msg, R = analyse_trial(df, pop, nenv, nrep_l)
    if msg is not None:
        return True, msg, "pheno-records-labels"
    keys = [(e, r) for e in range(nenv) for r in range(nrep_l[e])]
    fam = case["family"]
    if fam == "zero":
        for (e, r) in keys:
            for i in range(n):
                for k in range(t):
                    if not _close(R[(e, r)][i][k], gv[i][k]):
                        return True, ("all variances zero: record (taxon #%d, env #%d, rep #%d, trait #%d) = %r, true "
                                      "genotypic value %r" % (i, e + 1, r + 1, k, R[(e, r)][i][k], gv[i][k])), \
                            "pheno-zero-noise-truth"
        return False, "", ""
    if fam == "rec":
        # classify the recorded draws by the covariance they were requested with
        pools = {"env": [], "rep": [], "err": []}
        want = {"env": ve, "rep": vr, "err": vx}
        for d in rng.log:
            cov = d["cov"]
            if cov.shape != (t, t) or any(float(m) != 0.0 for m in d["mean"]):
                return True, "draw with mean %r / cov shape %r: effects must have zero mean and one variance per trait" % (
                    d["mean"].tolist(), cov.shape), "pheno-noise-distribution"
            for a in range(t):
                for b in range(t):
                    if a != b and float(cov[a, b]) != 0.0:
                        return True, "draw with non-diagonal covariance %r" % (cov.tolist(),), "pheno-noise-distribution"
            dg = [float(cov[a, a]) for a in range(t)]
            which = [w for w in ("env", "rep", "err") if dg == want[w]]
            if len(which) != 1:
                return True, ("a draw was requested with variances %r which is none of var_env=%r var_rep=%r "
                              "var_err=%r" % (dg, ve, vr, vx)), "pheno-noise-distribution"
            out = d["out"]
            rows = [out.tolist()] if out.ndim == 1 else out.tolist()
            pools[which[0]].extend(rows)
        nrec = n * sum(nrep_l)
        if len(pools["env"]) != nenv or len(pools["rep"]) != sum(nrep_l) or len(pools["err"]) != nrec:
            return True, ("draw counts env/rep/err = %d/%d/%d, expected one per environment (%d), one per replicate "
                          "(%d), one per record (%d)" % (len(pools["env"]), len(pools["rep"]), len(pools["err"]),
                                                         nenv, sum(nrep_l), nrec)), "pheno-noise-structure"
        q = 0
        for kk, (e, r) in enumerate(keys):
            for i in range(n):
                for k in range(t):
                    exp = gv[i][k] + pools["env"][e][k] + pools["rep"][kk][k] + pools["err"][q][k]
                    if not _close(R[(e, r)][i][k], exp):
                        return True, ("record (taxon #%d, env #%d, rep #%d, trait #%d) = %r but genotypic value + env "
                                      "effect + rep effect + error = %r + %r + %r + %r = %r" % (
                                          i, e + 1, r + 1, k, R[(e, r)][i][k], gv[i][k], pools["env"][e][k],
                                          pools["rep"][kk][k], pools["err"][q][k], exp)), "pheno-noise-structure"
                q += 1
        return False, "", ""
    if fam == "diff":
        # residuals by differencing, per trait
        for k in range(t):
            res = {key: [R[key][i][k] - gv[i][k] for i in range(n)] for key in keys}
            scale = 1.0 + max(abs(gv[i][k]) for i in range(n))
            tol = 1e-11 * scale
            if vx[k] == 0.0:
                for key in keys:
                    for i in range(n):
                        if abs(res[key][i] - res[key][0]) > tol:
                            return True, ("var_err == 0 for trait #%d but records of env #%d rep #%d differ from the "
                                          "genotypic values by %r (taxon #0) and %r (taxon #%d)" % (
                                              k, key[0] + 1, key[1] + 1, res[key][0], res[key][i], i)), \
                                "pheno-noise-structure"
                blockc = {key: res[key][0] for key in keys}
                if vr[k] == 0.0:
                    for key in keys:
                        if abs(blockc[key] - blockc[(key[0], 0)]) > tol:
                            return True, ("var_err == var_rep == 0 for trait #%d but replicates %d and 1 of env #%d are "
                                          "offset by %r and %r" % (k, key[1] + 1, key[0] + 1, blockc[key],
                                                                   blockc[(key[0], 0)])), "pheno-noise-structure"
                    envc = [blockc[(e, 0)] for e in range(nenv)]
                    if ve[k] == 0.0:
                        for e in range(nenv):
                            if abs(envc[e]) > tol:
                                return True, "all variances of trait #%d are zero but env #%d is offset by %r" % (
                                    k, e + 1, envc[e]), "pheno-zero-noise-truth"
                    elif len(set(envc)) != len(envc) or any(x == 0.0 for x in envc):
                        return True, ("var_env > 0 for trait #%d but the environment effects %r are not pairwise "
                                      "distinct non-zero draws" % (k, envc)), "pheno-noise-structure"
                else:
                    vals = [blockc[key] for key in keys]
                    if len(set(vals)) != len(vals) or any(x == 0.0 for x in vals):
                        return True, ("var_rep > 0 for trait #%d but the replicate offsets %r are not pairwise "
                                      "distinct non-zero draws" % (k, vals)), "pheno-noise-structure"
            else:
                vals = [res[key][i] for key in keys for i in range(n)]
                if len(set(vals)) != len(vals) or any(x == 0.0 for x in vals):
                    return True, ("var_err > 0 for trait #%d but the %d record residuals are not pairwise distinct "
                                  "non-zero values (an error draw is shared or missing)" % (k, len(vals))), \
                        "pheno-noise-structure"
                if vr[k] == 0.0 and ve[k] == 0.0 and len(vals) >= 8:
                    # pure error: crude scale check (not a convergence test): residuals are not all tiny / huge
                    m = max(abs(x) for x in vals)
                    sd = math.sqrt(vx[k])
                    if not (1e-3 * sd < m < 1e3 * sd):
                        return True, "var_err=%r for trait #%d but the largest of %d residuals is %r" % (
                            vx[k], k, len(vals), m), "pheno-noise-distribution"
        return False, "", ""
    raise ValueError(fam)


_VAR_ZERO = [None, 0, 0.0, [0.0, 0.0, 0.0], {"int": [0, 0, 0]}]
_NREP_MENU = {1: [1, 2, 3, [1], [2], [4]],
              2: [1, 2, [1, 1], [1, 2], [2, 1], [3, 1], [1, 3]],
              3: [1, 2, [1, 1, 1], [1, 2, 3], [3, 1, 2], [2, 2, 1]],
              4: [1, [1, 2, 1, 3]]}
_TAXA_MODES = ["none", "padded", "unpadded", "unpadded_perm", "mixed"]


def _base_case(rnd, tier):
    n = rnd.choice([1, 1, 2, 2, 3, 3, 4, 5, 9, 10, 11, 12])
    if rnd.random() < (0.05 if tier == "thorough" else 0.02):
        n = rnd.choice([99, 100, 101])
    nenv = rnd.choice([1, 1, 2, 2, 3, 3, 4])
    t = rnd.choice([1, 1, 2, 2, 3])
    return dict(n=n, p=rnd.choice([1, 2, 3, 5, 8]), t=t, model=rnd.choice(["A", "A", "AD"]),
                gseed=rnd.randrange(10 ** 6), taxa_mode=rnd.choice(_TAXA_MODES), grp=rnd.random() < 0.6,
                trait_named=rnd.random() < 0.5, clone=rnd.random() < 0.2, big_intercept=rnd.random() < 0.15,
                nenv=nenv, nrep=rnd.choice(_NREP_MENU[nenv]), miscout=rnd.random() < 0.3,
                rseed=rnd.randrange(10 ** 6), reconf=rnd.random() < 0.25, calls=rnd.choice([1, 1, 1, 2]),
                all_clones=rnd.random() < 0.08, decimal_intercept=rnd.random() < 0.2, zero_trait=rnd.choice([None, None, None, None, 0]),
                copy=rnd.choice([None, None, None, "copy", "deepcopy"]))


def gen_pheno_cases(rnd, tier):
    nz = 250 if tier == "quick" else 4000
    nr = 400 if tier == "quick" else 6000
    nd = 400 if tier == "quick" else 6000
    # family "zero": every way of saying "no noise", every generator kind
    for k in range(nz):
        c = _base_case(rnd, tier)
        c.update(family="zero", var_env=rnd.choice(_VAR_ZERO), var_rep=rnd.choice(_VAR_ZERO),
                 var_err=rnd.choice(_VAR_ZERO), omit_none=rnd.random() < 0.3,
                 rng=rnd.choice(["Generator", "RandomState", "global", "scripted", "recorded"]))
        yield c
    # family "rec": recorded / scripted draws, the three variance vectors pairwise distinct
    sq = [0.25, 1.0, 4.0, 2.25, 9.0, 0.0625, 16.0, 6.25]        # exact square roots
    for k in range(nr):
        c = _base_case(rnd, tier)
        t = c["t"]
        while True:
            vs = []
            for w in range(3):
                form = rnd.choice(["scalar", "array", "array0", "zero", "int"])
                if form == "scalar":
                    vs.append(rnd.choice(sq))
                elif form == "array":
                    vs.append([rnd.choice(sq) for _ in range(3)])
                elif form == "array0":
                    vs.append([rnd.choice(sq + [0.0, 0.0]) for _ in range(3)])
                elif form == "int":
                    vs.append({"int": [rnd.choice([0, 1, 4, 9, 16]) for _ in range(3)]})
                else:
                    vs.append(rnd.choice([None, 0.0]))
            vecs = [tuple(_var_arg(v, t)[1]) for v in vs]
            if len(set(vecs)) == 3:
                break
        c.update(family="rec", var_env=vs[0], var_rep=vs[1], var_err=vs[2], omit_none=rnd.random() < 0.2,
                 rng=rnd.choice(["scripted", "scripted", "recorded"]))
        yield c
    # family "diff": real generators, every zero / non-zero pattern of the three variances
    for k in range(nd):
        c = _base_case(rnd, tier)
        pat = rnd.choice([(1, 0, 0), (0, 1, 0), (0, 0, 1), (1, 1, 0), (1, 0, 1), (0, 1, 1), (1, 1, 1)])
        vs = []
        for w in range(3):
            if pat[w]:
                form = rnd.choice(["scalar", "array", "array0"])
                if form == "scalar":
                    vs.append(rnd.choice([0.5, 1.0, 3.0, 1e-6, 100.0]))
                elif form == "array":
                    vs.append([rnd.choice([0.5, 1.0, 3.0, 7.0]) for _ in range(3)])
                else:
                    vs.append([rnd.choice([0.0, 1.0, 2.0]) for _ in range(3)])
            else:
                vs.append(rnd.choice(_VAR_ZERO))
        c.update(family="diff", var_env=vs[0], var_rep=vs[1], var_err=vs[2], omit_none=rnd.random() < 0.2,
                 rng=rnd.choice(["Generator", "RandomState"]))
        if c["big_intercept"]:
            c["big_intercept"] = False
        yield c


def _catch(fn, case):
    try:
        return fn(case)
    except Exception as e:
        return True, "exception %s: %s" % (type(e).__name__, e), "exception:%s" % case.get("family", case.get("kind", ""))


def _drive(ctx, gen, fn, obligation, sample_keys):
    seen = {}
    for case in gen:
        bad, msg, cls = _catch(fn, case)
        ctx.case(key=repr(sorted(case.items(), key=str)), nontrivial=not str(msg).startswith("skipped"),
                 sample={k: case[k] for k in sample_keys if k in case})
        if bad:
            seen[cls] = seen.get(cls, 0) + 1
            if seen[cls] <= 3:
                ctx.fail_input("%s:%s" % (obligation, cls), case, cls=cls, message=msg)
            if len(ctx.failures) >= 9:
                break


@unit(P, "ring[G_E field trial: records, labels, zero-noise truth, additive noise structure]", "R", bounded=True,
      note="bounded: <=12 taxa (2-5% of cases 99-101), <=8 loci, <=3 traits, <=4 environments, <=4 replicates, additive "
           "and additive+dominance models, 1050 (quick) / 16000 (thorough) seeded configurations; convergence of realised "
           "variances replaced by a check of the covariance each recorded draw is requested with")
def u_ring_pheno(ctx):
    ctx.rule = ("seeded random trial configurations in three families: all variances zero (five spellings of zero, five "
                "generator kinds), recorded/scripted generator with pairwise distinct variance vectors, real generators "
                "with every zero/non-zero pattern of (var_env,var_rep,var_err); taxa unnamed / padded / Taxon1..TaxonN / "
                "permuted / mixed names, with and without groups; a case is distinct by its full input")
    _drive(ctx, gen_pheno_cases(ctx.rng, ctx.tier), run_pheno, "ring:phenotype",
           ("family", "n", "t", "nenv", "nrep", "var_env", "var_rep", "var_err", "rng", "taxa_mode"))


# --------------------------------------------------------------------------- unit 2: heritability
def run_herit(case):
    pop, pt, rng, nenv, nrep_l, ve, vr, vx = _pheno_setup(case)
    n, t = case["n"], case["t"]
    model, pg = pop["model"], pop["pg"]
    which = case["which"]
    h = case["h"]
    h_arg = numpy.array((list(h) + [h[-1]] * t)[:t], dtype=float) if isinstance(h, list) else h
    h_l = [float(x) for x in h_arg] if isinstance(h, list) else [float(h)] * t
    # the population's genetic variance: additive part for h2, whole genotypic value for H2
    # (population variance, as the model defines it; cross-checked against a loop computation)
    with warnings.catch_warnings():
        warnings.simplefilter("ignore")
        var_model = [float(x) for x in (model.var_A(pg) if which == "h2" else model.var_G(pg))]
    gvals = oracle_gv(pop, dominance=(which == "H2" and pop["kind"] == "AD"))
    var_loop = []
    for k in range(t):
        m = sum(gvals[i][k] for i in range(n)) / n
        var_loop.append(sum((gvals[i][k] - m) ** 2 for i in range(n)) / n)
    for k in range(t):
        if not _close(var_model[k], var_loop[k], 1e-9):
            return True, "model %s variance %r differs from the population variance of the %s values %r" % (
                "additive" if which == "h2" else "genotypic", var_model[k], "breeding" if which == "h2" else "genotypic",
                var_loop[k]), "herit-model-variance"
    if any(v <= 0.0 for v in var_loop):
        return False, "skipped: no genetic variance", ""      # outside the clause (no var_err reaches the target)
    before = (list(pt.var_env), list(pt.var_rep), pt.nenv, list(pt.nrep))
    snap = _snapshot_pg(pg)
    if which == "h2":
        pt.set_h2(h_arg, pg)
    else:
        pt.set_H2(h_arg, pg)
    if not _same_pg(pg, snap):
        return True, "set_%s modified the genotype matrix" % which, "herit-mutates-input"
    if (list(pt.var_env), list(pt.var_rep), pt.nenv, list(pt.nrep)) != before:
        return True, "set_%s changed var_env/var_rep/nenv/nrep" % which, "herit-frame"
    verr = pt.var_err
    if not isinstance(verr, numpy.ndarray) or verr.shape != (t,):
        return True, "var_err after set_%s is %r, expected an array of shape (%d,)" % (which, verr, t), "herit-identity"
    for k in range(t):
        e = float(verr[k])
        if not (e >= 0.0):
            return True, "var_err[%d] = %r after set_%s(%r)" % (k, e, which, h_l[k]), "herit-identity"
        ratio = var_loop[k] / (var_loop[k] + e)
        if not abs(ratio - h_l[k]) <= 1e-12:
            return True, ("after set_%s(%r): genetic variance %r, error variance %r, genetic/(genetic+error) = %r != "
                          "target %r" % (which, h_l[k], var_loop[k], e, ratio, h_l[k])), "herit-identity"
    # the trial that follows uses exactly that error variance (recorded generator)
    vx_now = [float(x) for x in verr]
    with warnings.catch_warnings():
        warnings.simplefilter("ignore")
        df = pt.phenotype(pg)
    msg, R = analyse_trial(df, pop, nenv, nrep_l)
    if msg is not None:
        return True, msg, "pheno-records-labels"
    nerr = 0
    for d in rng.log:
        if d["size"] is not None:
            nerr += 1
            dg = [float(d["cov"][a, a]) for a in range(t)]
            if dg != vx_now:
                return True, "after set_%s the error rows are drawn with variances %r, var_err is %r" % (
                    which, dg, vx_now), "herit-not-used"
    if nerr != sum(nrep_l):
        return True, "expected %d error blocks, saw %d" % (sum(nrep_l), nerr), "pheno-noise-structure"
    if all(x == 1.0 for x in h_l) and all(v == 0.0 for v in ve) and all(v == 0.0 for v in vr):
        gv = oracle_gv(pop)
        for key in R:
            for i in range(n):
                for k in range(t):
                    if not _close(R[key][i][k], gv[i][k]):
                        return True, "heritability 1 and no env/rep variance: record %r != genotypic value %r" % (
                            R[key][i][k], gv[i][k]), "pheno-zero-noise-truth"
    return False, "", ""


_H_MENU = [1.0, 1, 0.5, 0.25, 0.3, 0.1, 0.9, 0.99, 0.999999, 1e-3, 1e-6, 1e-9, 2.0 / 3.0, 1.0 / 3.0, 0.7, 0.05,
           0.123456789, 1.0 - 2.0 ** -53, 2.0 ** -20]


def gen_herit_cases(rnd, tier):
    N = 800 if tier == "quick" else 15000
    for k in range(N):
        c = _base_case(rnd, tier)
        if c["n"] == 1:
            c["n"] = rnd.choice([2, 3, 5])
        form = rnd.choice(["scalar", "scalar", "array"])
        if form == "scalar":
            h = rnd.choice(_H_MENU)
            if rnd.random() < 0.3:
                h = round(rnd.uniform(1e-4, 1.0), rnd.choice([2, 6, 15]))
                if h <= 0.0:
                    h = 0.5
        else:
            h = [float(rnd.choice(_H_MENU)) for _ in range(3)]
        c.update(family="herit", which=rnd.choice(["h2", "H2"]), h=h,
                 var_env=rnd.choice([None, 0.0, 1.0, [1.0, 0.0, 2.0]]), var_rep=rnd.choice([None, 0.0, 0.5]),
                 var_err=rnd.choice([None, 0.0, 3.0, [5.0, 6.0, 7.0]]), omit_none=False,
                 rng=rnd.choice(["scripted", "recorded"]), zero_trait=rnd.choice([None] * 30 + [0, 1]),
                 # exact (dyadic) values only here: a trait without genetic variance must have variance exactly 0 for the
                 # "target undefined" clause, which rounding of non-dyadic common values would blur
                 decimal_intercept=False, all_clones=False,
                 ploidy=rnd.choice([2, 2, 2, 1, 4]))          # heritability targets hold for haploid and tetraploid populations too
        if rnd.random() < 0.5:
            c["model"] = "AD"       # additive variance != genotypic variance
        yield c


@unit(P, "ring[set_h2 / set_H2 fix the error variance at the heritability target]", "R", bounded=True,
      note="bounded: 2..12 taxa (2-5% of cases 99-101), <=8 loci, <=3 traits, targets from a menu in (0,1] incl. 1, 1-2^-53, "
           "1e-9 and random ones, scalar and per-trait; 800 (quick) / 15000 (thorough) seeded cases")
def u_ring_herit(ctx):
    ctx.rule = ("seeded random populations under additive and additive+dominance models (where additive and genotypic "
                "variance differ); oracle variance computed by loops over the population; followed by one recorded trial "
                "to check that the new error variance is the one used; cases without genetic variance are skipped")
    _drive(ctx, gen_herit_cases(ctx.rng, ctx.tier), run_herit, "ring:heritability",
           ("which", "h", "model", "n", "t"))


# --------------------------------------------------------------------------- unit 3: mean-phenotype breeding values
def _build_table(case):
    """synthetic phenotype table + genotype taxa from the case (no phenotyping involved)"""
    import pandas
    rs = numpy.random.RandomState(case["seed"])
    npt = case["n_pheno"]                 # phenotyped taxa
    nun = case["n_unpheno"]               # taxa in the genotype matrix without any record
    nex = case["n_extra"]                 # phenotyped taxa missing from the genotype matrix
    names = _names(case["taxa_mode"], npt + nun, case["seed"] + 5)
    grp_of = {nm: int(rs.randint(1, 4)) for nm in names}
    pheno = names[:npt]
    unph = names[npt:]
    ntr = case["n_trait_cols"]
    tnames = ["y1", "y2", "y3", "y4"][:ntr]
    rows = []
    for nm in pheno:
        cnt = case["balanced"] if case["balanced"] else int(rs.randint(1, 5))      # 0 = unbalanced (1..4 records)
        for c in range(cnt):
            if case["values"] == "dyadic":
                v = [float(x) / 4.0 for x in rs.randint(-40, 41, size=ntr)]
            elif case["values"] == "int":
                v = [int(x) for x in rs.randint(-5, 6, size=ntr)]
            elif case["values"] == "skew":      # one large and several small values: mean != median, order sensitive
                v = [float(x) for x in rs.normal(size=ntr) * (1000.0 if c == 0 else 1.0)]
            else:
                v = [float(x) for x in rs.normal(size=ntr) * 3.0 + 10.0]
            rows.append((nm, grp_of[nm], int(rs.randint(1, 4)), c + 1, v))
    # canonical order: as generated (taxon-major).  Shuffled order: permutation from the seed.
    tcol = case["taxa_col"]
    gcol = "taxa_grp"

    def frame(order, index_mode):
        d = {tcol: numpy.array([rows[r][0] for r in order], dtype=object),
             gcol: [rows[r][1] for r in order],
             "env": [rows[r][2] for r in order],
             "rep": [rows[r][3] for r in order]}
        cols_order = list(tnames)
        if case["trait_col_order"] == "reversed":
            cols_order = cols_order[::-1]
        for tn in cols_order:
            j = tnames.index(tn)
            d[tn] = [rows[r][4][j] for r in order]
        df = pandas.DataFrame(d)
        if len(order) == 0:
            for tn in tnames:
                df[tn] = df[tn].astype(float)
            df[gcol] = df[gcol].astype("int64")
        if index_mode == "perm" and len(order) > 0:
            df.index = [int(x) for x in numpy.random.RandomState(case["seed"] + 9).permutation(len(order))]
        elif index_mode == "str" and len(order) > 0:
            df.index = ["r%d" % x for x in order]
        return df
    canon = list(range(len(rows)))
    shuf = [int(x) for x in numpy.random.RandomState(case["seed"] + 3).permutation(len(rows))]
    # genotype taxa: subset of the phenotyped ones (extras dropped) + unphenotyped ones, permuted, maybe one duplicate
    keep = pheno[:max(0, npt - nex)] if nex else list(pheno)
    gt = keep + unph
    perm = numpy.random.RandomState(case["seed"] + 4).permutation(len(gt))
    if case["gt_order"] == "perm":
        gt = [gt[int(k)] for k in perm]
    elif case["gt_order"] == "reversed":
        gt = gt[::-1]
    elif case["gt_order"] == "sorted":
        gt = sorted(gt)
    if case["dup"] and len(gt) >= 1:
        gt = gt + [gt[0]]
    gt_grp = [grp_of[nm] for nm in gt] if case["gt_grp"] else None
    # trait selection
    sel = case["trait_sel"]
    if sel == "all":
        tc = list(tnames)
    elif sel == "first_str":
        tc = tnames[0]
    elif sel == "last_str":
        tc = tnames[-1]
    elif sel == "reversed":
        tc = list(tnames[::-1])
    elif sel == "tuple_subset":
        tc = tuple(tnames[1:] + tnames[:1])[:max(1, ntr - 1)]
    else:
        raise ValueError(sel)
    return dict(rows=rows, frame=frame, canon=canon, shuf=shuf, gt=gt, gt_grp=gt_grp, trait_cols=tc, tnames=tnames,
                grp_of=grp_of, pheno=pheno)


def _make_gtobj(kind, gt, gt_grp, seed):
    from pybrops.popgen.gmat.DensePhasedGenotypeMatrix import DensePhasedGenotypeMatrix
    from pybrops.popgen.gmat.DenseGenotypeMatrix import DenseGenotypeMatrix
    rs = numpy.random.RandomState(seed)
    n = len(gt)
    taxa = numpy.array(gt, dtype=object)
    grp = None if gt_grp is None else numpy.array(gt_grp, dtype="int64")
    if kind == "phased":
        return DensePhasedGenotypeMatrix(mat=rs.randint(0, 2, size=(2, n, 3)).astype("int8"), taxa=taxa, taxa_grp=grp)
    return DenseGenotypeMatrix(mat=rs.randint(0, 3, size=(n, 3)).astype("int8"), taxa=taxa, taxa_grp=grp)


def _oracle_means(rows, tnames, tc_list, name):
    """arithmetic mean of the records of taxon `name`, by loops; None when it has no record"""
    out = []
    cnt = 0
    sums = [0.0] * len(tc_list)
    for (nm, g, e, r, v) in rows:
        if nm == name:
            cnt += 1
            for j, tn in enumerate(tc_list):
                sums[j] += float(v[tnames.index(tn)])
    if cnt == 0:
        return None
    for j in range(len(tc_list)):
        out.append(sums[j] / cnt)
    return out


def _check_bv(out, gt, gt_grp, tc_list, rows, tnames, what):
    """compare one estimate() result with the oracle; returns message or None"""
    taxa = None if out.taxa is None else list(out.taxa)
    if taxa != list(gt):
        return "%s: result taxa %r are not the genotype matrix taxa %r" % (what, taxa, list(gt)), "meanbv-labels"
    og = None if out.taxa_grp is None else [int(x) for x in out.taxa_grp]
    if og != (None if gt_grp is None else list(gt_grp)):
        return "%s: result taxa_grp %r, genotype matrix taxa_grp %r" % (what, og, gt_grp), "meanbv-labels"
    tr = None if out.trait is None else list(out.trait)
    if tr != list(tc_list):
        return "%s: result traits %r, requested trait columns %r" % (what, tr, tc_list), "meanbv-labels"
    with warnings.catch_warnings():
        warnings.simplefilter("ignore")
        raw = out.unscale()
    if raw.shape != (len(gt), len(tc_list)):
        return "%s: result shape %r, expected %r" % (what, raw.shape, (len(gt), len(tc_list))), "meanbv-labels"
    for i, nm in enumerate(gt):
        m = _oracle_means(rows, tnames, tc_list, nm)
        for j in range(len(tc_list)):
            got = float(raw[i, j])
            if m is None:
                if not math.isnan(got):
                    return "%s: taxon %r (row %d) has no record but its value for %r is %r, expected missing (NaN)" % (
                        what, nm, i, tc_list[j], got), "meanbv-missing"
            elif not _close(got, m[j], 1e-11):
                return "%s: taxon %r (row %d) trait %r: value %r, arithmetic mean of its records %r" % (
                    what, nm, i, tc_list[j], got, m[j]), "meanbv-mean-alignment"
    return None


def run_meanbv(case):
    from pybrops.breed.prot.bv.MeanPhenotypicBreedingValue import MeanPhenotypicBreedingValue
    tb = _build_table(case)
    rows, tnames = tb["rows"], tb["tnames"]
    tc = tb["trait_cols"]
    tc_list = [tc] if isinstance(tc, str) else list(tc)
    gcol = "taxa_grp" if case["use_grp_col"] else None
    prot = MeanPhenotypicBreedingValue(case["taxa_col"], gcol, tc)
    df_c = tb["frame"](tb["canon"], "range")
    df_s = tb["frame"](tb["shuf"], case["index_mode"])
    results = []
    for what, df in (("table in generated order", df_c), ("table with shuffled rows", df_s)):
        keep = df.copy(deep=True)
        if case["gtobj"] == "none":
            gtobj = None
        else:
            gtobj = _make_gtobj(case["gtobj"], tb["gt"], tb["gt_grp"], case["seed"] + 8)
        with warnings.catch_warnings():
            warnings.simplefilter("ignore")
            out = prot.estimate(df, gtobj, miscout=({} if case.get("miscout") else None))
        if not df.equals(keep) or list(df.index) != list(keep.index) or list(df.columns) != list(keep.columns):
            return True, "%s: estimate() modified the phenotype table" % what, "meanbv-mutates-input"
        if gtobj is not None:
            if list(gtobj.taxa) != list(tb["gt"]):
                return True, "%s: estimate() modified the genotype matrix taxa" % what, "meanbv-mutates-input"
            r = _check_bv(out, tb["gt"], tb["gt_grp"], tc_list, rows, tnames, what)
            if r is not None:
                return True, r[0], r[1]
        else:
            # no genotype matrix: every phenotyped taxon exactly once, carrying its own mean (and group)
            taxa = list(out.taxa)
            if sorted(taxa) != sorted(tb["pheno"]):
                return True, "%s: without genotype matrix the result taxa %r are not the phenotyped taxa %r" % (
                    what, taxa, tb["pheno"]), "meanbv-labels"
            ggrp = [tb["grp_of"][nm] for nm in taxa] if gcol is not None else None
            r = _check_bv(out, taxa, ggrp, tc_list, rows, tnames, what)
            if r is not None:
                return True, r[0], r[1]
        with warnings.catch_warnings():
            warnings.simplefilter("ignore")
            results.append((list(out.taxa), out.unscale().copy(), out.mat.copy()))
    # invariance to the row order of the phenotype table
    (ta, ra, ma), (tb_, rb, mb) = results
    if ta != tb_:
        return True, "shuffling the phenotype rows changed the result taxa order: %r vs %r" % (ta, tb_), "meanbv-row-order"
    for arr_a, arr_b, nm in ((ra, rb, "value"), (ma, mb, "scaled value")):
        if arr_a.shape != arr_b.shape:
            return True, "shuffling the phenotype rows changed the result shape", "meanbv-row-order"
        for i in range(arr_a.shape[0]):
            for j in range(arr_a.shape[1]):
                if not _close(arr_a[i, j], arr_b[i, j], 1e-10):
                    return True, "shuffling the phenotype rows changed %s [%d,%d] of taxon %r: %r vs %r" % (
                        nm, i, j, ta[i], arr_a[i, j], arr_b[i, j]), "meanbv-row-order"
    return False, "", ""


def run_pipeline(case):
    """phenotype with G_E_Phenotyping, shuffle the table, estimate against a permuted genotype matrix"""
    from pybrops.breed.prot.bv.MeanPhenotypicBreedingValue import MeanPhenotypicBreedingValue
    from pybrops.popgen.gmat.DensePhasedGenotypeMatrix import DensePhasedGenotypeMatrix
    pop, pt, rng, nenv, nrep_l, ve, vr, vx = _pheno_setup(case)
    n, t = case["n"], case["t"]
    with warnings.catch_warnings():
        warnings.simplefilter("ignore")
        df = pt.phenotype(pop["pg"])
    msg, R = analyse_trial(df, pop, nenv, nrep_l)
    if msg is not None:
        return True, msg, "pheno-records-labels"
    tcols = [c for c in df.columns if c not in ("taxa", "taxa_grp", "env", "rep")]
    rs = numpy.random.RandomState(case["rseed"] + 1)
    # unbalance: drop some records (never all of them)
    nrow = len(df)
    drop = set()
    if case["drop"] and nrow > 1:
        for r in range(nrow):
            if rs.rand() < 0.3:
                drop.add(r)
        if len(drop) == nrow:
            drop.discard(0)
    order = [int(x) for x in rs.permutation(nrow) if int(x) not in drop]
    sub = df.iloc[order]
    if case["reset_index"]:
        sub = sub.reset_index(drop=True)
    names = list(df["taxa"].to_numpy(dtype=object)[:n]) if pop["names"] is None else list(pop["names"])
    # genotype taxa: permutation of the population (+ one taxon that was never phenotyped)
    perm = [int(x) for x in rs.permutation(n)]
    gt = [names[k] for k in perm]
    if case["add_unpheno"]:
        gt.insert(int(rs.randint(0, n + 1)), "never-phenotyped")
    gt_grp = None
    if pop["grp"] is not None:
        gt_grp = [(pop["grp"][names.index(nm)] if nm in names else 9) for nm in gt]
    geno = numpy.zeros((2, len(gt), pop["geno"].shape[2]), dtype="int8")
    for a, nm in enumerate(gt):
        if nm in names:
            geno[:, a, :] = pop["geno"][:, names.index(nm), :]
    gtobj = DensePhasedGenotypeMatrix(mat=geno, taxa=numpy.array(gt, dtype=object),
                                      taxa_grp=None if gt_grp is None else numpy.array(gt_grp, dtype="int64"))
    gcol = "taxa_grp" if (case["use_grp_col"] and pop["grp"] is not None) else None
    prot = MeanPhenotypicBreedingValue("taxa", gcol, tcols)
    with warnings.catch_warnings():
        warnings.simplefilter("ignore")
        out = prot.estimate(sub, gtobj)
    # oracle rows from the table actually given
    tx = list(sub["taxa"].to_numpy(dtype=object))
    vals = sub[tcols].to_numpy(dtype=float)
    rows = [(tx[r], 0, 0, 0, [float(x) for x in vals[r]]) for r in range(len(sub))]
    r = _check_bv(out, gt, gt_grp, list(tcols), rows, list(tcols), "trial -> shuffled table -> estimate")
    if r is not None:
        return True, r[0], r[1]
    if case["family"] == "zero":
        gv = oracle_gv(pop)
        with warnings.catch_warnings():
            warnings.simplefilter("ignore")
            raw = out.unscale()
        present = set(tx)
        for a, nm in enumerate(gt):
            if nm in names and nm in present:
                i = names.index(nm)
                for k in range(t):
                    if not _close(raw[a, k], gv[i][k], 1e-11):
                        return True, ("noise-free trial: breeding value of taxon %r (row %d of the genotype matrix) is %r, "
                                      "its true genotypic value %r" % (nm, a, raw[a, k], gv[i][k])), \
                            "meanbv-mean-alignment"
    return False, "", ""


def run_bv(case):
    if case["kind"] == "table":
        return run_meanbv(case)
    return run_pipeline(case)


def gen_bv_cases(rnd, tier):
    # deterministic edge cases first
    edge = []
    for tm in ("unpadded", "unpadded_perm", "mixed", "padded"):
        for gto in ("phased", "unphased", "none"):
            for order in ("perm", "reversed", "sorted", "same"):
                edge.append(dict(kind="table", seed=len(edge) + 100, taxa_mode=tm, n_pheno=10, n_unpheno=2, n_extra=2,
                                 n_trait_cols=3, balanced=0, values="dyadic", taxa_col="taxa", trait_col_order="same",
                                 gt_order=order, dup=False, gt_grp=True, trait_sel="all", use_grp_col=(order != "same"),
                                 gtobj=gto, index_mode="perm", miscout=False))
    # nobody phenotyped / nobody in common / a single taxon / a single record
    edge.append(dict(kind="table", seed=7, taxa_mode="padded", n_pheno=0, n_unpheno=3, n_extra=0, n_trait_cols=2,
                     balanced=0, values="dyadic", taxa_col="taxa", trait_col_order="same", gt_order="perm", dup=False,
                     gt_grp=True, trait_sel="all", use_grp_col=False, gtobj="phased", index_mode="range", miscout=False))
    edge.append(dict(kind="table", seed=8, taxa_mode="unpadded", n_pheno=3, n_unpheno=2, n_extra=3, n_trait_cols=1,
                     balanced=2, values="float", taxa_col="taxa", trait_col_order="same", gt_order="perm", dup=False,
                     gt_grp=False, trait_sel="first_str", use_grp_col=True, gtobj="unphased", index_mode="str",
                     miscout=True))
    edge.append(dict(kind="table", seed=9, taxa_mode="mixed", n_pheno=1, n_unpheno=0, n_extra=0, n_trait_cols=1,
                     balanced=1, values="int", taxa_col="line", trait_col_order="same", gt_order="same", dup=True,
                     gt_grp=True, trait_sel="last_str", use_grp_col=True, gtobj="phased", index_mode="range",
                     miscout=False))
    for c in edge:
        yield c
    N = 500 if tier == "quick" else 8000
    for k in range(N):
        ntr = rnd.choice([1, 2, 3, 4])
        sel = rnd.choice(["all", "first_str", "last_str", "reversed", "tuple_subset"])
        yield dict(kind="table", seed=rnd.randrange(10 ** 6), taxa_mode=rnd.choice(_TAXA_MODES[1:]),
                   n_pheno=rnd.choice([1, 2, 3, 5, 10, 11, 12]), n_unpheno=rnd.choice([0, 0, 1, 2, 3]),
                   n_extra=rnd.choice([0, 0, 1, 2]), n_trait_cols=ntr, balanced=rnd.choice([0, 0, 0, 1, 3]),
                   values=rnd.choice(["dyadic", "int", "float", "skew", "skew"]),
                   taxa_col=rnd.choice(["taxa", "taxa", "line"]), trait_col_order=rnd.choice(["same", "reversed"]),
                   gt_order=rnd.choice(["perm", "perm", "reversed", "sorted", "same"]), dup=rnd.random() < 0.15,
                   gt_grp=rnd.random() < 0.7, trait_sel=sel, use_grp_col=rnd.random() < 0.5,
                   gtobj=rnd.choice(["phased", "phased", "unphased", "none"]),
                   index_mode=rnd.choice(["range", "perm", "str"]), miscout=rnd.random() < 0.2)
    M = 250 if tier == "quick" else 4000
    for k in range(M):
        c = _base_case(rnd, tier)
        fam = rnd.choice(["zero", "noise"])
        if c["taxa_mode"] == "none" and rnd.random() < 0.5:
            c["taxa_mode"] = "unpadded"
        c.update(kind="pipeline", family=fam, omit_none=False, rng=rnd.choice(["Generator", "RandomState"]),
                 var_env=None if fam == "zero" else rnd.choice([0.0, 1.0, [2.0, 0.0, 1.0]]),
                 var_rep=None if fam == "zero" else rnd.choice([0.0, 0.5]),
                 var_err=None if fam == "zero" else rnd.choice([0.25, 2.0, [1.0, 3.0, 0.0]]),
                 drop=rnd.random() < 0.6, reset_index=rnd.random() < 0.5, add_unpheno=rnd.random() < 0.5,
                 use_grp_col=rnd.random() < 0.5)
        yield c


@unit(P, "ring[mean-phenotype breeding values: means, alignment to genotype taxa, missing, row-order invariance]", "R",
      bounded=True,
      note="bounded: synthetic tables with <=12 phenotyped taxa, 1-4 records each, <=3 unphenotyped and <=2 extra taxa, "
           "<=4 trait columns, plus G_E trials (<=12 taxa, <=4 env, <=4 rep) piped into estimate(); 51 fixed edge cases + "
           "750 (quick) / 12000 (thorough) seeded cases")
def u_ring_meanbv(ctx):
    ctx.rule = ("fixed edge tables (Taxon1..Taxon10 names, permuted/reversed/sorted genotype taxa, nobody phenotyped, "
                "duplicate genotype taxon) then seeded random tables: unbalanced record counts, shuffled rows with "
                "permuted / string index, subsets and reorderings of trait columns, with and without group column, "
                "phased / unphased / no genotype matrix; each table is estimated in generated and in shuffled row order; "
                "then seeded trials piped through estimate() with dropped records and permuted genotype taxa")
    _drive(ctx, gen_bv_cases(ctx.rng, ctx.tier), run_bv, "ring:meanbv",
           ("kind", "taxa_mode", "n_pheno", "n_unpheno", "n_extra", "gt_order", "gtobj", "trait_sel", "family"))


# --------------------------------------------------------------------------- unit 4: true phenotyping / true breeding values
def run_true(case):
    from pybrops.breed.prot.pt.TruePhenotyping import TruePhenotyping
    from pybrops.breed.prot.bv.TrueBreedingValue import TrueBreedingValue
    from pybrops.popgen.gmat.DensePhasedGenotypeMatrix import DensePhasedGenotypeMatrix
    pop = build_population(case)
    n, t = case["n"], case["t"]
    pg = pop["pg"]
    gv = oracle_gv(pop)
    snap = _snapshot_pg(pg)
    with warnings.catch_warnings():
        warnings.simplefilter("ignore")
        df = TruePhenotyping(pop["model"]).phenotype(pg, miscout=({} if case.get("miscout") else None))
    if not _same_pg(pg, snap):
        return True, "TruePhenotyping.phenotype() modified the genotype matrix", "pheno-mutates-input"
    cols = list(df.columns)
    tcols = [c for c in cols if c not in ("taxa", "taxa_grp")]
    if "taxa" not in cols or len(tcols) != t or len(set(tcols)) != t:
        return True, "true phenotyping: columns %r, expected taxa[, taxa_grp] and %d trait columns" % (cols, t), \
            "truepheno-records-labels"
    if pop["trait"] is not None and tcols != list(pop["trait"]):
        return True, "true phenotyping: trait columns %r, model traits %r" % (tcols, pop["trait"]), \
            "truepheno-records-labels"
    if len(df) != n:
        return True, "true phenotyping: %d records for %d taxa" % (len(df), n), "truepheno-records-labels"
    taxa = list(df["taxa"].to_numpy(dtype=object))
    if len(set(taxa)) != n:
        return True, "true phenotyping: taxa labels %r are not one per taxon" % (taxa,), "truepheno-records-labels"
    vals = df[tcols].to_numpy(dtype=float)
    for row in range(n):
        i = row if pop["names"] is None else (pop["names"].index(taxa[row]) if taxa[row] in pop["names"] else -1)
        if i < 0:
            return True, "true phenotyping: label %r is no taxon" % (taxa[row],), "truepheno-records-labels"
        if pop["grp"] is not None:
            if "taxa_grp" not in cols or int(df["taxa_grp"].to_numpy()[row]) != pop["grp"][i]:
                return True, "true phenotyping: record of taxon %r does not carry its group %r" % (
                    taxa[row], pop["grp"][i]), "truepheno-records-labels"
        for k in range(t):
            if not _close(vals[row, k], gv[i][k]):
                return True, "true phenotyping: taxon %r trait #%d = %r, true genotypic value %r" % (
                    taxa[row], k, vals[row, k], gv[i][k]), "truepheno-truth"
    # true breeding values: additive value, aligned with the genotype matrix given (a permutation of the population)
    bvo = oracle_gv(pop, dominance=False)
    rs = numpy.random.RandomState(case["rseed"])
    perm = [int(x) for x in rs.permutation(n)]
    geno = pop["geno"][:, perm, :].copy()
    names = None if pop["names"] is None else [pop["names"][k] for k in perm]
    grp = None if pop["grp"] is None else [pop["grp"][k] for k in perm]
    g2 = DensePhasedGenotypeMatrix(mat=geno, taxa=None if names is None else numpy.array(names, dtype=object),
                                   taxa_grp=None if grp is None else numpy.array(grp, dtype="int64"))
    ptobj = df if case.get("pass_table") else None
    if case.get("pass_bvmat"):
        # the phenotype argument is a breeding-value matrix of the same size (estimates from elsewhere, another taxon order):
        # it is an input the truth does not depend on
        from pybrops.popgen.bvmat.DenseBreedingValueMatrix import DenseBreedingValueMatrix
        ptobj = DenseBreedingValueMatrix.from_numpy(rs.normal(size=(n, t)) * 3.0 + 1.0)
    with warnings.catch_warnings():
        warnings.simplefilter("ignore")
        out = TrueBreedingValue(pop["model"]).estimate(ptobj, g2, miscout=None)
        raw = out.unscale()
    if (None if out.taxa is None else list(out.taxa)) != names:
        return True, "true breeding values: taxa %r, genotype matrix taxa %r" % (out.taxa, names), "truebv-alignment"
    if (None if out.taxa_grp is None else [int(x) for x in out.taxa_grp]) != grp:
        return True, "true breeding values: taxa_grp %r, genotype matrix taxa_grp %r" % (out.taxa_grp, grp), \
            "truebv-alignment"
    if raw.shape != (n, t):
        return True, "true breeding values: shape %r, expected %r" % (raw.shape, (n, t)), "truebv-alignment"
    for a in range(n):
        for k in range(t):
            if not _close(raw[a, k], bvo[perm[a]][k], 1e-11):
                return True, "true breeding value of row %d (taxon #%d of the population) trait #%d = %r, expected %r" % (
                    a, perm[a], k, raw[a, k], bvo[perm[a]][k]), "truebv-alignment"
    return False, "", ""


def gen_true_cases(rnd, tier):
    N = 1000 if tier == "quick" else 18000
    for k in range(N):
        c = _base_case(rnd, tier)
        c.update(kind="true", pass_table=rnd.random() < 0.5, pass_bvmat=rnd.random() < 0.3)
        yield c


@unit(P, "ring[TruePhenotyping / TrueBreedingValue: truth and alignment]", "R", bounded=True,
      note="bounded: <=12 taxa (2-5% of cases 99-101), <=8 loci, <=3 traits, additive and additive+dominance models, "
           "1000 (quick) / 18000 (thorough) seeded populations, one random permutation of the genotype taxa each")
def u_ring_true(ctx):
    ctx.rule = ("seeded random populations; true phenotyping must give one record per taxon with its labels and its "
                "loop-computed genotypic value; true breeding values must follow the order of a permuted genotype matrix")
    _drive(ctx, gen_true_cases(ctx.rng, ctx.tier), run_true, "ring:true", ("n", "p", "t", "model", "taxa_mode"))


# --------------------------------------------------------------------------- replay
def _replayer(fn):
    def rep(case):
        bad, msg, cls = _catch(fn, case)
        return bad, msg
    return rep


REPLAYERS = {
    "ring[G_E field trial: records, labels, zero-noise truth, additive noise structure]": _replayer(run_pheno),
    "ring[set_h2 / set_H2 fix the error variance at the heritability target]": _replayer(run_herit),
    "ring[mean-phenotype breeding values: means, alignment to genotype taxa, missing, row-order invariance]":
        _replayer(run_bv),
    "ring[TruePhenotyping / TrueBreedingValue: truth and alignment]": _replayer(run_true),
}
