"""C08 -- native bounded rings (mode R): seeded runs are reproducible, explicit
generators are isolated.

Oracle (from the property statement, nothing is copied from the code):

* SEEDED clause.  For a seed ``s`` and a *program* (a finite sequence of
  stochastic API calls) ``out(history1 ; seed(s) ; program)`` must be
  bit-identical to ``out(history2 ; seed(s) ; program)`` for arbitrary,
  unrelated histories (the histories draw from / re-seed / set the state of the
  python and numpy global streams, run other pybrops calls, leave cached
  gaussians behind, use other explicit generators ...).  The *outcome* of a
  program is everything a caller can observe: returned arrays / frames /
  generator streams (compared bit for bit, NaN-safe, dtype and shape included),
  the sequence of decision vectors handed to a user supplied problem, and the
  global python / numpy stream states the program leaves behind (those decide
  the outputs of any longer program).
* EXPLICIT clause.  For a component given its own generator ``g`` in state
  ``S``: (isolation) ``random.getstate()`` and ``numpy.random.get_state()``
  are exactly what they were before the call; (determinism) a second execution
  from state ``S`` -- new generator, or the same generator object with its
  state restored, the same protocol object, or an identically built protocol
  object that has already been used under another state -- yields the bit-identical
  outcome and leaves ``g`` in the same end state, whatever was done to the
  global streams, and whatever unrelated calls are interleaved between the
  individual calls of the second execution.

Everything a case needs is in its JSON dict; all randomness of the harness
comes from ``ctx.rng`` (case generation) or from seeds stored in the case.
"""
import copy
import importlib
import random
import struct
import warnings

import numpy

from pyvc.unit import unit

P = "C08"

# ---------------------------------------------------------------------------
# canonical, bit-exact representation of outcomes


def canon(x):
    """hashable bit-exact canonical form (floats by bit pattern, arrays by
    dtype + shape + bytes); equality of canon() == bit-identical outputs"""
    import pandas
    if x is None or isinstance(x, (bool, str, bytes)):
        return x
    if isinstance(x, numpy.bool_):
        return bool(x)
    if isinstance(x, (int, numpy.integer)):
        return ("i", int(x))
    if isinstance(x, (float, numpy.floating)):
        return ("f", struct.pack("<d", float(x)).hex())
    if isinstance(x, numpy.random.Generator):
        return ("gen", type(x.bit_generator).__name__, canon(x.bit_generator.state))
    if isinstance(x, numpy.random.RandomState):
        return ("rs", canon(x.get_state(legacy=False)))
    if isinstance(x, numpy.ndarray):
        if x.dtype == object:
            return ("o", tuple(x.shape), tuple(canon(v) for v in x.ravel().tolist()))
        return ("a", x.dtype.str, tuple(x.shape), numpy.ascontiguousarray(x).tobytes().hex())
    if isinstance(x, pandas.DataFrame):
        cols = [str(c) for c in x.columns]
        return ("df", tuple(cols), tuple(canon(x[c].to_numpy()) for c in x.columns))
    if isinstance(x, dict):
        return ("d", tuple((str(k), canon(v)) for k, v in sorted(x.items(), key=lambda kv: str(kv[0]))))
    if isinstance(x, (list, tuple)):
        return ("l", tuple(canon(v) for v in x))
    raise TypeError("canon: unsupported %s" % type(x).__name__)


def first_diff(a, b, path="out"):
    """path of the first difference between two canon() values"""
    if a == b:
        return None
    if isinstance(a, tuple) and isinstance(b, tuple) and len(a) == len(b) and a and a[0] == b[0] and a[0] in ("l", "d", "df", "o"):
        if a[0] == "l":
            for i, (u, v) in enumerate(zip(a[1], b[1])):
                d = first_diff(u, v, "%s[%d]" % (path, i))
                if d:
                    return d
            if len(a[1]) != len(b[1]):
                return "%s: length %d vs %d" % (path, len(a[1]), len(b[1]))
        if a[0] == "d":
            for (ka, u), (kb, v) in zip(a[1], b[1]):
                if ka != kb:
                    return "%s: key %s vs %s" % (path, ka, kb)
                d = first_diff(u, v, "%s.%s" % (path, ka))
                if d:
                    return d
        if a[0] == "df":
            if a[1] != b[1]:
                return "%s: columns %s vs %s" % (path, a[1], b[1])
            for c, u, v in zip(a[1], a[2], b[2]):
                d = first_diff(u, v, "%s[%s]" % (path, c))
                if d:
                    return d
        if a[0] == "o":
            for i, (u, v) in enumerate(zip(a[2], b[2])):
                d = first_diff(u, v, "%s.flat[%d]" % (path, i))
                if d:
                    return d
    if isinstance(a, tuple) and isinstance(b, tuple) and a and b and a[0] == "a" and b[0] == "a":
        if a[1:3] != b[1:3]:
            return "%s: dtype/shape %s%s vs %s%s" % (path, a[1], a[2], b[1], b[2])
        x = numpy.frombuffer(bytes.fromhex(a[3]), dtype=a[1])
        y = numpy.frombuffer(bytes.fromhex(b[3]), dtype=b[1])
        n = min(len(x), len(y))
        ix = [i for i in range(n) if x[i:i + 1].tobytes() != y[i:i + 1].tobytes()][:1]
        if ix:
            return "%s: %s array of shape %s, first difference at flat index %d: %r vs %r" % (
                path, a[1], a[2], ix[0], x[ix[0]].item(), y[ix[0]].item())
    return "%s: %s vs %s" % (path, str(a)[:100], str(b)[:100])


def glob_state():
    """exact state of the two global streams (python `random`, numpy legacy global)"""
    st = numpy.random.get_state(legacy=False)
    nps = (st["bit_generator"], st["state"]["key"].tobytes(), int(st["state"]["pos"]), int(st["has_gauss"]),
           struct.pack("<d", float(st["gauss"])))
    return ("l", (random.getstate(), nps))


def glob_diff(a, b):
    out = []
    if a[1][0] != b[1][0]:
        out.append("python random state")
    if a[1][1] != b[1][1]:
        out.append("numpy.random global state")
    return " and ".join(out)


# ---------------------------------------------------------------------------
# generators

GEN_KINDS = ["PCG64", "MT19937", "Philox", "SFC64", "RandomState"]


def make_gen(kind, seed):
    if kind == "RandomState":
        return numpy.random.RandomState(seed)
    return numpy.random.Generator(getattr(numpy.random, kind)(seed))


def gen_state(g):
    if isinstance(g, numpy.random.RandomState):
        return copy.deepcopy(g.get_state(legacy=False))
    return copy.deepcopy(g.bit_generator.state)


def set_gen_state(g, st):
    if isinstance(g, numpy.random.RandomState):
        g.set_state(copy.deepcopy(st))
    else:
        g.bit_generator.state = copy.deepcopy(st)


# ---------------------------------------------------------------------------
# the small universe the calls operate on

class Universe:
    pass


def universe(spec):
    """n taxa, p markers, t traits; deterministic from the spec (own local
    generator; the global streams are not touched)"""
    from pybrops.popgen.gmat.DensePhasedGenotypeMatrix import DensePhasedGenotypeMatrix
    from pybrops.model.gmod.DenseAdditiveLinearGenomicModel import DenseAdditiveLinearGenomicModel
    from pybrops.popgen.bvmat.DenseBreedingValueMatrix import DenseBreedingValueMatrix
    n, p, t = spec["n"], spec["p"], spec["t"]
    r = numpy.random.Generator(numpy.random.PCG64(spec["seed"]))
    mat = r.integers(0, 2, (2, n, p)).astype("int8")
    nchr = 2 if p >= 4 else 1
    chrgrp = numpy.sort(numpy.arange(p) % nchr).astype("int64") + 1
    xoprob = numpy.where(numpy.r_[True, chrgrp[1:] != chrgrp[:-1]], 0.5, r.choice([0.0, 0.1, 0.3, 0.5], p))
    pg = DensePhasedGenotypeMatrix(
        mat=mat,
        taxa=numpy.array(["P%03d" % i for i in range(n)], dtype=object),
        taxa_grp=(numpy.arange(n, dtype="int64") % 2),
        vrnt_chrgrp=chrgrp,
        vrnt_phypos=numpy.arange(1, p + 1, dtype="int64") * 10,
        vrnt_name=numpy.array(["m%d" % i for i in range(p)], dtype=object),
        vrnt_genpos=numpy.linspace(0.0, 1.0, p) if p > 1 else numpy.zeros(p),
        vrnt_xoprob=xoprob.astype(float),
        vrnt_hapgrp=numpy.arange(p, dtype="int64"),
        vrnt_mask=numpy.ones(p, dtype=bool),
    )
    pg.group_vrnt()
    trait = numpy.array(["tr%d" % i for i in range(t)], dtype=object)
    gpmod = DenseAdditiveLinearGenomicModel(beta=r.normal(size=(1, t)), u_misc=None, u_a=r.normal(size=(p, t)), trait=trait)
    bv = DenseBreedingValueMatrix.from_numpy(r.normal(size=(n, t)), taxa=pg.taxa, taxa_grp=pg.taxa_grp, trait=trait)
    U = Universe()
    U.spec, U.pg, U.gpmod, U.bv, U.n, U.p, U.t = spec, pg, gpmod, bv, n, p, t
    return U


# ---------------------------------------------------------------------------
# user supplied optimisation problems that record what they are asked to evaluate

_PCLS = {}


def _problem_class(base):
    if base in _PCLS:
        return _PCLS[base]
    mod = importlib.import_module("pybrops.opt.prob." + base)
    B = getattr(mod, base)

    class TraceProblem(B):
        def __init__(self, **kw):
            super().__init__(**kw)
            self.trace = []

        def evalfn(self, x, *a, **k):
            self.trace.append(numpy.array(x).tolist())
            x = numpy.asarray(x, dtype=float)
            w = numpy.arange(1, len(x) + 1)
            if self.nobj == 1:
                obj = numpy.array([float(numpy.sum(numpy.floor(x) % 3) + 0.25 * numpy.sum(x - numpy.floor(x)))])
            else:
                obj = numpy.array([float(numpy.sum(numpy.floor(x) % 3)), float(numpy.sum(numpy.floor(x * w) % 5))])
            return self.obj_wt * obj, numpy.zeros(0), numpy.zeros(0)

        def _evaluate(self, x, out, *a, **k):
            if x.ndim == 1:
                out["F"] = self.evalfn(x)[0]
            else:
                out["F"] = numpy.stack([self.evalfn(r)[0] for r in x])

    _PCLS[base] = TraceProblem
    return TraceProblem


def make_problem(ps):
    """ps: dict(kind=subset|real|integer|binary, nobj, ndecn, nspace|hi)"""
    kind, nobj, ndecn = ps["kind"], ps["nobj"], ps["ndecn"]
    common = dict(nobj=nobj, obj_wt=numpy.ones(nobj), nineqcv=0, ineqcv_wt=None, neqcv=0, eqcv_wt=None)
    if kind == "subset":
        ns = ps["nspace"]
        return _problem_class("SubsetProblem")(ndecn=ndecn, decn_space=numpy.arange(ns), decn_space_lower=numpy.repeat(0, ndecn),
                                               decn_space_upper=numpy.repeat(ns - 1, ndecn), **common)
    if kind == "real":
        lo, hi = numpy.repeat(0.0, ndecn), numpy.repeat(float(ps["hi"]), ndecn)
        return _problem_class("RealProblem")(ndecn=ndecn, decn_space=numpy.stack([lo, hi]), decn_space_lower=lo, decn_space_upper=hi, **common)
    if kind == "integer":
        lo, hi = numpy.repeat(0, ndecn), numpy.repeat(int(ps["hi"]), ndecn)
        return _problem_class("IntegerProblem")(ndecn=ndecn, decn_space=numpy.stack([lo, hi]), decn_space_lower=lo, decn_space_upper=hi, **common)
    if kind == "binary":
        lo, hi = numpy.repeat(0, ndecn), numpy.repeat(1, ndecn)
        return _problem_class("BinaryProblem")(ndecn=ndecn, decn_space=numpy.stack([lo, hi]), decn_space_lower=lo, decn_space_upper=hi, **common)
    raise ValueError(kind)


# ---------------------------------------------------------------------------
# the stochastic API calls ("ops")

MATE = {
    "SelfCross": 1, "TwoWayCross": 2, "TwoWayDHCross": 2, "ThreeWayCross": 3, "ThreeWayDHCross": 3,
    "FourWayCross": 4, "FourWayDHCross": 4,
}
CFG_KINDS = ["Subset", "Binary", "Integer", "Real", "SubsetMate", "BinaryMate", "IntegerMate", "RealMate"]
# ops that have no rng argument (global stream only): only meaningful in the seeded clause
GLOBAL_ONLY = {"spawn", "jitter", "embv", "prng_fn", "rs_problem"}
# optimisers: name -> (module, problem kind, nobj, family)
ALGOS = {
    "SubsetGeneticAlgorithm": ("subset", 1, "pymoo-addon"),
    "NSGA2SubsetGeneticAlgorithm": ("subset", 2, "pymoo-addon"),
    "NSGA3SubsetGeneticAlgorithm": ("subset", 2, "pymoo-addon"),
    "NSGA2SteepestDescentSubsetGeneticAlgorithm": ("subset", 2, "pymoo-addon"),
    "NSGA2StochasticDescentSubsetGeneticAlgorithm": ("subset", 2, "pymoo-addon"),
    "NSGA2MutatorASubsetGeneticAlgorithm": ("subset", 2, "pymoo-addon"),
    "NSGA2MutatorBSubsetGeneticAlgorithm": ("subset", 2, "pymoo-addon"),
    "RealGeneticAlgorithm": ("real", 1, "pymoo-native"),
    "NSGA2RealGeneticAlgorithm": ("real", 2, "pymoo-native"),
    "IntegerGeneticAlgorithm": ("integer", 1, "pymoo-native"),
    "NSGA2IntegerGeneticAlgorithm": ("integer", 2, "pymoo-native"),
    "BinaryGeneticAlgorithm": ("binary", 1, "pymoo-native"),
    "NSGA2BinaryGeneticAlgorithm": ("binary", 2, "pymoo-native"),
    "UnconstrainedSetGeneticAlgorithm": ("legacy", 1, "deap"),
    "UnconstrainedNSGA2SetGeneticAlgorithm": ("legacy", 2, "deap"),
    "SteepestDescentSubsetHillClimber": ("subset", 1, "hillclimber"),
    "SortingSteepestDescentSubsetHillClimber": ("subset", 1, "hillclimber"),
    "UnconstrainedSteepestAscentSetHillClimber": ("legacy", 1, "hillclimber"),
}
_ALGO_MODULE = {
    "NSGA2SteepestDescentSubsetGeneticAlgorithm": "NSGA2MemeticSubsetGeneticAlgorithm",
    "NSGA2StochasticDescentSubsetGeneticAlgorithm": "NSGA2MemeticSubsetGeneticAlgorithm",
    "NSGA2MutatorASubsetGeneticAlgorithm": "NSGA2MemeticSubsetGeneticAlgorithm",
    "NSGA2MutatorBSubsetGeneticAlgorithm": "NSGA2MemeticSubsetGeneticAlgorithm",
}


def _algo_class(name):
    mod = importlib.import_module("pybrops.opt.algo." + _ALGO_MODULE.get(name, name))
    return getattr(mod, name)


def _cfg_build(U, op, rng):
    kind = op["kind"]
    mod = importlib.import_module("pybrops.breed.prot.sel.cfg.%sSelectionConfiguration" % kind)
    cls = getattr(mod, "%sSelectionConfiguration" % kind)
    dt = float if kind.startswith("Real") else int
    kw = dict(ncross=op["ncross"], nparent=op["nparent"], nmating=1, nprogeny=1, pgmat=U.pg,
              xconfig_decn=numpy.array(op["decn"], dtype=dt), rng=rng)
    if kind.endswith("Mate"):
        kw["xconfig_xmap"] = numpy.array(op["xmap"], dtype=int).reshape(-1, op["nparent"])
    return cls(**kw)


def _legacy_objfn(nobj, trace):
    def f(x):
        trace.append(numpy.array(x).tolist())
        x = numpy.asarray(x, dtype=float)
        if nobj == 1:
            return float(numpy.sum(x % 3))
        return (float(numpy.sum(x % 3)), float(numpy.sum((x * numpy.arange(1, len(x) + 1)) % 5)))
    return f


def _select_build(U, op, rng):
    from pybrops.opt.algo.SteepestDescentSubsetHillClimber import SteepestDescentSubsetHillClimber
    from pybrops.opt.algo.SortingSteepestDescentSubsetHillClimber import SortingSteepestDescentSubsetHillClimber
    if op["soalgo"] == "hc":
        so = SteepestDescentSubsetHillClimber(rng=rng)
    else:
        so = SortingSteepestDescentSubsetHillClimber()
    common = dict(ncross=op["ncross"], nparent=op["nparent"], nmating=1, nprogeny=op.get("nprogeny", 1), nobj=1, rng=rng, soalgo=so)
    if op["proto"] == "ebv":
        from pybrops.breed.prot.sel.EstimatedBreedingValueSelection import EstimatedBreedingValueSubsetSelection
        return EstimatedBreedingValueSubsetSelection(ntrait=U.t, unscale=True, obj_trans=_first_trait, **common)
    from pybrops.breed.prot.sel.RandomSelection import RandomSubsetSelection
    return RandomSubsetSelection(ntrait=1, **common)


def _first_trait(x, *args, **kwargs):
    """objective transformation (user side): first trait only -> single objective"""
    return numpy.asarray(x)[:1]


def op_prepare(U, op, rng):
    """construct the (stateful) object an op works on; may draw from rng"""
    k = op["op"]
    if k == "mate":
        mod = importlib.import_module("pybrops.breed.prot.mate." + op["proto"])
        return getattr(mod, op["proto"])(progeny_counter=op.get("pc0", 0), family_counter=0, rng=rng)
    if k == "phenotype":
        from pybrops.breed.prot.pt.G_E_Phenotyping import G_E_Phenotyping
        nrep = op["nrep"] if isinstance(op["nrep"], int) else numpy.array(op["nrep"], dtype=int)
        obj = G_E_Phenotyping(U.gpmod, nenv=op["nenv"], nrep=nrep, var_env=op["var_env"], var_rep=op["var_rep"],
                              var_err=op["var_err"], rng=rng)
        # a copy of a component is the same stochastic component: it draws from the same designated stream
        via = op.get("via_copy")
        if via == "copy.deepcopy":
            obj = copy.deepcopy(obj)
        elif via == "deepcopy":
            obj = obj.deepcopy()
        elif via == "copy":
            obj = obj.copy()
        return obj
    if k == "cfg":
        return _cfg_build(U, op, rng)
    if k == "select":
        return _select_build(U, op, rng)
    if k == "opt":
        name = op["algo"]
        cls = _algo_class(name)
        fam = ALGOS[name][2]
        if name == "SortingSteepestDescentSubsetHillClimber":
            return cls()
        if name in ("SteepestDescentSubsetHillClimber", "UnconstrainedSteepestAscentSetHillClimber"):
            return cls(rng=rng)
        if fam == "deap":
            return cls(ngen=op["ngen"], mu=op["pop"], lamb=op["pop"], rng=rng)
        return cls(ngen=op["ngen"], pop_size=op["pop"], rng=rng)
    return None


def op_run(U, op, obj, rng, fresh, between=None):
    """execute the op's stochastic call(s); returns the raw outcome"""
    from pybrops.core.random import prng, sampling
    k = op["op"]
    reps = op.get("reps", 1)
    out = []

    def gap(i):
        if between is not None and i + 1 < reps:
            between(i)
    if k == "mate":
        obj.progeny_counter = op.get("pc0", 0)
        obj.family_counter = 0
        xc = numpy.array(op["xconfig"], dtype=int).reshape(-1, MATE[op["proto"]])
        for i in range(reps):
            nm = op["nmating"] if isinstance(op["nmating"], int) else numpy.array(op["nmating"], dtype=int)
            npg = op["nprogeny"] if isinstance(op["nprogeny"], int) else numpy.array(op["nprogeny"], dtype=int)
            pr = obj.mate(U.pg, xc.copy(), nm, npg, nself=op.get("nself", 0))
            out.append([pr.mat, pr.taxa, pr.taxa_grp])
            gap(i)
    elif k == "phenotype":
        for i in range(reps):
            out.append(obj.phenotype(U.pg))
            gap(i)
    elif k == "cfg":
        if fresh:
            out.append(numpy.array(obj.xconfig))
        for i in range(reps):
            out.append(numpy.array(obj.sample_xconfig(True)))
            out.append(numpy.array(obj.xconfig))
            gap(i)
    elif k == "sus":
        for i in range(reps):
            size = op["size"] if isinstance(op["size"], int) else tuple(op["size"])
            out.append(sampling.stochastic_universal_sampling(numpy.array(op["a"]), numpy.array(op["p"], dtype=float), size, rng))
            gap(i)
    elif k == "tiled_choice":
        for i in range(reps):
            size = op["size"] if isinstance(op["size"], int) else tuple(op["size"])
            pp = None if op.get("p") is None else numpy.array(op["p"], dtype=float)
            out.append(sampling.tiled_choice(numpy.array(op["a"]), size, op["replace"], pp, rng))
            gap(i)
    elif k == "axis_shuffle":
        for i in range(reps):
            a = numpy.arange(int(numpy.prod(op["shape"]))).reshape(op["shape"])
            ax = op["axis"] if isinstance(op["axis"], int) else tuple(op["axis"])
            sampling.axis_shuffle(a, ax, rng)
            out.append(a)
            gap(i)
    elif k == "outcross_shuffle":
        for i in range(reps):
            a = numpy.array(op["xconfig"], dtype=int)
            sampling.outcross_shuffle(a, rng)
            out.append(a)
            gap(i)
    elif k == "select":
        for i in range(reps):
            cfg = obj.select(U.pg, None, None, U.bv, None, 0, 1)
            out.append({"decn": numpy.array(cfg.xconfig_decn), "xconfig": numpy.array(cfg.xconfig),
                        "resample": numpy.array(cfg.sample_xconfig(True))})
            gap(i)
    elif k == "opt":
        name = op["algo"]
        kind, nobj, fam = ALGOS[name]
        for i in range(reps):
            if kind == "legacy":
                trace = []
                with warnings.catch_warnings():
                    warnings.simplefilter("ignore")
                    res = obj.optimize(_legacy_objfn(nobj, trace), op["prob"]["ndecn"], numpy.arange(op["prob"]["nspace"]),
                                       1.0 if nobj == 1 else numpy.ones(nobj))
                out.append({"score": numpy.asarray(res[0], dtype=float), "soln": numpy.asarray(res[1]), "trace": trace})
            else:
                prob = make_problem(dict(op["prob"], kind=kind, nobj=nobj))
                with warnings.catch_warnings():
                    warnings.simplefilter("ignore")
                    s = obj.minimize(prob)
                out.append({"decn": numpy.asarray(s.soln_decn), "obj": numpy.asarray(s.soln_obj), "trace": prob.trace})
            gap(i)
    # ---- global-stream-only calls
    elif k == "spawn":
        for i in range(reps):
            bg = getattr(numpy.random, op["bitgen"])
            g = prng.spawn(op["n"], bg, op["sbits"])
            gl = [g] if op["n"] is None else list(g)
            out.append([gl, [x.random(3) for x in gl], [x.integers(0, 1000, 2) for x in gl]])
            gap(i)
    elif k == "prng_fn":
        for i in range(reps):
            fn = op["fn"]
            if fn == "random":
                out.append(prng.random(3))
            elif fn == "uniform":
                out.append(prng.uniform(-1.0, 2.0, 3))
            elif fn == "normal":
                out.append(prng.normal(0.0, 2.0, 3))
            elif fn == "standard_normal":
                out.append(prng.standard_normal(op.get("n", 1)))
            elif fn == "choice":
                out.append(prng.choice(7, 3))
            elif fn == "permutation":
                out.append(prng.permutation(6))
            elif fn == "binomial":
                out.append(prng.binomial(5, 0.5, 4))
            elif fn == "multivariate_normal":
                out.append(prng.multivariate_normal(numpy.zeros(2), numpy.eye(2), 2))
            elif fn == "shuffle":
                a = numpy.arange(6)
                prng.shuffle(a)
                out.append(a)
            elif fn == "global_prng.uniform":
                out.append(prng.global_prng.uniform(0.0, 1.0, 2))
            else:
                raise ValueError(fn)
            gap(i)
    elif k == "jitter":
        from pybrops.popgen.cmat.DenseMolecularCoancestryMatrix import DenseMolecularCoancestryMatrix
        for i in range(reps):
            m = op["m"]
            v = numpy.arange(1, m + 1, dtype=float) / m
            K = DenseMolecularCoancestryMatrix(mat=numpy.outer(v, v))       # rank one: not positive definite
            with warnings.catch_warnings():
                warnings.simplefilter("ignore")
                ok = K.apply_jitter(minjitter=op["lo"], maxjitter=op["hi"], nattempt=op["nattempt"])
            out.append([bool(ok), numpy.array(K.mat)])
            gap(i)
    elif k == "embv":
        from pybrops.model.embvmat.DenseExpectedMaximumBreedingValueMatrix import DenseExpectedMaximumBreedingValueMatrix
        for i in range(reps):
            e = DenseExpectedMaximumBreedingValueMatrix.from_gmod(U.gpmod, U.pg, op["nprogeny"], op["nrep"])
            out.append(numpy.array(e.mat))
            gap(i)
    elif k == "rs_problem":
        from pybrops.breed.prot.sel.RandomSelection import RandomSubsetSelection
        for i in range(reps):
            sel = RandomSubsetSelection(ntrait=op["ntrait"], ncross=1, nparent=2, nmating=1, nprogeny=1, nobj=op["ntrait"])
            prob = sel.problem(U.pg, None, None, None, None, 0, 1)
            out.append([numpy.array(prob.rbv), numpy.asarray(prob.latentfn(numpy.array([0, U.n - 1])))])
            gap(i)
    else:
        raise ValueError("unknown op %r" % (k,))
    return out


def run_program(U, program, rng, cache=None, between=None):
    """run all ops in order with the given rng (None = the library default =
    global stream).  `cache`: dict slot -> prepared object (objects reused when
    present).  Returns the raw outcome list."""
    outs = []
    for slot, op in enumerate(program):
        fresh = cache is None or slot not in cache
        r = None if op["op"] in GLOBAL_ONLY else rng
        obj = op_prepare(U, op, r) if fresh else cache[slot]
        if cache is not None and fresh:
            cache[slot] = obj
        res = op_run(U, op, obj, r, fresh, between)
        # on the global stream the state left behind by each call belongs to its outcome: a call that consumes a
        # different amount of entropy is then identified itself, not the next call that inherits the shifted stream
        outs.append([res, glob_state() if rng is None else None])
        if between is not None and slot + 1 < len(program):
            between(1000 + slot)
    return outs


# ---------------------------------------------------------------------------
# histories / noise: unrelated stochastic work

def do_noise(U, items):
    from pybrops.core.random import prng
    for it in items:
        k = it["k"]
        if k == "py":
            for _ in range(it["n"]):
                getattr(random, it["fn"])(*it.get("args", []))
        elif k == "np":
            for _ in range(it["n"]):
                getattr(numpy.random, it["fn"])(*it.get("args", []))
        elif k == "pyseed":
            random.seed(it["s"])
        elif k == "npseed":
            numpy.random.seed(it["s"])
        elif k == "prngseed":
            prng.seed(it["s"])
        elif k == "npsetstate":
            st = numpy.random.RandomState(it["s"]).get_state(legacy=False)
            st["has_gauss"], st["gauss"] = 1, 0.123
            st["state"]["pos"] = it.get("pos", 5)
            numpy.random.set_state(st)
        elif k == "pysetstate":
            r = random.Random(it["s"])
            r.gauss(0, 1)
            random.setstate(r.getstate())
        elif k == "op":      # a pybrops stochastic call on the global stream
            run_program(U, [it["op"]], None)
        elif k == "opx":     # a pybrops stochastic call on some other explicit generator
            run_program(U, [it["op"]], make_gen(it["g"][0], it["g"][1]))
        elif k == "spawn":
            g = prng.spawn(it["n"])
            for x in g:
                x.random(2)
        else:
            raise ValueError(k)


# ---------------------------------------------------------------------------
# case generation helpers

def gen_pop(rnd):
    return dict(n=rnd.choice([1, 2, 3, 4, 5, 6, 8]), p=rnd.choice([1, 2, 3, 4, 5, 7]), t=rnd.choice([1, 1, 2, 3]),
                seed=rnd.randrange(10 ** 6))


def _dyadic_weights(rnd, m, total=8, positive=False):
    """m weights k/total (exactly representable) with sum 1"""
    ks = [1] * m if positive else [0] * m
    left = total - sum(ks)
    if left < 0:
        ks, left = [0] * m, total
    for _ in range(left):
        ks[rnd.randrange(m)] += 1
    return [k / total for k in ks]


def gen_op(rnd, pop, kinds):
    """one random op of one of the given kinds, valid for the population"""
    n, p, t = pop["n"], pop["p"], pop["t"]
    k = rnd.choice(kinds)
    reps = rnd.choice([1, 1, 2, 3])
    if k == "mate":
        proto = rnd.choice(sorted(MATE))
        npar = MATE[proto]
        ncross = rnd.choice([1, 1, 2, 3])
        nm = rnd.choice([1, 1, 2]) if rnd.random() < 0.7 else [rnd.choice([1, 2]) for _ in range(ncross)]
        npg = rnd.choice([1, 2, 3]) if rnd.random() < 0.7 else [rnd.choice([1, 2, 3]) for _ in range(ncross)]
        return dict(op="mate", proto=proto, xconfig=[[rnd.randrange(n) for _ in range(npar)] for _ in range(ncross)],
                    nmating=nm, nprogeny=npg, nself=rnd.choice([0, 0, 1, 2]), pc0=rnd.choice([0, 0, 17]), reps=min(reps, 2))
    if k == "phenotype":
        nenv = rnd.choice([1, 2, 3])
        nrep = rnd.choice([1, 2]) if rnd.random() < 0.6 else [rnd.choice([1, 2, 3]) for _ in range(nenv)]
        v = [0.0, 0.25, 1.0, 2.5]
        return dict(op="phenotype", nenv=nenv, nrep=nrep, var_env=rnd.choice(v), var_rep=rnd.choice(v), var_err=rnd.choice(v[1:]),
                    reps=min(reps, 2), via_copy=rnd.choice([None, None, "copy.deepcopy", "deepcopy", "copy"]))
    if k == "sus":
        m = rnd.choice([1, 2, 3, 4, 6])
        size = rnd.choice([1, 2, 3, 5, 6]) if rnd.random() < 0.7 else rnd.choice([[2, 2], [1, 3], [3, 2]])
        return dict(op="sus", a=[rnd.randrange(50) for _ in range(m)], p=_dyadic_weights(rnd, m), size=size, reps=reps)
    if k == "tiled_choice":
        m = rnd.choice([1, 2, 3, 4, 6])
        replace = rnd.random() < 0.4
        size = rnd.choice([0, 1, 2, 3, 5, 7, 12]) if rnd.random() < 0.7 else rnd.choice([[2, 2], [3, 1], [2, 5], [4, 3]])
        pp = _dyadic_weights(rnd, m, positive=not replace) if rnd.random() < 0.4 else None
        return dict(op="tiled_choice", a=[rnd.randrange(50) for _ in range(m)], size=size, replace=replace, p=pp, reps=reps)
    if k == "axis_shuffle":
        shape = rnd.choice([[2, 3], [3, 3], [4, 2], [1, 4], [2, 3, 2], [3, 2, 2]])
        if len(shape) == 2:
            axis = rnd.choice([0, 1, [0], [1]])
        else:
            axis = rnd.choice([0, 1, 2, [0, 1], [0, 2], [1, 2]])
        return dict(op="axis_shuffle", shape=shape, axis=axis, reps=reps)
    if k == "outcross_shuffle":
        nc, npar = rnd.choice([1, 2, 3, 4]), rnd.choice([1, 2, 3])
        hi = rnd.choice([2, 3, 5])
        return dict(op="outcross_shuffle", xconfig=[[rnd.randrange(hi) for _ in range(npar)] for _ in range(nc)], reps=reps)
    if k == "cfg":
        kind = rnd.choice(CFG_KINDS)
        nc, npar = rnd.choice([1, 2, 3]), rnd.choice([1, 2, 3])
        op = dict(op="cfg", kind=kind, ncross=nc, nparent=npar, reps=reps)
        if kind.endswith("Mate"):
            nx = rnd.choice([1, 2, 4, 5])
            op["xmap"] = [[rnd.randrange(n) for _ in range(npar)] for _ in range(nx)]
            ndec = nx
        else:
            ndec = n
        if kind.startswith("Subset"):
            op["decn"] = [rnd.randrange(ndec) for _ in range(rnd.choice([1, 2, 3, nc * npar]))]
        elif kind.startswith("Binary"):
            d = [rnd.choice([0, 1]) for _ in range(ndec)]
            if sum(d) == 0:
                d[rnd.randrange(ndec)] = 1
            op["decn"] = d
        elif kind.startswith("Integer"):
            d = [rnd.choice([0, 0, 1, 2, 3]) for _ in range(ndec)]
            if sum(d) == 0:
                d[rnd.randrange(ndec)] = 2
            op["decn"] = d
        else:
            op["decn"] = _dyadic_weights(rnd, ndec)
        return op
    if k == "select":
        nc, npar = rnd.choice([(1, 2), (2, 1), (2, 2), (1, 3), (3, 1)])
        return dict(op="select", proto="ebv", soalgo=rnd.choice(["hc", "sorting"]), ncross=nc, nparent=npar, reps=min(reps, 2))
    if k == "hc":
        nd = rnd.choice([1, 2, 3])
        algo = rnd.choice(["SteepestDescentSubsetHillClimber", "SteepestDescentSubsetHillClimber", "UnconstrainedSteepestAscentSetHillClimber"])
        return dict(op="opt", algo=algo, prob=dict(ndecn=nd, nspace=nd + rnd.choice([1, 2, 4])), reps=min(reps, 2))
    if k == "spawn":
        return dict(op="spawn", n=rnd.choice([None, 0, 1, 2, 3]), bitgen=rnd.choice(["PCG64", "PCG64", "MT19937", "Philox", "SFC64"]),
                    sbits=rnd.choice([32, 64, 64, 128]), reps=reps)
    if k == "prng_fn":
        return dict(op="prng_fn", fn=rnd.choice(["random", "uniform", "normal", "standard_normal", "choice", "permutation", "binomial",
                                                 "multivariate_normal", "shuffle", "global_prng.uniform"]), n=rnd.choice([1, 2, 3]), reps=reps)
    if k == "jitter":
        return dict(op="jitter", m=rnd.choice([2, 3, 5]), lo=1e-4, hi=1e-2, nattempt=rnd.choice([1, 3, 100]), reps=min(reps, 2))
    if k == "embv":
        return dict(op="embv", nprogeny=rnd.choice([1, 2, 3]), nrep=rnd.choice([1, 2]), reps=1)
    if k == "rs_problem":
        return dict(op="rs_problem", ntrait=rnd.choice([1, 2]), reps=min(reps, 2))
    raise ValueError(k)


def _valid_kinds(pop, kinds):
    out = list(kinds)
    if pop["n"] < 4 and "select" in out:
        out = [k for k in out if k != "select"]
    if pop["n"] < 2 and "rs_problem" in out:
        out = [k for k in out if k != "rs_problem"]
    return out


NOISE_OP_KINDS = ["mate", "phenotype", "sus", "tiled_choice", "axis_shuffle", "outcross_shuffle", "cfg", "hc"]


def gen_noise(rnd, pop, allow_seed=True, maxlen=5):
    """a random history of unrelated stochastic work"""
    items = []
    for _ in range(rnd.randrange(0, maxlen + 1)):
        c = rnd.random()
        if c < 0.2:
            items.append(rnd.choice([dict(k="py", fn="random", n=rnd.randrange(1, 6)), dict(k="py", fn="gauss", args=[0.0, 1.0], n=rnd.choice([1, 3])),
                                     dict(k="py", fn="randint", args=[0, 99], n=rnd.randrange(1, 4)),
                                     dict(k="py", fn="getrandbits", args=[70], n=1)]))
        elif c < 0.4:
            items.append(rnd.choice([dict(k="np", fn="random", n=rnd.randrange(1, 6)), dict(k="np", fn="standard_normal", n=rnd.choice([1, 3])),
                                     dict(k="np", fn="randint", args=[0, 99], n=rnd.randrange(1, 4)),
                                     dict(k="np", fn="uniform", args=[0.0, 1.0, 700], n=1)]))
        elif c < 0.55 and allow_seed:
            items.append(rnd.choice([dict(k="pyseed", s=rnd.randrange(2 ** 40)), dict(k="npseed", s=rnd.randrange(2 ** 32)),
                                     dict(k="prngseed", s=rnd.randrange(2 ** 40)), dict(k="npsetstate", s=rnd.randrange(1000), pos=rnd.choice([0, 5, 623, 624])),
                                     dict(k="pysetstate", s=rnd.randrange(1000))]))
        elif c < 0.75:
            items.append(dict(k="op", op=gen_op(rnd, pop, _valid_kinds(pop, NOISE_OP_KINDS))))
        elif c < 0.9:
            items.append(dict(k="opx", op=gen_op(rnd, pop, _valid_kinds(pop, NOISE_OP_KINDS)), g=[rnd.choice(GEN_KINDS), rnd.randrange(1000)]))
        else:
            items.append(dict(k="spawn", n=rnd.choice([1, 2])))
    return items


SEEDS = [0, 1, 2, 7, 12345, 2 ** 31 - 1, 2 ** 31, 2 ** 32 - 1, 2 ** 32, 2 ** 32 + 1, 2 ** 63, 2 ** 64 + 5, 10 ** 30, -1, -2 ** 40]


def gen_seed(rnd):
    return rnd.choice(SEEDS) if rnd.random() < 0.5 else rnd.randrange(2 ** 48)


# ---------------------------------------------------------------------------
# clause evaluators.  Each returns dict(findings=[(clause, cls, message)], nontrivial=bool)

def _family_of_program(program):
    return "+".join(sorted({_op_family(o) for o in program}))


def _op_family(op):
    k = op["op"]
    if k == "mate":
        return "mate"
    if k == "cfg":
        return "cfg"
    if k == "opt":
        return "opt:" + op["algo"]
    if k == "select":
        return "select:" + op["proto"]
    return k


class pinned_pymoo_entropy:
    """guard used by the 'pinned' twins: pymoo 0.6 builds its own stream with
    numpy.random.default_rng(None) (OS entropy).  While active, a default_rng()
    call *without a seed* gets a fixed seed instead, i.e. the entropy pymoo
    takes from the operating system is held constant."""

    def __init__(self, pin):
        self.pin = pin

    def __enter__(self):
        self.orig = numpy.random.default_rng
        orig, pin = self.orig, self.pin

        def pinned(seed=None, *a, **k):
            return orig(pin if seed is None else seed, *a, **k)
        numpy.random.default_rng = pinned
        return self

    def __exit__(self, *exc):
        numpy.random.default_rng = self.orig
        return False


class _noguard:
    def __enter__(self):
        return self

    def __exit__(self, *exc):
        return False


def _guard(case):
    return pinned_pymoo_entropy(case["pin"]) if case.get("pin") is not None else _noguard()


def eval_seeded(case):
    """SEEDED clause on one program"""
    from pybrops.core.random import prng
    U = universe(case["pop"])
    program, s = case["program"], case["seed"]
    cache = cache2 = None
    if case.get("persist"):
        # objects built long before the seeding.  `cache`: objects that have already been USED (under an unrelated
        # seed) -- run 1 and 3; `cache2`: identically built objects that were never used -- run 2.  A protocol object
        # must not carry hidden stochastic state from earlier use into a re-seeded run.
        numpy.random.seed(99)
        random.seed(99)
        cache = {slot: op_prepare(U, op, None) for slot, op in enumerate(program)}
        run_program(U, program, None, cache)
        cache2 = {slot: op_prepare(U, op, None) for slot, op in enumerate(program)}
    findings = []
    with _guard(case):
        do_noise(U, case["hist1"])
        prng.seed(s)
        g1 = glob_state()
        o1 = canon(run_program(U, program, None, cache))
        e1 = glob_state()
        do_noise(U, case["hist2"])
        prng.seed(s)
        g2 = glob_state()
        o2 = canon(run_program(U, program, None, cache2))
        e2 = glob_state()
        # a third run under another seed tells whether the program is stochastic at all
        prng.seed(case["seed"] + 1 if case["seed"] >= 0 else case["seed"] - 1)
        o3 = canon(run_program(U, program, None, cache))
    fam = _family_of_program(program)
    if g1 != g2:
        findings.append(("seed:state-is-function-of-seed", "seed-state:" + glob_diff(g1, g2).replace(" ", "-"),
                         "after seed(%r) the %s differs between two histories" % (s, glob_diff(g1, g2))))
    elif o1 != o2:
        findings.append(("seeded:bit-identical-outputs", _seeded_cls(program, o1, o2, case.get("pin") is not None),
                         "seed(%r); program [%s] gave different outputs after two different histories: %s" % (s, fam, first_diff(o1, o2))))
    elif e1 != e2:
        findings.append(("seeded:same-stream-consumption", _seeded_cls(program, pinned=case.get("pin") is not None),
                         "seed(%r); program [%s]: equal outputs but the %s left behind differs (any longer program diverges)" % (
                             s, fam, glob_diff(e1, e2))))
    # non-trivial: the returned data (not merely the stream states) depend on the seed
    return dict(findings=findings, nontrivial=([e[1][0] for e in o1[1]] != [e[1][0] for e in o3[1]]))


def _seeded_cls(program, o1=None, o2=None, pinned=False):
    """class of a seeded-clause failure: the first call of the program whose
    own outcome differs (later calls merely inherit the divergence)"""
    fams = sorted({ALGOS[o["algo"]][2] for o in program if o["op"] == "opt"} - {"hillclimber"})
    if pinned and fams:
        # guarded twin: pymoo's OS entropy is held constant, so this is NOT the 'wrapper never seeds pymoo' class
        return "ga-seeded-irreproducible-with-pymoo-entropy-pinned:" + "+".join(o["algo"] for o in program if o["op"] == "opt")
    if "pymoo-addon" in fams or "pymoo-native" in fams:
        return "ga-seeded-irreproducible"          # pymoo backed GA / NSGA wrappers under the global seed
    if "deap" in fams:
        return "deap-ga-seeded-irreproducible"
    if o1 is not None and o2 is not None:
        for op, a, b in zip(program, o1[1], o2[1]):
            if a != b:
                return "seeded-irreproducible:" + _op_family(op)
    return "seeded-irreproducible:" + _family_of_program(program)


def eval_explicit(case):
    """EXPLICIT clause on one op (possibly repeated) with the caller's generator:
    isolation of both executions and determinism between them"""
    U = universe(case["pop"])
    op, mode = case["call"], case["mode"]
    program = [op]
    fam = _op_family(op)
    findings = []
    with _guard(case):
        do_noise(U, case["noise1"])
        gen = make_gen(case["gkind"], case["gseed"])
        cache = None
        if mode in ("same-obj", "used-obj"):
            cache = {0: op_prepare(U, op, gen)}          # construction may consume; S is taken afterwards
        S = gen_state(gen)
        G1 = glob_state()
        o1 = canon(run_program(U, program, gen, dict(cache) if cache is not None else None))
        E1 = canon(gen_state(gen))
        G1b = glob_state()
        # second execution from the same generator state under different global streams
        do_noise(U, case["noise2"])
        cache2 = cache
        if mode == "fresh-gen":
            gen2 = make_gen(case["gkind"], case["gseed"])
        elif mode == "used-obj":
            # an identically built second object that has already been used with the generator in ANOTHER state
            gen2 = make_gen(case["gkind"], case["gseed"])
            cache2 = {0: op_prepare(U, op, gen2)}
            set_gen_state(gen2, gen_state(make_gen(case["gkind"], case["gseed"] + 777)))
            run_program(U, program, gen2, dict(cache2))
            set_gen_state(gen2, S)
        else:
            gen2 = gen
            set_gen_state(gen2, S)
        inter = case.get("inter") or []
        G2 = glob_state()
        o2 = canon(run_program(U, program, gen2, dict(cache2) if cache2 is not None else None))
        E2 = canon(gen_state(gen2))
        G2b = glob_state()
        o3 = E3 = None
        if inter:
            # third execution with unrelated calls interleaved between the individual calls
            def between(i):
                do_noise(U, inter)
            gen3 = make_gen(case["gkind"], case["gseed"]) if mode == "fresh-gen" else gen     # cached objects are bound to `gen`
            set_gen_state(gen3, S)
            o3 = canon(run_program(U, program, gen3, dict(cache) if cache is not None else None, between))
            E3 = canon(gen_state(gen3))
    if G1 != G1b or G2 != G2b:
        d = glob_diff(G1, G1b) or glob_diff(G2, G2b)
        findings.append(("explicit:global-streams-untouched", _isolation_cls(op, U),
                         "%s called with its own %s generator changed the %s" % (fam, case["gkind"], d)))
    if o1 != o2:
        findings.append(("explicit:result-depends-only-on-generator", _determinism_cls(op, first_diff(o1, o2)),
                         "%s with a %s generator in the same state (%s) gave different results under different global stream "
                         "states: %s" % (fam, case["gkind"], mode, first_diff(o1, o2))))
    elif E1 != E2:
        findings.append(("explicit:same-consumption", _determinism_cls(op),
                         "%s: equal results but the caller's generator ends in different states (%s)" % (fam, mode)))
    elif o3 is not None and (o1 != o3 or E1 != E3):
        findings.append(("explicit:interleaving-irrelevant", _determinism_cls(op),
                         "%s with a %s generator in the same state (%s) gave a different result when unrelated stochastic calls "
                         "were interleaved: %s" % (fam, case["gkind"], mode, first_diff(o1, o3))))
    return dict(findings=findings, nontrivial=(canon(S) != E1))


def _rs_problem_draws_global(U, op):
    """does RandomSubsetSelection(rng=g).problem(...) on its own touch the global streams?"""
    sel = _select_build(U, op, make_gen("PCG64", 0))
    g0 = glob_state()
    sel.problem(U.pg, None, None, U.bv, None, 0, 1)
    return g0 != glob_state()


def _isolation_cls(op, U=None):
    if op["op"] == "opt":
        fam = ALGOS[op["algo"]][2]
        if fam == "pymoo-addon":
            return "pymoo-addon-global-numpy"           # custom pymoo operators draw from numpy.random
        if fam == "deap":
            return "deap-ga-python-random"              # legacy deap GA selects with the python global stream
        return "explicit-rng-touches-globals:" + op["algo"]
    if op["op"] == "select":
        if op["proto"] == "random" and U is not None and _rs_problem_draws_global(U, op):
            return "randomselection-problem-global-prng"    # problem() draws its random breeding values from global_prng
        return "selproto-config-rng-none"                   # select() builds the configuration with rng=None
    return "explicit-rng-touches-globals:" + _op_family(op)


def _determinism_cls(op, diff=""):
    if op["op"] == "opt":
        fam = ALGOS[op["algo"]][2]
        if fam in ("pymoo-addon", "pymoo-native"):
            return "ga-explicit-rng-ignored"            # wrapper never hands self.rng / a seed to pymoo
        if fam == "deap":
            return "deap-ga-python-random"
        return "explicit-rng-not-sole-entropy:" + op["algo"]
    if op["op"] == "select":
        if ".decn" in (diff or ""):
            if op["proto"] == "random":
                return "randomselection-problem-global-prng"    # already the decision vector differs
            return "explicit-rng-not-sole-entropy:select:%s:decision-vector" % op["proto"]
        return "selproto-config-rng-none"
    return "explicit-rng-not-sole-entropy:" + _op_family(op)


def eval_operator(case):
    """pymoo operator protocol: operator.do(..., random_state=g) must draw from g only"""
    from pybrops.opt.algo import pymoo_addon
    from pymoo.core.population import Population
    prob = make_problem(dict(kind="subset", nobj=case["nobj"], ndecn=case["ndecn"], nspace=case["nspace"]))
    setspace = numpy.arange(case["nspace"])
    name = case["operator"]

    def build():
        if name == "SubsetRandomSampling":
            return pymoo_addon.SubsetRandomSampling(setspace=setspace)
        if name == "ReducedExchangeCrossover":
            return pymoo_addon.ReducedExchangeCrossover()
        if name == "ReducedExchangeMutation":
            return pymoo_addon.ReducedExchangeMutation(setspace=setspace)
        raise ValueError(name)

    def call(g):
        o = build()
        xr = numpy.random.Generator(numpy.random.PCG64(case["xseed"]))
        X = numpy.stack([xr.choice(setspace, case["ndecn"], replace=False) for _ in range(case["npop"])])
        if name == "SubsetRandomSampling":
            return o.do(prob, case["npop"], random_state=g).get("X")
        if name == "ReducedExchangeCrossover":
            h = (case["npop"] // 2)
            return o._do(prob, numpy.stack([X[:h], X[h:2 * h]]), random_state=g)
        return o.do(prob, Population.new("X", X), inplace=False, random_state=g).get("X")
    findings = []
    U = None
    do_noise(U, case["noise1"])
    g = make_gen(case["gkind"], case["gseed"])
    S = canon(gen_state(g))
    G1 = glob_state()
    o1 = canon(call(g))
    G1b = glob_state()
    nontrivial = (G1 != G1b) or (S != canon(gen_state(g)))       # the operator drew from somewhere
    do_noise(U, case["noise2"])
    o2 = canon(call(make_gen(case["gkind"], case["gseed"])))
    if G1 != G1b:
        findings.append(("explicit:global-streams-untouched", "pymoo-addon-global-numpy",
                         "pymoo_addon.%s.do(random_state=<own generator>) changed the %s" % (name, glob_diff(G1, G1b))))
    if o1 != o2:
        findings.append(("explicit:result-depends-only-on-generator", "pymoo-addon-global-numpy",
                         "pymoo_addon.%s.do(random_state=g) with g in the same state gave different results under different "
                         "numpy.random global states: %s" % (name, first_diff(o1, o2))))
    return dict(findings=findings, nontrivial=nontrivial)


EVALUATORS = {"seeded": eval_seeded, "explicit": eval_explicit, "operator": eval_operator}


def eval_case(case):
    """restore the interpreter's global streams afterwards (the harness' own
    determinism must not depend on case order).  `attempts` (optimiser cases):
    the clause is universally quantified, so the case fails if ANY of the
    attempts shows a difference (wrappers that take OS entropy differ with high
    but not full probability on tiny budgets)."""
    py, npst = random.getstate(), numpy.random.get_state()
    try:
        with warnings.catch_warnings():
            warnings.simplefilter("ignore")
            for _ in range(max(1, case.get("attempts", 1))):
                r = EVALUATORS[case["clause"]](case)
                if r["findings"]:
                    break
            return r
    finally:
        random.setstate(py)
        numpy.random.set_state(npst)


def run_case(case):
    """(violated, message) for one stored case -- used for replay"""
    try:
        r = eval_case(case)
    except Exception as e:
        return True, "[cls=%s] exception %s: %s" % (_crash_cls(case), type(e).__name__, e)
    if not r["findings"]:
        return False, "ok"
    return True, "; ".join("[cls=%s] %s: %s" % (c, cl, m) for cl, c, m in r["findings"])


def _crash_cls(case):
    if case["clause"] == "seeded":
        return "crash:" + _family_of_program(case["program"])
    if case["clause"] == "explicit":
        return "crash:" + _op_family(case["call"])
    return "crash:operator:" + case["operator"]


def drive(ctx, cases, sample_of):
    """common unit body: evaluate every case, at most 3 recorded failures per cls"""
    per_cls = {}
    for case in cases:
        try:
            r = eval_case(case)
        except Exception as e:      # a crash of the real code on a valid input counts as a failure
            r = dict(findings=[("ring:no-crash", _crash_cls(case), "exception %s: %s" % (type(e).__name__, e))], nontrivial=True)
        ctx.case(key=repr(sorted(case.items(), key=str)), nontrivial=r["nontrivial"], sample=sample_of(case))
        for clause, cls, msg in r["findings"]:
            per_cls[cls] = per_cls.get(cls, 0) + 1
            if per_cls[cls] <= 3:
                ctx.fail_input("ring:" + clause, case, cls=cls, message=msg)
    return per_cls


# ---------------------------------------------------------------------------
# unit 1: SEEDED clause, programs of non-GA stochastic calls

SEEDED_KINDS = ["mate", "mate", "phenotype", "phenotype", "sus", "tiled_choice", "axis_shuffle", "outcross_shuffle", "cfg", "cfg",
                "select", "hc", "spawn", "spawn", "prng_fn", "jitter", "embv", "rs_problem"]


def gen_seeded_cases(rnd, tier):
    ncase = 600 if tier == "quick" else 6000
    # every kind alone first (so that one broken component is attributed to itself), then mixed programs
    singles = sorted(set(SEEDED_KINDS))
    for i in range(ncase):
        pop = gen_pop(rnd)
        if i < 3 * len(singles):
            kind = singles[i % len(singles)]
            if kind not in _valid_kinds(pop, [kind]):
                pop["n"] = 5
            program = [gen_op(rnd, pop, [kind])]
        else:
            kinds = _valid_kinds(pop, SEEDED_KINDS)
            program = [gen_op(rnd, pop, kinds) for _ in range(rnd.choice([1, 2, 3, 4, 6]))]
        yield dict(clause="seeded", pop=pop, seed=gen_seed(rnd), program=program, hist1=gen_noise(rnd, pop), hist2=gen_noise(rnd, pop),
                   persist=(rnd.random() < 0.3))


@unit(P, "ring[seeded programs: reseed => bit-identical]", "R", bounded=True,
      note="bounded: programs of <= 6 calls (x <= 3 repeats) out of 7 mating protocols, G_E_Phenotyping, 4 sampling functions, "
           "8 selection configurations, select(), hill-climbers, spawn, prng functions, apply_jitter, EMBV, random-selection "
           "problem; <= 8 taxa, <= 7 markers, <= 3 traits; 600 (quick) / 6000 (thorough) programs, two random histories each; "
           "seeds from a 15-value edge list and 48-bit random")
def u_seeded(ctx):
    ctx.rule = ("random programs (VERIF_SEED) of stochastic API calls; each is run after history1;seed(s) and after history2;seed(s) "
                "(histories: draws / reseeding / set_state of both global streams, other pybrops calls, other generators) and the "
                "full outcomes (returned data, spawned streams, decision vectors evaluated, global end states) are compared bit for "
                "bit; non-trivial if seed(s+1) gives a different outcome; distinct by full input")
    drive(ctx, gen_seeded_cases(ctx.rng, ctx.tier),
          lambda c: dict(seed=c["seed"], program=[_op_family(o) for o in c["program"]], persist=c["persist"]))


# ---------------------------------------------------------------------------
# unit 2: EXPLICIT clause, every component with an rng argument (no optimiser wrappers)

EXPLICIT_KINDS = ["mate", "phenotype", "sus", "tiled_choice", "axis_shuffle", "outcross_shuffle", "cfg", "hc"]


def gen_explicit_cases(rnd, tier):
    ncase = 1500 if tier == "quick" else 20000
    comps = [("mate", p) for p in sorted(MATE)] + [("phenotype", None)] + [(k, None) for k in ("sus", "tiled_choice", "axis_shuffle", "outcross_shuffle")] \
        + [("cfg", k) for k in CFG_KINDS] + [("hc", "SteepestDescentSubsetHillClimber"), ("hc", "UnconstrainedSteepestAscentSetHillClimber")]
    for i in range(ncase):
        pop = gen_pop(rnd)
        kind, sub = comps[i % len(comps)]
        for _ in range(200):
            op = gen_op(rnd, pop, [kind])
            if sub is None or op.get("proto") == sub or op.get("kind") == sub or op.get("algo") == sub:
                break
        mode = rnd.choice(["fresh-gen", "same-gen", "same-obj", "used-obj"])
        if op["op"] not in ("mate", "phenotype", "cfg", "opt"):
            mode = rnd.choice(["fresh-gen", "same-gen"])
        yield dict(clause="explicit", pop=pop, call=op, mode=mode, gkind=rnd.choice(GEN_KINDS), gseed=rnd.randrange(10 ** 6),
                   noise1=gen_noise(rnd, pop, maxlen=3), noise2=[dict(k="np", fn="random", n=rnd.randrange(1, 4)),
                                                                 dict(k="py", fn="random", n=rnd.randrange(1, 4))] + gen_noise(rnd, pop, maxlen=3),
                   inter=gen_noise(rnd, pop, maxlen=2) if rnd.random() < 0.5 else [])


@unit(P, "ring[explicit generator: isolation and determinism per component]", "R", bounded=True,
      note="bounded: 23 components (7 mating protocols, G_E_Phenotyping, 4 sampling functions, 8 selection configurations, 2 "
           "hill-climbers) x {PCG64, MT19937, Philox, SFC64 Generators, RandomState}; <= 8 taxa, <= 7 markers; 1500 (quick) / "
           "20000 (thorough) calls; modes fresh generator / same generator restored / same protocol object / an identically built "
           "object already used under another generator state")
def u_explicit(ctx):
    ctx.rule = ("round-robin over the components, random valid arguments; every call is executed twice (three times when unrelated "
                "calls are interleaved) from the same generator state under different global stream states; isolation: python "
                "and numpy global states compared exactly before/after each execution; determinism: outcomes and generator end "
                "states compared bit for bit; non-trivial if the call advanced the caller's generator")
    drive(ctx, gen_explicit_cases(ctx.rng, ctx.tier),
          lambda c: dict(call=_op_family(c["call"]), mode=c["mode"], gkind=c["gkind"]))


# ---------------------------------------------------------------------------
# unit 3: optimiser wrappers, both clauses (tiny budgets)

def _opt_op(rnd, name):
    kind, nobj, fam = ALGOS[name]
    # decision spaces large enough that pymoo's duplicate elimination rarely has to re-mate
    if kind in ("subset", "legacy"):
        nd = rnd.choice([4, 5])
        prob = dict(ndecn=nd, nspace=nd + rnd.choice([6, 8, 10]))
    elif kind == "binary":
        prob = dict(ndecn=rnd.choice([5, 6, 7]))
    else:
        prob = dict(ndecn=rnd.choice([2, 3]), hi=rnd.choice([5, 9]))
    pop = rnd.choice([6, 8, 10])
    if fam == "deap":
        pop = rnd.choice([4, 8, 12])
    return dict(op="opt", algo=name, ngen=rnd.choice([3, 4, 5]), pop=pop, prob=prob, reps=1)


def gen_opt_cases(rnd, tier, pin):
    rounds = 4 if tier == "quick" else 60
    names = [a for a in ALGOS if ALGOS[a][2] != "hillclimber"]
    pop = dict(n=2, p=1, t=1, seed=0)
    for r in range(rounds):
        for name in names:
            for check in ("seeded", "explicit"):
                op = _opt_op(rnd, name)
                pv = None if pin is None else rnd.randrange(10 ** 6)
                if check == "seeded":
                    yield dict(clause="seeded", pop=pop, seed=gen_seed(rnd), program=[op], hist1=gen_noise(rnd, pop, maxlen=2),
                               hist2=gen_noise(rnd, pop, maxlen=3), persist=False, pin=pv, attempts=3 if pin is None else 1)
                elif pin is None:
                    yield dict(clause="explicit", pop=pop, call=op, mode=rnd.choice(["fresh-gen", "same-gen", "same-obj", "used-obj"]),
                               gkind=rnd.choice(GEN_KINDS), gseed=rnd.randrange(10 ** 6), noise1=gen_noise(rnd, pop, maxlen=2),
                               noise2=[dict(k="np", fn="random", n=1), dict(k="py", fn="random", n=1)] + gen_noise(rnd, pop, maxlen=2),
                               inter=[], pin=None, attempts=3)


def _opt_sample(c):
    op = c["program"][0] if c["clause"] == "seeded" else c["call"]
    return dict(algo=op["algo"], clause=c["clause"], ngen=op["ngen"], pop=op["pop"])


@unit(P, "ring[optimiser wrappers: seeded and explicit rng]", "R", bounded=True,
      note="bounded: 13 pymoo-backed GA/NSGA wrappers + 2 legacy deap GAs, ngen <= 5, population <= 12, <= 5 decision variables "
           "(<= 7 binary); 4 (quick) / 60 (thorough) rounds x 2 clauses per wrapper")
def u_opt(ctx):
    ctx.rule = ("per wrapper: (seeded) history1;seed(s);minimize vs history2;seed(s);minimize on a problem that records every decision "
                "vector it is asked to evaluate; (explicit) rng=g => global streams untouched and the same generator state twice => "
                "identical solution and evaluation trace")
    drive(ctx, gen_opt_cases(ctx.rng, ctx.tier, None), _opt_sample)


@unit(P, "ring[optimiser wrappers, seeded, pymoo OS entropy pinned (guarded twin)]", "R", bounded=True,
      note="bounded: as the optimiser ring, seeded clause only; numpy.random.default_rng(None) (the only way pymoo 0.6 obtains OS "
           "entropy) is pinned to a per-case constant, so that everything else in the wrappers must be reproducible under seed()")
def u_opt_pinned(ctx):
    ctx.rule = ("guarded twin of the seeded optimiser check: excludes exactly the input class 'pymoo seeds itself from the OS'; the "
                "custom operators' draws from the (seeded) global numpy stream, the problem evaluation order and the solution "
                "extraction must then be bit-reproducible")
    drive(ctx, gen_opt_cases(ctx.rng, ctx.tier, True), _opt_sample)


# ---------------------------------------------------------------------------
# unit 4: selection protocols with an explicit rng

def gen_select_cases(rnd, tier):
    ncase = 200 if tier == "quick" else 3000
    for i in range(ncase):
        pop = gen_pop(rnd)
        pop["n"] = rnd.choice([4, 5, 6, 8])
        nc, npar = rnd.choice([(1, 2), (2, 1), (2, 2), (1, 3), (3, 1)])
        proto = ["ebv", "ebv", "ebv", "random"][i % 4]
        op = dict(op="select", proto=proto, soalgo=rnd.choice(["hc", "sorting"]), ncross=nc, nparent=npar, nprogeny=rnd.choice([1, 2]), reps=rnd.choice([1, 2]))
        yield dict(clause="explicit", pop=pop, call=op,
                   mode=rnd.choice(["fresh-gen", "same-gen", "same-obj", "used-obj"]), gkind=rnd.choice(GEN_KINDS), gseed=rnd.randrange(10 ** 6),
                   noise1=gen_noise(rnd, pop, maxlen=2), noise2=[dict(k="np", fn="random", n=rnd.randrange(1, 4))] + gen_noise(rnd, pop, maxlen=2),
                   inter=[])


@unit(P, "ring[selection protocol select() with explicit rng]", "R", bounded=True,
      note="bounded: EstimatedBreedingValueSubsetSelection and RandomSubsetSelection with hill-climber single-objective solvers "
           "(the solver gets the same explicit generator), <= 8 taxa, <= 3 crosses x <= 3 parents; 200 (quick) / 3000 (thorough) calls")
def u_select(ctx):
    ctx.rule = ("select() of a protocol constructed with rng=g: decision vector, the configuration's sampled cross configuration and "
                "a re-sampled one must depend on g only and the global streams must be untouched")
    drive(ctx, gen_select_cases(ctx.rng, ctx.tier),
          lambda c: dict(proto=c["call"]["proto"], soalgo=c["call"]["soalgo"], mode=c["mode"], gkind=c["gkind"]))


# ---------------------------------------------------------------------------
# unit 5: custom pymoo operators called through pymoo's random_state protocol

def gen_operator_cases(rnd, tier):
    ncase = 120 if tier == "quick" else 3000
    ops = ["SubsetRandomSampling", "ReducedExchangeCrossover", "ReducedExchangeMutation"]
    for i in range(ncase):
        nd = rnd.choice([2, 3, 4])
        yield dict(clause="operator", operator=ops[i % 3], nobj=rnd.choice([1, 2]),
                   ndecn=nd, nspace=2 * nd + rnd.choice([1, 2, 4]), npop=rnd.choice([4, 6]), xseed=rnd.randrange(1000),
                   gkind=rnd.choice(GEN_KINDS[:4]), gseed=rnd.randrange(10 ** 6),
                   noise1=[dict(k="npseed", s=rnd.randrange(1000))], noise2=[dict(k="npseed", s=1000 + rnd.randrange(1000))])


@unit(P, "ring[pymoo_addon operators honour random_state]", "R", bounded=True,
      note="bounded: SubsetRandomSampling, ReducedExchangeCrossover, ReducedExchangeMutation; <= 4 decision variables, set space "
           "<= 12, population <= 6; 120 (quick) / 3000 (thorough) calls")
def u_operator(ctx):
    ctx.rule = ("operator invoked the way pymoo does (random_state=g): global numpy/python states unchanged and the result a function "
                "of g's state only (two different numpy.random.seed values in between)")
    drive(ctx, gen_operator_cases(ctx.rng, ctx.tier), lambda c: dict(operator=c["operator"], gkind=c["gkind"], ndecn=c["ndecn"], nspace=c["nspace"]))


REPLAYERS = {
    "ring[seeded programs: reseed => bit-identical]": run_case,
    "ring[explicit generator: isolation and determinism per component]": run_case,
    "ring[optimiser wrappers: seeded and explicit rng]": run_case,
    "ring[optimiser wrappers, seeded, pymoo OS entropy pinned (guarded twin)]": run_case,
    "ring[selection protocol select() with explicit rng]": run_case,
    "ring[pymoo_addon operators honour random_state]": run_case,
}
