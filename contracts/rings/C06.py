"""C06 -- native bounded ring (mode R): optimisers return feasible solutions
with truthful objective values.

Everything here runs the REAL optimiser classes of $PYBROPS_REPO on small,
fully enumerated or seeded problems and evaluates an oracle written from the
property statement:

  D  decision space : subsets have exactly ``ndecn`` members, pairwise distinct,
                      all taken from the candidate set; integer / binary / real
                      vectors have the right type and lie inside their bounds
  T  truthfulness   : the objective / inequality / equality values stored with
                      every solution equal a fresh ``prob.evalfn`` of that
                      decision, compared EXACTLY (shape and value)
  N  non-domination : in a multi-objective result no member is Pareto-dominated
                      by another member
  U  unchanged      : a deep snapshot of the problem object taken before
                      ``minimize`` equals the object afterwards
  S  sorting        : SortingSubsetOptimizationAlgorithm attains the brute-force
                      minimum (all C(n,k) subsets) of separable problems
  L  local optimum  : the hill-climbers stop only where no single exchange
                      (one member <-> one non-member) is lexicographically better
                      in (total constraint violation, objective)

The test problems are defined here (label -> value tables, python loops), with
small integer / dyadic data so that every sum is exact in binary64 and the
"exact" comparisons are meaningful in any summation order.

Generator state: the GA wrappers hand no seed to pymoo (pymoo then asks the OS
for entropy) and the pymoo_addon operators draw from the global numpy stream.
To make a case reproducible from its dict alone the harness, for the duration
of one run, (i) seeds the global numpy stream and (ii) makes
``numpy.random.default_rng(None)`` return generators derived from the case
seed.  Only the *state* of the generators is controlled; no library code is
replaced.

Finding classes (cls) used for genuine defects of the unchanged library are
listed in ``KNOWN_CLS_DOC`` at the bottom.
"""
import contextlib
import copy
import io
import itertools
import signal

import numpy

from pyvc.unit import unit

P = "C06"

# --------------------------------------------------------------------------
# optimiser table (imported lazily)
# --------------------------------------------------------------------------

ALGOS = {
    # name: (module, class, problem kind, single|multi, family)
    "Sorting": ("SortingSubsetOptimizationAlgorithm", "SortingSubsetOptimizationAlgorithm", "subset", "single", "sort"),
    "SDHC": ("SteepestDescentSubsetHillClimber", "SteepestDescentSubsetHillClimber", "subset", "single", "hc"),
    "SortingSDHC": ("SortingSteepestDescentSubsetHillClimber", "SortingSteepestDescentSubsetHillClimber", "subset", "single", "hc"),
    "SubsetGA": ("SubsetGeneticAlgorithm", "SubsetGeneticAlgorithm", "subset", "single", "ga"),
    "RealGA": ("RealGeneticAlgorithm", "RealGeneticAlgorithm", "real", "single", "ga"),
    "IntegerGA": ("IntegerGeneticAlgorithm", "IntegerGeneticAlgorithm", "integer", "single", "ga"),
    "BinaryGA": ("BinaryGeneticAlgorithm", "BinaryGeneticAlgorithm", "binary", "single", "ga"),
    "NSGA2Subset": ("NSGA2SubsetGeneticAlgorithm", "NSGA2SubsetGeneticAlgorithm", "subset", "multi", "ga"),
    "NSGA2Real": ("NSGA2RealGeneticAlgorithm", "NSGA2RealGeneticAlgorithm", "real", "multi", "ga"),
    "NSGA2Integer": ("NSGA2IntegerGeneticAlgorithm", "NSGA2IntegerGeneticAlgorithm", "integer", "multi", "ga"),
    "NSGA2Binary": ("NSGA2BinaryGeneticAlgorithm", "NSGA2BinaryGeneticAlgorithm", "binary", "multi", "ga"),
    "NSGA3Subset": ("NSGA3SubsetGeneticAlgorithm", "NSGA3SubsetGeneticAlgorithm", "subset", "multi", "ga"),
    "MemeticSteepest": ("NSGA2MemeticSubsetGeneticAlgorithm", "NSGA2SteepestDescentSubsetGeneticAlgorithm", "subset", "multi", "memetic"),
    "MemeticStochastic": ("NSGA2MemeticSubsetGeneticAlgorithm", "NSGA2StochasticDescentSubsetGeneticAlgorithm", "subset", "multi", "memetic"),
    "MemeticMutatorA": ("NSGA2MemeticSubsetGeneticAlgorithm", "NSGA2MutatorASubsetGeneticAlgorithm", "subset", "multi", "memetic"),
    "MemeticMutatorB": ("NSGA2MemeticSubsetGeneticAlgorithm", "NSGA2MutatorBSubsetGeneticAlgorithm", "subset", "multi", "memetic"),
}


def _algo_class(name):
    import importlib
    mod, cls = ALGOS[name][0], ALGOS[name][1]
    return getattr(importlib.import_module("pybrops.opt.algo." + mod), cls)


# --------------------------------------------------------------------------
# test problems: the evaluation functions are plain python loops over tables
# --------------------------------------------------------------------------

def _eval_subset(ring, x):
    """(F, G, H) of a subset decision, unweighted.  Defined for ANY vector x:
    entries that are not candidates, or that repeat an earlier entry, are
    counted in ``bad``; with ``trap`` every objective is lowered by 1000*bad so
    that an optimiser whose operators leave the decision space is *rewarded*
    and will return the infeasible point."""
    index = ring["index"]
    pos, seen, bad = [], set(), 0
    for v in x:
        v = int(v)
        p = index.get(v)
        if p is None or v in seen:
            bad += 1
        seen.add(v)
        if p is not None:
            pos.append(p)
    W, Q = ring["W"], ring["Q"]
    F = []
    for j in range(len(W)):
        s = 0.0
        for p in pos:
            s += W[j][p]
        if j == 0 and Q is not None:
            for a in range(len(pos)):
                for b in range(a + 1, len(pos)):
                    lo, hi = (pos[a], pos[b]) if pos[a] <= pos[b] else (pos[b], pos[a])
                    s += Q[lo][hi]
        if ring["trap"]:
            s -= 1000.0 * bad
        F.append(s)
    G = []
    for c in ring["ineq"]:
        s = 0.0
        for p in pos:
            s += c["c"][p]
        s -= c["cap"]
        G.append(s if c["raw"] else max(s, 0.0))
    H = []
    for e in ring["eq"]:
        s = 0.0
        for p in pos:
            s += e["e"][p]
        H.append(abs(s - e["t"]))
    return F, G, H


def _eval_vector(ring, x):
    """(F, G, H) of an integer / binary / real decision vector, unweighted.
    ``bad`` counts entries outside their bounds (and non-integral entries of
    integer / binary problems); with ``trap`` they are rewarded."""
    xs = [float(v) for v in x]
    lo, hi, kind = ring["lo"], ring["hi"], ring["kind"]
    bad = 0
    for i, v in enumerate(xs):
        if not (lo[i] <= v <= hi[i]):
            bad += 1
        elif kind != "real" and v != float(int(v)):
            bad += 1
    F = []
    for j in range(len(ring["T"])):
        s = 0.0
        for i, v in enumerate(xs):
            if ring["mode"] == "quad":
                s += (v - ring["T"][j][i]) * (v - ring["T"][j][i])
            else:
                s += ring["T"][j][i] * v
        if ring["trap"]:
            s -= 1000.0 * bad
        F.append(s)
    G = []
    for c in ring["ineq"]:
        s = 0.0
        for i, v in enumerate(xs):
            s += c["c"][i] * v
        s -= c["cap"]
        G.append(s if c["raw"] else max(s, 0.0))
    H = []
    for e in ring["eq"]:
        s = 0.0
        for i, v in enumerate(xs):
            s += e["e"][i] * v
        H.append(abs(s - e["t"]))
    return F, G, H


_CLS = {}


def _problem_class(kind):
    if kind in _CLS:
        return _CLS[kind]
    if kind == "subset":
        from pybrops.opt.prob.SubsetProblem import SubsetProblem as Base
        fn = _eval_subset
    elif kind == "integer":
        from pybrops.opt.prob.IntegerProblem import IntegerProblem as Base
        fn = _eval_vector
    elif kind == "binary":
        from pybrops.opt.prob.BinaryProblem import BinaryProblem as Base
        fn = _eval_vector
    else:
        from pybrops.opt.prob.RealProblem import RealProblem as Base
        fn = _eval_vector

    class RingProblem(Base):
        def __init__(self, ring, **kw):
            self._ring = ring
            self._ring_fn = fn
            super(RingProblem, self).__init__(**kw)

        def evalfn(self, x, *args, **kwargs):
            F, G, H = self._ring_fn(self._ring, x)
            return (self.obj_wt * numpy.array(F, dtype=float),
                    self.ineqcv_wt * numpy.array(G, dtype=float),
                    self.eqcv_wt * numpy.array(H, dtype=float))

    RingProblem.__name__ = "Ring%sProblem" % kind.capitalize()
    _CLS[kind] = RingProblem
    return RingProblem


def _wt(spec_wt, n):
    """weights as given in the spec: list -> array, number -> scalar, None"""
    if isinstance(spec_wt, list):
        return numpy.array(spec_wt, dtype=float)
    return spec_wt


def build_problem(kind, ps):
    """the real pybrops problem object of a problem spec (JSON-able dict)"""
    Cls = _problem_class(kind)
    nineq, neq = len(ps["ineq"]), len(ps["eq"])
    common = dict(
        nobj=ps["nobj"], obj_wt=_wt(ps["obj_wt"], ps["nobj"]),
        nineqcv=(nineq if (nineq or not ps.get("none_counts")) else None), ineqcv_wt=_wt(ps["ineq_wt"], nineq),
        neqcv=(neq if (neq or not ps.get("none_counts")) else None), eqcv_wt=_wt(ps["eq_wt"], neq),
    )
    if not ps.get("elementwise", True):
        common["elementwise"] = False
    if kind == "subset":
        labels = numpy.array(ps["labels"], dtype=ps.get("dtype", "int64"))
        k = ps["k"]
        ring = dict(index={int(v): i for i, v in enumerate(ps["labels"])}, W=ps["W"], Q=ps["Q"],
                    ineq=ps["ineq"], eq=ps["eq"], trap=ps["trap"])
        b = ps.get("bounds", "array")
        if b == "array":
            lo = numpy.repeat(labels.min(), k)
            hi = numpy.repeat(labels.max(), k)
        elif b == "scalar":
            lo, hi = int(labels.min()), int(labels.max())
        else:
            lo = hi = None
        return Cls(ring, ndecn=k, decn_space=labels, decn_space_lower=lo, decn_space_upper=hi, **common)
    dt = "float64" if kind == "real" else ps.get("dtype", "int64")
    lo = numpy.array(ps["lo"], dtype=dt)
    hi = numpy.array(ps["hi"], dtype=dt)
    ring = dict(lo=[float(v) for v in ps["lo"]], hi=[float(v) for v in ps["hi"]], kind=kind, T=ps["T"], mode=ps["mode"],
                ineq=ps["ineq"], eq=ps["eq"], trap=ps["trap"])
    if ps.get("bounds") == "scalar":     # all variables share one interval
        return Cls(ring, ndecn=len(ps["lo"]), decn_space=numpy.stack([lo, hi]),
                   decn_space_lower=lo[0].item(), decn_space_upper=hi[0].item(), **common)
    return Cls(ring, ndecn=len(ps["lo"]), decn_space=numpy.stack([lo, hi]),
               decn_space_lower=lo, decn_space_upper=hi, **common)


# --------------------------------------------------------------------------
# harness utilities
# --------------------------------------------------------------------------

@contextlib.contextmanager
def generator_state(seed):
    """fix the state of every generator the optimisers reach implicitly"""
    orig = numpy.random.default_rng
    count = [0]

    def seeded_default_rng(s=None):
        if s is None:
            count[0] += 1
            return orig([int(seed), count[0]])
        return orig(s)

    state = numpy.random.get_state()
    numpy.random.default_rng = seeded_default_rng
    numpy.random.seed(int(seed) % (2 ** 32))
    try:
        yield
    finally:
        numpy.random.default_rng = orig
        numpy.random.set_state(state)


class CaseTimeout(Exception):
    pass


@contextlib.contextmanager
def time_limit(seconds):
    """per-case guard in CPU seconds of this process (ITIMER_PROF), not wall-clock seconds: an optimiser that no longer stops burns
    CPU and is caught after the same amount of work on an idle and on a fully loaded machine, while a case that merely waits for a
    core is not.  (A hang that uses no CPU is left to the unit's own time limit.)"""
    def handler(signum, frame):
        raise CaseTimeout("no result after %d s (the optimiser did not stop)" % seconds)
    try:
        old = signal.signal(signal.SIGPROF, handler)
    except ValueError:          # not in the main thread: run without a limit
        yield
        return
    signal.setitimer(signal.ITIMER_PROF, float(seconds))
    try:
        yield
    finally:
        signal.setitimer(signal.ITIMER_PROF, 0)
        signal.signal(signal.SIGPROF, old)


_SCALARS = (int, float, bool, str, type(None), numpy.integer, numpy.floating, numpy.bool_)


def snapshot_problem(prob):
    """deep copy of every data attribute of the problem object (arrays, numbers,
    lists / dicts of them); operator objects and callables are left out"""
    out = {}
    for key, v in vars(prob).items():
        if isinstance(v, numpy.ndarray):
            out[key] = v.copy()
        elif isinstance(v, _SCALARS):
            out[key] = v
        elif isinstance(v, (list, tuple, dict)):
            try:
                out[key] = copy.deepcopy(v)
            except Exception:
                pass
    return out


def _same_value(a, b):
    if isinstance(a, numpy.ndarray) or isinstance(b, numpy.ndarray):
        if not (isinstance(a, numpy.ndarray) and isinstance(b, numpy.ndarray)):
            return False
        if a.dtype != b.dtype or a.shape != b.shape:
            return False
        if a.dtype.kind == "f":
            return bool(numpy.array_equal(a, b, equal_nan=True))
        return bool(numpy.array_equal(a, b))
    if type(a) is not type(b):
        return False
    return a == b


def diff_snapshot(before, prob):
    after = snapshot_problem(prob)
    out = []
    for key in sorted(set(before) | set(after)):
        if key not in after:
            out.append("%s removed" % key)
        elif key not in before:
            out.append("%s added" % key)
        elif not _same_value(before[key], after[key]):
            out.append("%s changed from %r to %r" % (key, _short(before[key]), _short(after[key])))
    return out


def _short(v):
    if isinstance(v, numpy.ndarray):
        return v.tolist()
    return v


# --------------------------------------------------------------------------
# the oracle
# --------------------------------------------------------------------------

def _exact_rows(reported, fresh):
    """reported (1-d array row) equals the freshly evaluated vector exactly"""
    fresh = numpy.asarray(fresh)
    if reported.shape != fresh.shape:
        return False
    for a, b in zip(reported.tolist(), fresh.tolist()):
        if not (a == b):
            return False
    return True


def check_decision(kind, ps, x):
    """clause D for one decision vector; returns None or a message"""
    vals = x.tolist()
    if kind == "subset":
        if x.dtype.kind not in "iu":
            return "subset decision has dtype %s, candidates are integers" % x.dtype
        if len(vals) != ps["k"]:
            return "subset has %d members, requested %d" % (len(vals), ps["k"])
        cand = set(int(v) for v in ps["labels"])
        for i, v in enumerate(vals):
            if v not in cand:
                return "member %r is not in the candidate set %r" % (v, ps["labels"])
            for w in vals[:i]:
                if w == v:
                    return "member %r occurs more than once in %r" % (v, vals)
        return None
    if len(vals) != len(ps["lo"]):
        return "decision has %d variables, problem has %d" % (len(vals), len(ps["lo"]))
    if kind == "real":
        if x.dtype.kind != "f":
            return "real decision has dtype %s" % x.dtype
    elif kind == "integer":
        if x.dtype.kind not in "iu":
            return "integer decision has dtype %s" % x.dtype
    else:
        if x.dtype.kind not in "biu":
            return "binary decision has dtype %s" % x.dtype
    for i, v in enumerate(vals):
        if v != v:
            return "variable %d is NaN" % i
        if not (ps["lo"][i] <= v <= ps["hi"][i]):
            return "variable %d = %r outside [%r, %r]" % (i, v, ps["lo"][i], ps["hi"][i])
        if kind == "binary" and v not in (0, 1, False, True):
            return "binary variable %d = %r" % (i, v)
    return None


def _dominates(a, b):
    le, lt = True, False
    for u, v in zip(a, b):
        if not (u <= v):
            le = False
        if u < v:
            lt = True
    return le and lt


def check_solution(kind, ps, prob, soln, single):
    """clauses D, T, N on a returned Solution object; list of (clause, message)"""
    out = []
    nobj, nineq, neq = ps["nobj"], len(ps["ineq"]), len(ps["eq"])
    X, F, G, H = soln.soln_decn, soln.soln_obj, soln.soln_ineqcv, soln.soln_eqcv
    for nm, arr in (("soln_decn", X), ("soln_obj", F), ("soln_ineqcv", G), ("soln_eqcv", H)):
        if not isinstance(arr, numpy.ndarray) or arr.ndim != 2:
            return [("T", "%s is not a 2-d array: %r" % (nm, arr))]
    ns = X.shape[0]
    if soln.nsoln != ns:
        out.append(("T", "nsoln = %r but %d decisions are stored" % (soln.nsoln, ns)))
    if single and ns != 1:
        out.append(("T", "single-objective optimiser returned %d solutions" % ns))
    if F.shape != (ns, nobj) or G.shape != (ns, nineq) or H.shape != (ns, neq):
        out.append(("T", "value arrays have shapes %r %r %r for %d solutions, nobj=%d nineqcv=%d neqcv=%d" % (
            F.shape, G.shape, H.shape, ns, nobj, nineq, neq)))
        return out
    for i in range(ns):
        m = check_decision(kind, ps, X[i])
        if m is not None:
            out.append(("D", "solution %d = %r: %s" % (i, X[i].tolist(), m)))
        f, g, h = prob.evalfn(X[i].copy())
        if not _exact_rows(F[i], f):
            out.append(("T", "solution %d = %r: reported objectives %r, fresh evaluation %r" % (
                i, X[i].tolist(), F[i].tolist(), numpy.asarray(f).tolist())))
        if not _exact_rows(G[i], g):
            out.append(("T", "solution %d = %r: reported inequality values %r, fresh evaluation %r" % (
                i, X[i].tolist(), G[i].tolist(), numpy.asarray(g).tolist())))
        if not _exact_rows(H[i], h):
            out.append(("T", "solution %d = %r: reported equality values %r, fresh evaluation %r" % (
                i, X[i].tolist(), H[i].tolist(), numpy.asarray(h).tolist())))
    if not single:
        rows = F.tolist()
        for i in range(ns):
            for j in range(ns):
                if i != j and _dominates(rows[i], rows[j]):
                    out.append(("N", "member %d %r (objectives %r) is dominated by member %d %r (objectives %r)" % (
                        j, X[j].tolist(), rows[j], i, X[i].tolist(), rows[i])))
                    break
            else:
                continue
            break
    return out


def _score(prob, x):
    """(total violation, objective) of a decision under a fresh evaluation"""
    f, g, h = prob.evalfn(numpy.array(x))
    tot = 0.0
    for v in numpy.asarray(g).tolist():
        tot += v
    for v in numpy.asarray(h).tolist():
        tot += v
    return (tot, float(numpy.asarray(f).tolist()[0]))


def check_local_optimum(ps, prob, x):
    """clause L: no single exchange is lexicographically better"""
    cur = _score(prob, x)
    members = [int(v) for v in x]
    outside = [int(v) for v in ps["labels"] if int(v) not in members]
    dt = numpy.asarray(x).dtype
    for i in range(len(members)):
        for c in outside:
            y = list(members)
            y[i] = c
            sc = _score(prob, numpy.array(y, dtype=dt))
            if sc[0] < cur[0] or (sc[0] == cur[0] and sc[1] < cur[1]):
                return ("returned %r has (violation, objective) = %r but exchanging member %r for %r gives %r" % (
                    members, cur, members[i], c, sc))
    return None


def brute_force_minimum(ps, prob):
    best, arg = None, None
    dt = prob.decn_space.dtype
    for comb in itertools.combinations(ps["labels"], ps["k"]):
        f = prob.evalfn(numpy.array(comb, dtype=dt))[0]
        v = float(numpy.asarray(f).tolist()[0])
        if best is None or v < best:
            best, arg = v, comb
    return best, arg


# --------------------------------------------------------------------------
# classification of failures (one cls per distinct defect)
# --------------------------------------------------------------------------

def _has_constraints(ps):
    return bool(ps["ineq"] or ps["eq"])


def _hc_steps(case):
    h = case.get("hyper", {})
    return case["prob"]["k"] if h.get("nhcstep") is None else h["nhcstep"]


def classify(case, clause, message, exc=None):
    """finding class of a failure: the pair (violated clause, optimiser) unless
    the failure lies in one of the input classes of a defect of the unchanged
    library that has been analysed (see KNOWN_CLS_DOC)"""
    algo, ps, kind = case["algo"], case["prob"], case["kind"]
    fam = ALGOS[algo][4] if algo in ALGOS else "op"
    if not ps.get("elementwise", True) and fam in ("ga", "memetic"):
        if exc is not None and "broadcast" in str(exc):
            return "problem-evaluate-2d-branch-multiplies-by-args"
        nvar = ps["k"] if kind == "subset" else len(ps["lo"])
        if clause == "T" and nvar == 1:     # a row of one variable times () is the empty vector
            return "problem-evaluate-2d-branch-multiplies-by-args"
    if exc is not None:
        if isinstance(exc, CaseTimeout):
            return "no-termination:%s" % algo
        text = "%s: %s" % (type(exc).__name__, exc)
        if fam in ("ga", "memetic") and _has_constraints(ps) and (
                "NoneType" in text or "'soln' must have dimension" in text):
            return "ga-result-none-when-no-feasible-member"
        if algo in ("MemeticStochastic", "MemeticMutatorA", "MemeticMutatorB") and kind == "subset" \
                and ps["k"] == len(ps["labels"]) and case["hyper"].get("phc", 0.1) > 0 \
                and isinstance(exc, (ZeroDivisionError, ValueError)):
            return "memetic-hillclimb-empty-complement"
        return "exception:%s:%s" % (algo, type(exc).__name__)
    if clause == "D" and kind == "integer" and fam == "ga" and max(abs(v) for v in ps["lo"] + ps["hi"]) > 2 ** 53:
        return "integer-operators-float64-rounding-beyond-2^53"
    if clause == "D" and "more than once" in message:
        if algo in ("MemeticMutatorA", "MemeticMutatorB") and _hc_steps(case) > len(ps["labels"]) - ps["k"] \
                and case["hyper"].get("phc", 0.1) > 0:
            return "mutatorAB-hillclimb-column-broadcast-duplicates"
        if algo == "SDHC" and case.get("_init_dup"):
            return "sdhc-initial-draw-with-replacement"
    return "%s:%s" % ({"D": "decision-space", "T": "truthful-values", "N": "non-domination", "U": "problem-modified",
                       "S": "sorting-optimum", "L": "exchange-local-optimum"}[clause], algo)


# --------------------------------------------------------------------------
# running one case
# --------------------------------------------------------------------------

def _make_rng(case):
    kind = case.get("rng", "RandomState")
    if kind == "Generator":
        return numpy.random.Generator(numpy.random.PCG64(case["seed"]))
    return numpy.random.RandomState(case["seed"])


def _make_algo(case):
    A = _algo_class(case["algo"])
    fam = ALGOS[case["algo"]][4]
    h = case.get("hyper", {})
    if fam == "sort":
        return A()
    if case["algo"] == "SDHC":
        return A(rng=_make_rng(case))
    if case["algo"] == "SortingSDHC":
        return A(rng=_make_rng(case)) if case.get("rng") else A()
    kw = dict(ngen=h["ngen"], pop_size=h["pop_size"], rng=_make_rng(case))
    if fam == "memetic":
        kw["phc"] = h["phc"]
        if case["algo"] != "MemeticSteepest":
            kw["nhcstep"] = h.get("nhcstep")
    if case["algo"] == "NSGA3Subset" and h.get("nrefpts") is not None:
        kw["nrefpts"] = h["nrefpts"]
    return A(**kw)


def findings_optimiser(case):
    """run one optimiser case on the real code; list of (clause, cls, message)"""
    case = dict(case)
    algo, kind, ps = case["algo"], case["kind"], case["prob"]
    single = ALGOS[algo][3] == "single"
    fam = ALGOS[algo][4]
    if algo == "SDHC":          # classifier only: did the generator's first draw repeat a candidate?
        first = _make_rng(case).choice(numpy.array(ps["labels"]), ps["k"]).tolist()
        case["_init_dup"] = len(set(first)) < len(first)
    out = []
    try:
        with generator_state(case["seed"]), time_limit(case.get("limit", 30)), \
                contextlib.redirect_stdout(io.StringIO()):       # pymoo prints advice about reference directions
            prob = build_problem(kind, ps)
            before = snapshot_problem(prob)
            opt = _make_algo(case)
            miscout = {} if case.get("miscout") else None
            soln = opt.minimize(prob, miscout=miscout)
    except Exception as e:
        msg = "exception %s: %s" % (type(e).__name__, e)
        return [("X", classify(case, "X", msg, exc=e), msg)]
    for clause, msg in check_solution(kind, ps, prob, soln, single):
        out.append((clause, classify(case, clause, msg), msg))
    for d in diff_snapshot(before, prob):
        out.append(("U", classify(case, "U", d), "problem object modified by minimize: " + d))
    feasible = not any(c == "D" for c, _, _ in out)
    shaped = not any(c == "T" and ("shapes" in m or "2-d" in m) for c, _, m in out)
    if fam == "sort" and case.get("optimum") and feasible and shaped:
        best, arg = brute_force_minimum(ps, prob)
        got = soln.soln_obj.tolist()[0][0]
        if not (got == best):
            m = "sorting optimiser returned %r with objective %r; brute force over all %d-subsets finds %r at %r" % (
                soln.soln_decn.tolist()[0], got, ps["k"], best, list(arg))
            out.append(("S", classify(case, "S", m), m))
    if fam == "hc" and feasible and shaped:
        m = check_local_optimum(ps, prob, soln.soln_decn[0])
        if m is not None:
            out.append(("L", classify(case, "L", m), m))
        if miscout is not None:
            sc = _score(prob, soln.soln_decn[0])
            if not (miscout.get("gbest_cv") == sc[0] and miscout.get("gbest_score") == sc[1]):
                m = "miscout reports (violation, score) = (%s, %s), fresh evaluation gives %r" % (
                    miscout.get("gbest_cv"), miscout.get("gbest_score"), sc)
                out.append(("T", classify(case, "T", m), m))
    return out


# -- operator level ---------------------------------------------------------

def findings_operator(case):
    """one variation operator of pymoo_addon, configured as the optimisers
    configure it, applied to individuals that lie in the decision space; the
    produced individuals must lie in the decision space too (any individual an
    operator produces is evaluated and may be returned as a solution)"""
    from pymoo.core.population import Population
    import pybrops.opt.algo.pymoo_addon as addon
    op, kind, ps = case["algo"], case["kind"], case["prob"]
    out = []
    try:
        with generator_state(case["seed"]), time_limit(60):
            prob = build_problem(kind, ps)
            before = snapshot_problem(prob)
            rs = numpy.random.default_rng(case["seed"])
            parents = None
            if op == "SubsetRandomSampling":
                res = addon.SubsetRandomSampling(setspace=prob.decn_space).do(prob, case["n_samples"], random_state=rs)
                Xo = res.get("X")
            else:
                dt = prob.decn_space.dtype if kind == "subset" else numpy.dtype(ps.get("dtype", "int64"))
                parents = numpy.array(case["X"], dtype=dt)
                pop = Population.new("X", parents.copy())
                if op == "ReducedExchangeCrossover":
                    o = addon.ReducedExchangeCrossover()
                    res = o.do(prob, pop, parents=numpy.array(case["pairs"], dtype=int), random_state=rs)
                elif op == "ReducedExchangeMutation":
                    o = addon.ReducedExchangeMutation(setspace=prob.decn_space)
                    res = o.do(prob, pop, inplace=True, random_state=rs)
                elif op == "IntegerSimulatedBinaryCrossover":
                    o = addon.IntegerSimulatedBinaryCrossover()
                    res = o.do(prob, pop, parents=numpy.array(case["pairs"], dtype=int), random_state=rs)
                elif op == "IntegerPolynomialMutation":
                    o = addon.IntegerPolynomialMutation()
                    res = o.do(prob, pop, inplace=True, random_state=rs)
                else:
                    raise KeyError(op)
                Xo = res.get("X")
                if "Crossover" in op and not _same_value(pop.get("X"), parents):
                    out.append(("U", "operator-modifies-parents:%s" % op,
                                "the parent chromosomes were modified: %r -> %r" % (parents.tolist(), pop.get("X").tolist())))
    except Exception as e:
        msg = "exception %s: %s" % (type(e).__name__, e)
        cls = "no-termination:%s" % op if isinstance(e, CaseTimeout) else "exception:%s:%s" % (op, type(e).__name__)
        return [("X", cls, msg)]
    Xo = numpy.asarray(Xo)
    if Xo.ndim != 2 or Xo.shape[1] != prob.n_var:
        return [("D", "decision-space:%s" % op, "operator output has shape %r" % (Xo.shape,))]
    if parents is not None and Xo.dtype != parents.dtype:
        out.append(("D", "decision-space:%s" % op, "operator output has dtype %s, input individuals have %s" % (
            Xo.dtype, parents.dtype)))
    if op == "SubsetRandomSampling" and Xo.dtype != prob.decn_space.dtype:
        out.append(("D", "decision-space:%s" % op, "sampled individuals have dtype %s, candidates have %s" % (
            Xo.dtype, prob.decn_space.dtype)))
    for i in range(Xo.shape[0]):
        m = check_decision(kind, ps, Xo[i])
        if m is not None:
            out.append(("D", "decision-space:%s" % op, "individual %d = %r: %s (input individuals %r)" % (
                i, Xo[i].tolist(), m, None if parents is None else parents.tolist())))
            break
    for d in diff_snapshot(before, prob):
        out.append(("U", "problem-modified:%s" % op, "problem object modified by the operator: " + d))
    return out


_WARM = set()


def findings(case):
    """findings of one case.  The first run of a code path in a process imports
    modules lazily (pymoo, scipy.stats) and some of those imports draw from the
    global numpy stream *after* it was seeded, so the first run of a case would
    differ from every later run.  Each (optimiser, problem layout) is therefore
    executed once, unobserved, before the first observed run."""
    fn = findings_operator if case.get("fam") == "op" else findings_optimiser
    ps = case["prob"]
    key = (case["algo"], case["kind"], ps["nobj"], bool(ps["ineq"]), bool(ps["eq"]), ps.get("elementwise", True))
    if key not in _WARM:
        _WARM.add(key)
        try:
            fn(dict(case, limit=10))
        except Exception:
            pass
    return fn(case)


def run_case(case):
    """execute ONE case on the real code; (violated, message)"""
    fs = findings(case)
    if not fs:
        return False, "all clauses hold"
    return True, " | ".join("[%s] %s" % (cls, msg) for _, cls, msg in fs)


def _replay(case):
    try:
        return run_case(case)
    except Exception as e:
        return True, "exception %s: %s" % (type(e).__name__, e)


# --------------------------------------------------------------------------
# case generators
# --------------------------------------------------------------------------

VSTYLES = ("int", "ties", "equal", "neg", "dyadic", "distinct")


def _vals(rnd, n, style):
    if style == "ties":
        return [float(rnd.choice([0, 1])) for _ in range(n)]
    if style == "equal":
        return [float(rnd.randint(-3, 3))] * n
    if style == "neg":
        return [float(rnd.randint(-9, 0)) for _ in range(n)]
    if style == "dyadic":
        return [rnd.randint(-20, 20) / 4.0 for _ in range(n)]
    if style == "distinct":
        return [float(v) for v in rnd.sample(range(-12, 13), n)]
    return [float(rnd.randint(-9, 9)) for _ in range(n)]


def _labels(rnd, n, style):
    if style == "arange":
        return list(range(n))
    if style == "sorted":
        return sorted(rnd.sample(range(-6, 40), n))
    return rnd.sample(range(-6, 40), n)          # unsorted, with gaps, possibly negative


def _constraints(rnd, n, k, cons):
    """constraint tables of a subset problem.
    free      : small integer tables and caps, totals tie often (hill-climbers)
    feasible  : every subset satisfies every constraint; inequality values are
                reported raw (<= 0, varied), equality values are tiny (< 1e-4, varied)
    mixed     : some subsets feasible, some not
    infeasible: no subset satisfies the inequality"""
    ineq, eq = [], []
    if cons == "none":
        return ineq, eq
    if cons.startswith("free"):
        ni, ne = int(cons[4]), int(cons[5])
        for _ in range(ni):
            ineq.append(dict(c=[float(rnd.choice([0, 0, 1, 2])) for _ in range(n)], cap=float(rnd.randint(0, max(k - 1, 0))),
                             raw=False))
        for _ in range(ne):
            eq.append(dict(e=[float(rnd.choice([0, 1, 1, 2])) for _ in range(n)], t=float(rnd.randint(0, k + 1))))
        return ineq, eq
    c = [float(rnd.randint(0, 3)) for _ in range(n)]
    srt = sorted(c)
    if cons == "feasible":
        ineq.append(dict(c=c, cap=float(sum(srt[n - k:])), raw=True))
        if rnd.random() < 0.5:
            ineq.append(dict(c=[float(rnd.randint(0, 2)) for _ in range(n)], cap=float(2 * k), raw=True))
        eq.append(dict(e=[rnd.randint(0, 2) * 2.0 ** -18 for _ in range(n)], t=0.0))
    elif cons == "mixed":
        ineq.append(dict(c=c, cap=float(sum(srt[:k]) + rnd.randint(0, 2)), raw=bool(rnd.random() < 0.5)))
    elif cons == "infeasible":
        ineq.append(dict(c=c, cap=float(sum(srt[:k]) - 1), raw=bool(rnd.random() < 0.5)))
    else:
        raise KeyError(cons)
    return ineq, eq


def _weights(rnd, m, style):
    """objective / constraint weights: None (default 1), a number, or a list"""
    if m == 0:
        return rnd.choice([None, []])
    if style == "none":
        return None
    if style == "scalar":
        return rnd.choice([1.0, 2.0, -1.0])
    return [rnd.choice([1.0, 1.0, -1.0, 2.0, 0.5]) for _ in range(m)]


def subset_spec(rnd, n, k, nobj=1, cons="none", inter=False, trap=False, lstyle=None, vstyle=None, dtype="int64",
                bounds=None, positive_cwt=False):
    lstyle = lstyle or rnd.choice(["arange", "sorted", "shuffled"])
    vstyle = vstyle or rnd.choice(VSTYLES)
    W = [_vals(rnd, n, vstyle if j == 0 else rnd.choice(VSTYLES)) for j in range(nobj)]
    Q = None
    if inter:
        Q = [[float(rnd.randint(-3, 3)) if a < b else 0.0 for b in range(n)] for a in range(n)]
    ineq, eq = _constraints(rnd, n, k, cons)
    wstyle = rnd.choice(["none", "scalar", "list", "list"])
    obj_wt = _weights(rnd, nobj, wstyle)
    if positive_cwt:
        iw = [rnd.choice([1.0, 2.0, 0.5]) for _ in ineq] if ineq and rnd.random() < 0.5 else (None if rnd.random() < 0.5 else 1.0)
        ew = [rnd.choice([1.0, 2.0, 0.5]) for _ in eq] if eq and rnd.random() < 0.5 else (None if rnd.random() < 0.5 else 1.0)
        if not ineq and isinstance(iw, float):
            iw = None
        if not eq and isinstance(ew, float):
            ew = None
    else:
        iw, ew = None, None
    return dict(labels=_labels(rnd, n, lstyle), dtype=dtype, k=k, nobj=nobj, W=W, Q=Q, obj_wt=obj_wt,
                ineq=ineq, ineq_wt=iw, eq=eq, eq_wt=ew, trap=trap,
                bounds=bounds or rnd.choice(["array", "array", "scalar", "none"]),
                none_counts=bool(rnd.random() < 0.3))


def vector_spec(rnd, kind, k, nobj=1, cons="none", trap=False, bounds=None):
    if kind == "binary":
        lo, hi = [0] * k, [1] * k
    elif kind == "integer":
        if bounds == "scalar":
            a = rnd.randint(-3, 2)
            b = a + rnd.randint(1, 5)
            lo, hi = [a] * k, [b] * k
        else:
            lo = [rnd.randint(-4, 3) for _ in range(k)]
            hi = [v + rnd.choice([1, 1, 2, 3, 6]) for v in lo]
    else:
        if bounds == "scalar":
            a = rnd.randint(-8, 4) / 4.0
            b = a + rnd.randint(1, 12) / 4.0
            lo, hi = [a] * k, [b] * k
        else:
            lo = [rnd.randint(-8, 4) / 4.0 for _ in range(k)]
            hi = [v + rnd.randint(1, 12) / 4.0 for v in lo]
    mode = rnd.choice(["quad", "lin"])
    if mode == "quad":
        T = [[lo[i] + (hi[i] - lo[i]) * rnd.choice([0.0, 0.25, 0.5, 1.0, 1.5, -0.5]) for i in range(k)] for _ in range(nobj)]
    else:
        T = [[float(rnd.randint(-3, 3)) for _ in range(k)] for _ in range(nobj)]
    ineq, eq = [], []
    c = [float(rnd.randint(0, 3)) for _ in range(k)]
    smin = sum(c[i] * lo[i] for i in range(k))
    smax = sum(c[i] * hi[i] for i in range(k))
    if cons == "feasible":
        ineq.append(dict(c=c, cap=float(smax), raw=True))
        eq.append(dict(e=[rnd.randint(0, 2) * 2.0 ** -20 for _ in range(k)], t=0.0))
    elif cons == "mixed":
        ineq.append(dict(c=c, cap=float(smin + (smax - smin) * rnd.choice([0.25, 0.5, 0.75])), raw=bool(rnd.random() < 0.5)))
    elif cons == "infeasible":
        ineq.append(dict(c=c, cap=float(smin - 1), raw=bool(rnd.random() < 0.5)))
    wstyle = rnd.choice(["none", "scalar", "list", "list"])
    return dict(lo=lo, hi=hi, nobj=nobj, T=T, mode=mode, obj_wt=_weights(rnd, nobj, wstyle), ineq=ineq, ineq_wt=None,
                eq=eq, eq_wt=None, trap=trap, bounds=bounds or "array", none_counts=bool(rnd.random() < 0.3))


def _sizes(nmax):
    return [(n, k) for n in range(1, nmax + 1) for k in range(1, n + 1)]


# -- unit 1: sorting ----------------------------------------------------------

def gen_sorting(rnd, tier):
    reps = 12 if tier == "quick" else 120
    nmax = 7 if tier == "quick" else 9
    for n, k in _sizes(nmax):
        for r in range(reps if n <= 7 else 6):
            # separable, unconstrained: optimum clause applies
            vstyle = VSTYLES[r % len(VSTYLES)]
            ps = subset_spec(rnd, n, k, vstyle=vstyle, dtype=rnd.choice(["int64", "int64", "int32", "int8"]))
            yield dict(fam="sort", algo="Sorting", kind="subset", prob=ps, seed=rnd.randrange(10 ** 6), optimum=True,
                       miscout=bool(r % 2))
        for r in range(max(reps // 3, 2)):
            # not separable (pair interactions) and / or constrained: clauses D, T, U only
            ps = subset_spec(rnd, n, k, inter=bool(r % 2 == 0), cons=rnd.choice(["none", "free11", "free20", "mixed"]) if r else "free11",
                             positive_cwt=True)
            yield dict(fam="sort", algo="Sorting", kind="subset", prob=ps, seed=rnd.randrange(10 ** 6), optimum=False,
                       miscout=False)


# -- unit 2: hill-climbers ------------------------------------------------------

HC_CONS = ("none", "free10", "free20", "free11", "free22", "free02", "mixed", "infeasible")


def gen_hillclimb(rnd, tier, algo):
    reps = 3 if tier == "quick" else 40
    nmax = 7 if tier == "quick" else 8
    for n, k in _sizes(nmax):
        for cons in HC_CONS:
            for r in range(reps):
                ps = subset_spec(rnd, n, k, cons=cons, inter=bool(rnd.random() < 0.5), positive_cwt=True,
                                 vstyle=rnd.choice(["int", "ties", "equal", "dyadic"]),
                                 dtype=rnd.choice(["int64", "int64", "int32"]))
                for c in ps["ineq"]:
                    c["raw"] = False          # violation values (>= 0): "total violation" is their plain sum
                case = dict(fam="hc", algo=algo, kind="subset", prob=ps, seed=rnd.randrange(10 ** 6),
                            miscout=bool(rnd.random() < 0.5), limit=10)
                if algo == "SDHC":
                    case["rng"] = rnd.choice(["RandomState", "Generator"])
                yield case


# -- units 3-5: genetic algorithms ------------------------------------------------

GA_SIZES = [(1, 1), (2, 1), (2, 2), (3, 2), (4, 3), (5, 1), (5, 5), (6, 3), (7, 2), (7, 5)]
POPS = [1, 2, 3, 4, 6, 8, 10]


def _hyper(rnd, nobj, algo):
    h = dict(ngen=rnd.randint(1, 3), pop_size=rnd.choice(POPS))
    if algo == "NSGA3Subset":
        if nobj == 3:            # das-dennis reference directions exist only for triangular numbers of points
            h["pop_size"] = rnd.choice([3, 6, 10])
        h["nrefpts"] = None if rnd.random() < 0.6 else (rnd.choice([3, 6, 10]) if nobj == 3 else rnd.randint(2, 10))
    return h


def gen_ga(rnd, tier, algos, multi):
    reps = 3 if tier == "quick" else 40
    for algo in algos:
        kind = ALGOS[algo][2]
        for r in range(reps):
            for cons in ("none", "feasible", "mixed"):
                if kind == "subset":
                    for n, k in GA_SIZES:
                        nobj = 1 if not multi else (2 if rnd.random() < 0.75 else 3)
                        ps = subset_spec(rnd, n, k, nobj=nobj, cons=cons, inter=bool(rnd.random() < 0.5),
                                         trap=bool(rnd.random() < 0.7), dtype=rnd.choice(["int64", "int64", "int32", "int8"]))
                        yield dict(fam="ga", algo=algo, kind=kind, prob=ps, seed=rnd.randrange(10 ** 6),
                                   hyper=_hyper(rnd, nobj, algo), rng=rnd.choice(["RandomState", "Generator"]),
                                   miscout=bool(rnd.random() < 0.3), branch="main")
                else:
                    for k in (1, 2, 3, 5):
                        for bounds in ("array", "scalar"):
                            nobj = 1 if not multi else (2 if rnd.random() < 0.75 else 3)
                            ps = vector_spec(rnd, kind, k, nobj=nobj, cons=cons, trap=bool(rnd.random() < 0.7), bounds=bounds)
                            yield dict(fam="ga", algo=algo, kind=kind, prob=ps, seed=rnd.randrange(10 ** 6),
                                       hyper=_hyper(rnd, nobj, algo), rng=rnd.choice(["RandomState", "Generator"]),
                                       miscout=False, branch="main")
    # separate branches: input classes in which the unchanged library is known to fail
    for algo in algos:
        kind = ALGOS[algo][2]
        for r in range(1 if tier == "quick" else 3):
            nobj = 1 if not multi else 2
            if kind == "subset":
                n, k = rnd.choice([(4, 2), (6, 3), (5, 1)])
                ps = subset_spec(rnd, n, k, nobj=nobj, cons="infeasible")
            else:
                ps = vector_spec(rnd, kind, rnd.choice([1, 3]), nobj=nobj, cons="infeasible")
            yield dict(fam="ga", algo=algo, kind=kind, prob=ps, seed=rnd.randrange(10 ** 6),
                       hyper=_hyper(rnd, nobj, algo), rng="RandomState", miscout=False, branch="infeasible")
            # vectorised evaluation requested by the problem (elementwise = False)
            if kind == "subset":
                n, k = rnd.choice([(5, 1), (5, 2), (6, 3)]) if r else (5, 1)
                ps = subset_spec(rnd, n, k, nobj=nobj, vstyle="distinct")
            else:
                ps = vector_spec(rnd, kind, 1 if r == 0 else 3, nobj=nobj)
            ps["elementwise"] = False
            yield dict(fam="ga", algo=algo, kind=kind, prob=ps, seed=rnd.randrange(10 ** 6),
                       hyper=dict(_hyper(rnd, nobj, algo), pop_size=6), rng="RandomState", miscout=False, branch="vectorised")
            # integer bounds that binary64 cannot represent (the integer operators compute in floating point)
            if kind == "integer":
                ps = vector_spec(rnd, kind, 2, nobj=nobj, trap=True)
                base = 2 ** 53 + 1 + 2 * rnd.randint(0, 3)
                ps["lo"], ps["hi"] = [base, base], [base + 4, base + 4]
                ps["mode"], ps["T"] = "lin", [[1.0, 1.0] for _ in range(nobj)]
                yield dict(fam="ga", algo=algo, kind=kind, prob=ps, seed=rnd.randrange(10 ** 6),
                           hyper=dict(ngen=3, pop_size=8), rng="RandomState", miscout=False, branch="huge")


MEMETIC = ("MemeticSteepest", "MemeticStochastic", "MemeticMutatorA", "MemeticMutatorB")


def gen_memetic(rnd, tier):
    reps = 3 if tier == "quick" else 30
    for algo in MEMETIC:
        for r in range(reps):
            for cons in ("none", "feasible", "mixed"):
                for n, k in GA_SIZES:
                    if k == n and algo != "MemeticSteepest":
                        continue                      # -> branch "full"
                    if 2 * k > n and algo in ("MemeticMutatorA", "MemeticMutatorB"):
                        continue                      # -> branch "crowded"
                    nobj = 2 if rnd.random() < 0.75 else 3
                    ps = subset_spec(rnd, n, k, nobj=nobj, cons=cons, inter=bool(rnd.random() < 0.5),
                                     trap=bool(rnd.random() < 0.7), dtype=rnd.choice(["int64", "int64", "int32"]))
                    h = _hyper(rnd, nobj, algo)
                    h["phc"] = rnd.choice([0.0, 0.1, 0.5, 1.0, 1.0])
                    if algo != "MemeticSteepest":
                        # more hill-climb steps than free candidates is the input class of a known defect (branch "crowded")
                        h["nhcstep"] = None if rnd.random() < 0.5 else rnd.randint(1, max(n - k, 1))
                    yield dict(fam="ga", algo=algo, kind="subset", prob=ps, seed=rnd.randrange(10 ** 6), hyper=h,
                               rng="RandomState", miscout=False, branch="main")
    for algo in MEMETIC:
        for r in range(1 if tier == "quick" else 3):
            ps = subset_spec(rnd, 5, 2, nobj=2, cons="infeasible")
            h = dict(ngen=2, pop_size=6, phc=0.5, nhcstep=None)
            yield dict(fam="ga", algo=algo, kind="subset", prob=ps, seed=rnd.randrange(10 ** 6), hyper=h,
                       rng="RandomState", miscout=False, branch="infeasible")
            if algo != "MemeticSteepest":
                n = rnd.choice([1, 2, 3])
                ps = subset_spec(rnd, n, n, nobj=2)
                yield dict(fam="ga", algo=algo, kind="subset", prob=ps, seed=rnd.randrange(10 ** 6),
                           hyper=dict(ngen=2, pop_size=4, phc=1.0, nhcstep=None), rng="RandomState", miscout=False,
                           branch="full")
            if algo in ("MemeticMutatorA", "MemeticMutatorB"):
                n, k = rnd.choice([(4, 3), (5, 3), (7, 5)])
                ps = subset_spec(rnd, n, k, nobj=2, trap=False)
                yield dict(fam="ga", algo=algo, kind="subset", prob=ps, seed=rnd.randrange(10 ** 6),
                           hyper=dict(ngen=3, pop_size=8, phc=1.0, nhcstep=None), rng="RandomState", miscout=False,
                           branch="crowded")


# -- unit 6: operators ---------------------------------------------------------------

def _random_subsets(rnd, labels, k, m):
    return [rnd.sample(labels, k) for _ in range(m)]


def gen_operators(rnd, tier):
    reps = 6 if tier == "quick" else 60
    for n, k in _sizes(7):
        for r in range(reps):
            ps = subset_spec(rnd, n, k, dtype=rnd.choice(["int64", "int32", "int8"]))
            labels = ps["labels"]
            yield dict(fam="op", algo="SubsetRandomSampling", kind="subset", prob=ps, seed=rnd.randrange(10 ** 6),
                       n_samples=rnd.choice([1, 2, 7, 12]))
            # parents: random subsets plus structured pairs (identical, permuted, differing in one member, disjoint)
            X = _random_subsets(rnd, labels, k, 4)
            a = rnd.sample(labels, k)
            X.append(list(a))
            X.append(list(reversed(a)))
            if n > k:
                b = list(a)
                b[rnd.randrange(k)] = rnd.choice([v for v in labels if v not in a])
                X.append(b)
            if n >= 2 * k:
                rest = [v for v in labels if v not in a]
                X.append(rnd.sample(rest, k))
            m = len(X)
            pairs = [[i, j] for i in range(m) for j in range(m) if i != j]
            rnd.shuffle(pairs)
            pairs = pairs[:12] + [[4, 5], [4, 4]]
            yield dict(fam="op", algo="ReducedExchangeCrossover", kind="subset", prob=ps, seed=rnd.randrange(10 ** 6),
                       X=X, pairs=pairs)
            yield dict(fam="op", algo="ReducedExchangeMutation", kind="subset", prob=ps, seed=rnd.randrange(10 ** 6), X=X)
    for k in (1, 2, 3, 5, 8):
        for r in range(reps * 3):
            ps = vector_spec(rnd, "integer", k, bounds=rnd.choice(["array", "scalar"]))
            ps["dtype"] = rnd.choice(["int64", "int64", "int32", "int16", "int8"])
            m = rnd.choice([2, 4, 9])
            X = [[rnd.choice([ps["lo"][i], ps["hi"][i], rnd.randint(ps["lo"][i], ps["hi"][i])]) for i in range(k)] for _ in range(m)]
            pairs = [[rnd.randrange(m), rnd.randrange(m)] for _ in range(8)]
            yield dict(fam="op", algo="IntegerSimulatedBinaryCrossover", kind="integer", prob=ps, seed=rnd.randrange(10 ** 6),
                       X=X, pairs=pairs)
            yield dict(fam="op", algo="IntegerPolynomialMutation", kind="integer", prob=ps, seed=rnd.randrange(10 ** 6), X=X)


# --------------------------------------------------------------------------
# units
# --------------------------------------------------------------------------

def _key(case):
    return repr(sorted(case.items(), key=str))


def iter_findings(cases):
    """(case, findings) of every case.  When two runs of one optimiser have hit
    the time limit its remaining cases are skipped (a non-terminating optimiser
    would otherwise consume the limit once per case)."""
    timeouts = {}
    for case in cases:
        if timeouts.get(case["algo"], 0) >= 2:
            continue
        try:
            fs = findings(case)
        except Exception as e:      # a failure of the harness itself must not pass silently
            fs = [("X", "harness-exception:%s" % type(e).__name__, "exception %s: %s" % (type(e).__name__, e))]
        if any(cls.startswith("no-termination") for _, cls, _ in fs):
            timeouts[case["algo"]] = timeouts.get(case["algo"], 0) + 1
        yield case, fs


def _drive(ctx, cases, sample_of):
    per_cls = {}
    for case, fs in iter_findings(cases):
        ctx.case(key=_key(case), nontrivial=True, sample=sample_of(case))
        for clause, cls, msg in fs:
            per_cls[cls] = per_cls.get(cls, 0) + 1
            if per_cls[cls] <= 3:
                ctx.fail_input("ring:%s:%s" % (case["algo"], clause), case, cls=cls, message=msg)
        if len(per_cls) >= 12:
            break


def _sample_subset(case):
    ps = case["prob"]
    if case["kind"] == "subset":
        return dict(algo=case["algo"], n=len(ps["labels"]), k=ps["k"], nobj=ps["nobj"], nineqcv=len(ps["ineq"]),
                    neqcv=len(ps["eq"]), hyper=case.get("hyper"), seed=case["seed"])
    return dict(algo=case["algo"], lo=ps["lo"], hi=ps["hi"], nobj=ps["nobj"], nineqcv=len(ps["ineq"]), neqcv=len(ps["eq"]),
                hyper=case.get("hyper"), seed=case["seed"])


U_SORT = "ring[sorting optimiser: brute-force optimum of separable problems, truthful values]"
U_SDHC = "ring[steepest-descent hill-climber: feasible, truthful, exchange-local optimum]"
U_SSDHC = "ring[sorting steepest-descent hill-climber: feasible, truthful, exchange-local optimum]"
U_GA = "ring[single-objective GA, subset/integer/binary/real: feasible, truthful, problem unchanged]"
U_NSGA = "ring[NSGA-II subset/integer/binary/real and NSGA-III subset: feasible, truthful, non-dominated]"
U_MEM = "ring[memetic NSGA-II subset, four mutation schemes: feasible, truthful, non-dominated]"
U_OPS = "ring[pymoo_addon variation operators keep individuals in the decision space]"

@unit(P, U_SORT, "R", bounded=True,
      note="bounded: every (n,k) with 1<=k<=n<=7 (thorough n<=9), 8 (thorough 53) seeded problems each: integer/dyadic "
           "member values with ties, all-equal, negative; weights None/scalar/list incl. negative; shuffled non-contiguous "
           "labels of dtype int8/32/64; non-separable and constrained problems for the truthfulness clause")
def u_ring_sorting(ctx):
    ctx.rule = ("all subset sizes of all candidate-set sizes up to the bound; per size seeded tables (VERIF_SEED); the optimum "
                "clause is checked against enumeration of all C(n,k) subsets; a case is distinct by its full input")
    _drive(ctx, gen_sorting(ctx.rng, ctx.tier), _sample_subset)


@unit(P, U_SDHC, "R", bounded=True,
      note="bounded: every (n,k) with 1<=k<=n<=7 (thorough 8), 8 constraint layouts (0-2 inequality and 0-2 equality "
           "components, tied totals, infeasible), RandomState and Generator, 1 (thorough 6) seeded problem per cell")
def u_ring_sdhc(ctx):
    ctx.rule = ("all sizes x constraint layouts, seeded tables and generator seeds; every exchange neighbour of the returned "
                "subset is re-evaluated; small integer data make totals tie; distinct by full input")
    _drive(ctx, gen_hillclimb(ctx.rng, ctx.tier, "SDHC"), _sample_subset)


@unit(P, U_SSDHC, "R", bounded=True,
      note="bounded: every (n,k) with 1<=k<=n<=7 (thorough 8), 8 constraint layouts, 1 (thorough 6) seeded problem per cell")
def u_ring_ssdhc(ctx):
    ctx.rule = ("all sizes x constraint layouts, seeded tables; every exchange neighbour of the returned subset is "
                "re-evaluated; distinct by full input")
    _drive(ctx, gen_hillclimb(ctx.rng, ctx.tier, "SortingSDHC"), _sample_subset)


@unit(P, U_GA, "R", bounded=True,
      note="bounded: ngen<=3, pop_size in {1,2,3,4,6,8,10}; subsets (n,k) in 10 sizes incl. k=n, k=1, n=1; vectors of 1,2,3,5 "
           "variables; unconstrained / always-feasible / partly feasible / infeasible; 1 (thorough 8) seeded case per cell")
def u_ring_ga(ctx):
    ctx.rule = ("optimiser x size x constraint class, seeded tables, hyper-parameters and generator state; objectives reward "
                "leaving the decision space (trap) so that an infeasible individual would be returned; distinct by full input")
    _drive(ctx, gen_ga(ctx.rng, ctx.tier, ["SubsetGA", "IntegerGA", "BinaryGA", "RealGA"], False), _sample_subset)


@unit(P, U_NSGA, "R", bounded=True,
      note="bounded: ngen<=3, pop_size<=10, 2 or 3 objectives; sizes and constraint classes as for the single-objective GA; "
           "1 (thorough 8) seeded case per cell")
def u_ring_nsga(ctx):
    ctx.rule = ("optimiser x size x constraint class, seeded; all pairs of returned members are compared for Pareto "
                "dominance on freshly verified objective vectors; distinct by full input")
    _drive(ctx, gen_ga(ctx.rng, ctx.tier, ["NSGA2Subset", "NSGA2Integer", "NSGA2Binary", "NSGA2Real", "NSGA3Subset"], True),
           _sample_subset)


@unit(P, U_MEM, "R", bounded=True,
      note="bounded: ngen<=3, pop_size<=10, phc in {0,0.1,0.5,1}, nhcstep None or <= n-k, 2 or 3 objectives, 10 sizes; "
           "separate branches for k=n, for more hill-climb steps than free candidates, and for infeasible problems")
def u_ring_memetic(ctx):
    ctx.rule = ("four memetic optimisers x size x constraint class, seeded; distinct by full input")
    _drive(ctx, gen_memetic(ctx.rng, ctx.tier), _sample_subset)


@unit(P, U_OPS, "R", bounded=True,
      note="bounded: subsets of every (n,k), n<=7, <=8 parents incl. identical / permuted / one-off / disjoint pairs; integer "
           "vectors of 1-8 variables, dtypes int8-int64, parents on the bounds; 2 (thorough 12) seeded cases per cell")
def u_ring_operators(ctx):
    ctx.rule = ("SubsetRandomSampling, ReducedExchangeCrossover, ReducedExchangeMutation, IntegerSimulatedBinaryCrossover, "
                "IntegerPolynomialMutation applied through their public do() to feasible parents; distinct by full input")
    _drive(ctx, gen_operators(ctx.rng, ctx.tier),
           lambda c: dict(op=c["algo"], kind=c["kind"], seed=c["seed"], parents=c.get("X")))


REPLAYERS = {name: _replay for name in (U_SORT, U_SDHC, U_SSDHC, U_GA, U_NSGA, U_MEM, U_OPS)}


KNOWN_CLS_DOC = {
    "sdhc-initial-draw-with-replacement":
        "SteepestDescentSubsetHillClimber draws its start with rng.choice(decn_space, ndecn) (with replacement); a repeated "
        "candidate can survive to the returned subset",
    "ga-result-none-when-no-feasible-member":
        "all pymoo based optimisers: pymoo returns res.X = None when the final population has no feasible member; the "
        "wrappers then raise instead of returning a solution",
    "memetic-hillclimb-empty-complement":
        "Stochastic / MutatorA / MutatorB memetic optimisers divide by or sample from the number of free candidates, which "
        "is 0 when ndecn == len(decn_space)",
    "mutatorAB-hillclimb-column-broadcast-duplicates":
        "MutatorA/B.hillclimb assigns Xhc[:,lociix] = alleles[alleleix] to all rows; when there are fewer free candidates "
        "than hill-climb steps the tiled allele choice repeats and the individual gets a repeated member",
    "problem-evaluate-2d-branch-multiplies-by-args":
        "Problem._evaluate: self.evalfn(v *args, **kwargs) multiplies the row by the empty args tuple",
}
