"""C20 -- native bounded ring (mode R) for the recurrent-selection breeding-program loop.

The real ``RecurrentSelectionBreedingProgram`` (reset / advance / evolve, imported from
$PYBROPS_REPO) is driven with *instrumented* operator and logbook classes (subclasses of the
abstract operator interfaces).  Every operator records what it received (the five container
objects themselves, the time index, the logbook replicate number, a deep value snapshot),
MUTATES the received containers in place (several depths) and returns containers according to
a scripted return mode (new / same / swapped / mixed / copies).

The oracle is written from the property statement, not from the code:

  for every replicate r = 1..nrep (logbook rep counter = rep0 + number of replicates so far)
     evaluate(t=0) on a state EQUAL (deep value comparison against a twin that the library
                   never saw) to the initial state, sharing no mutable object with it
     [log_initialize]           (iff loginit)
     for every generation g = 1..ngen:   pselect, log, mate, log, evaluate, log, sselect, log
                                 all with time index g, each operator receiving -- by object
                                 identity and slot -- what its predecessor returned
  nothing else is called; the stored start containers are the same objects as before and are
  deep-equal to the twin at the end.

Multi-step histories: several evolve() calls on one program, stale working state before the
first call, advance() continued after evolve(), and bare reset()+advance().
"""
import contextlib
import copy
import io
import random

import numpy

from pyvc.unit import unit

P = "C20"
SLOTS = ("genome", "geno", "pheno", "bval", "gmod")


# --------------------------------------------------------------------------------------
# small value universe for the state containers
# --------------------------------------------------------------------------------------
class Box:
    """a user object nested in a container (deep-copied attribute-wise)"""

    def __init__(self, **kw):
        self.__dict__.update(kw)


def _is_obj(o):
    return hasattr(o, "__dict__") and not isinstance(o, (type, numpy.ndarray)) and not callable(o)


def freeze(o, stack=()):
    """canonical deep VALUE of an object (independent of object identity); cycles are
    encoded by their distance on the current path"""
    i = id(o)
    if i in stack:
        return ("cycle", len(stack) - stack.index(i))
    if o is None or isinstance(o, (bool, int, str, bytes)):
        return (type(o).__name__, o)
    if isinstance(o, float):
        return ("float", repr(o))
    if isinstance(o, numpy.generic):
        return ("npscalar", str(o.dtype), o.tobytes())
    st = stack + (i,)
    if isinstance(o, numpy.ndarray):
        if o.dtype == object:
            return ("ndobj", o.shape, tuple(freeze(x, st) for x in o.ravel().tolist()))
        return ("nd", str(o.dtype), o.shape, o.tobytes())
    if isinstance(o, dict):
        items = sorted(o.items(), key=lambda kv: repr(kv[0]))
        return ("dict", tuple((freeze(k, st), freeze(v, st)) for k, v in items))
    if isinstance(o, (list, tuple)):
        return (type(o).__name__, tuple(freeze(x, st) for x in o))
    if isinstance(o, (set, frozenset)):
        return (type(o).__name__, tuple(sorted((freeze(x, st) for x in o), key=repr)))
    if isinstance(o, bytearray):
        return ("bytearray", bytes(o))
    if _is_obj(o):
        return ("obj", type(o).__module__ + "." + type(o).__qualname__, freeze(vars(o), st))
    return ("repr", repr(o))


def mutables(roots):
    """every mutable object reachable from `roots` (id -> object)"""
    seen, out, todo = set(), {}, list(roots)
    while todo:
        o = todo.pop()
        if id(o) in seen:
            continue
        seen.add(id(o))
        if isinstance(o, numpy.ndarray):
            out[id(o)] = o
            if o.dtype == object:
                todo.extend(o.ravel().tolist())
        elif isinstance(o, dict):
            out[id(o)] = o
            todo.extend(o.keys())
            todo.extend(o.values())
        elif isinstance(o, (list, set, bytearray)):
            out[id(o)] = o
            if not isinstance(o, bytearray):
                todo.extend(o)
        elif isinstance(o, (tuple, frozenset)):
            todo.extend(o)
        elif _is_obj(o):
            out[id(o)] = o
            todo.extend(vars(o).values())
    return out


def _mutate_one(o, tag):
    if isinstance(o, numpy.ndarray):
        if o.size == 0 or not o.flags.writeable:
            return
        k = o.dtype.kind
        if k in "iu":
            o.flat[0] = o.flat[0] ^ 1
        elif k == "f":
            o.flat[0] = 54321.0 if o.flat[0] == 12345.0 else 12345.0   # stays a valid scale/variance
        elif k == "b":
            o.flat[0] = not o.flat[0]
        elif k == "O":
            o.flat[0] = "MUT%d" % tag
        elif k in "US":
            o.flat[0] = "~"
    elif isinstance(o, dict):
        keys = [k for k in o if not (isinstance(k, str) and k.startswith("__mut"))]
        if keys and tag % 2 == 0:
            del o[sorted(keys, key=repr)[0]]
        o["__mut%d" % tag] = tag
    elif isinstance(o, list):
        o.append(("MUT", tag))
    elif isinstance(o, set):
        o.add(("MUT", tag))
    elif isinstance(o, bytearray):
        o.append(tag % 256)
    elif _is_obj(o):
        setattr(o, "mut_attr_%d" % tag, tag)


def mutate(conts, mode, tag):
    """in-place mutation of the containers an operator received"""
    if mode == "none":
        return
    if mode == "shallow":
        for c in conts:
            _mutate_one(c, tag)
    elif mode == "clear":
        for c in conts:
            c.clear()
            c["__mut%d" % tag] = tag
    elif mode == "deep":
        for o in list(mutables(conts).values()):
            _mutate_one(o, tag)
    else:
        raise ValueError(mode)


def _rand_value(rnd, depth, pool, alias):
    if alias and pool and rnd.random() < 0.25:
        return rnd.choice(pool)
    k = rnd.randrange(13 if depth < 3 else 8)
    if k == 0:
        return rnd.choice([None, True, 0, -3, 2 ** 70, 1.5, float("nan"), float("inf"), "txt", b"by", ""])
    if k == 1:
        return (rnd.randrange(5), "t", (1.0, None))
    if k == 2:
        shape = rnd.choice([(0,), (1,), (3,), (2, 3), (), (2, 0, 2)])
        dt = rnd.choice(["int8", "int64", "float64", "bool", "uint16", "float32"])
        n = int(numpy.prod(shape)) if shape else 1
        a = numpy.array([rnd.randrange(-100, 127) for _ in range(n)], dtype="int64").astype(dt).reshape(shape)
        if dt.startswith("float") and n and rnd.random() < 0.3:
            a.flat[rnd.randrange(n)] = numpy.nan
        v = a
    elif k == 3:
        v = numpy.array(["a%d" % rnd.randrange(9) for _ in range(rnd.randrange(4))], dtype=rnd.choice([object, "U3"]))
    elif k == 4:
        v = numpy.float64(rnd.randrange(100) / 7.0)
        return v
    elif k == 5:
        v = bytearray(rnd.randrange(256) for _ in range(rnd.randrange(3)))
    elif k == 6:
        v = {rnd.randrange(50), "s", (1, 2)}
    elif k == 7:
        return rnd.randrange(-10 ** 6, 10 ** 6)
    elif k == 8:
        v = [_rand_value(rnd, depth + 1, pool, alias) for _ in range(rnd.randrange(4))]
    elif k == 9:
        v = {rnd.choice(["a", "b", "c", 1, 2, (0, 1)]): _rand_value(rnd, depth + 1, pool, alias)
             for _ in range(rnd.randrange(4))}
    elif k == 10:
        v = Box(x=_rand_value(rnd, depth + 1, pool, alias), y=rnd.randrange(9))
    elif k == 11:
        # elements of an object array never alias older objects: a reference CYCLE through a numpy object
        # array is copied by numpy's own ndarray.__deepcopy__ with one extra unrolling (numpy does not memoise
        # the array before its elements), which is equal only up to unfolding -- a numpy matter, excluded
        a = numpy.empty(2, dtype=object)
        a[0] = _rand_value(rnd, depth + 1, [], False)
        a[1] = [_rand_value(rnd, depth + 1, [], False)]
        v = a
    else:
        v = (Box(z=[rnd.randrange(9)]), [rnd.randrange(9)])
        return v
    pool.append(v)
    return v


def _pybrops_objects(rnd):
    from pyvc.ring import coded_founders
    from pybrops.popgen.bvmat.DenseBreedingValueMatrix import DenseBreedingValueMatrix
    n, p = rnd.randrange(1, 5), rnd.randrange(1, 6)
    pg = coded_founders(n, p, [rnd.choice([0.0, 0.5, 0.1]) for _ in range(p)])
    bv = DenseBreedingValueMatrix(
        mat=numpy.array([[rnd.randrange(-9, 9) / 4.0 for _ in range(2)] for _ in range(n)], dtype=float),
        location=numpy.array([1.0, -2.0]), scale=numpy.array([1.0, 0.5]),
        taxa=numpy.array(["P%03d" % i for i in range(n)], dtype=object),
        taxa_grp=numpy.arange(n, dtype="int64"), trait=numpy.array(["y", "z"], dtype=object))
    return pg, bv


def build_state(seed, kind):
    """the five start containers; deterministic in (seed, kind) so that an untouched TWIN
    can be rebuilt as the oracle's reference"""
    rnd = random.Random("C20-%s-%d" % (kind, seed))
    if kind == "empty":
        return tuple({} for _ in SLOTS)
    if kind == "flat":
        return tuple({"slot": s, "n": rnd.randrange(100), "f": 0.5 * i, "none": None, "tup": (i, s)}
                     for i, s in enumerate(SLOTS))
    if kind in ("nested", "alias"):
        alias = kind == "alias"
        pool = []
        out = []
        for s in SLOTS:
            d = {}
            if rnd.random() < 0.8:
                d["slot"] = s
            for j in range(rnd.randrange(4)):
                d[rnd.choice(["cand", "main", "queue", "k%d" % j, j])] = _rand_value(rnd, 0, pool, alias)
            out.append(d)
            if alias:
                pool.append(d)
        if alias:
            r = rnd.random()
            if r < 0.25:       # a container that contains itself (directly and through a list)
                d = rnd.choice(out)
                d["self"] = d
                d["selfl"] = [d, (d,)]
            elif r < 0.5:      # one container nested in another one
                out[rnd.randrange(5)]["other"] = out[rnd.randrange(5)]
            elif r < 0.65:     # the very same dict object serves as all five start containers
                out = [out[0]] * 5
            elif r < 0.8:      # two slots share one dict object
                out[3] = out[1]
        return tuple(out)
    if kind == "pybrops":
        pg, bv = _pybrops_objects(rnd)
        pg2, bv2 = _pybrops_objects(rnd)
        genome = {"cand": pg, "main": pg2, "queue": [pg2]}
        geno = {"cand": pg, "main": pg2, "queue": [pg]}          # shares objects with genome
        pheno = {"cand": None, "main": {"tbl": [[1.0, "P000"], [2.5, "P001"]]}}
        bval = {"cand": bv, "cand_true": bv2, "main": bv2}
        gmod = {"cand": Box(beta=numpy.array([[1.0, 2.0]]), u=numpy.arange(6.0).reshape(3, 2)), "true": Box(u=None)}
        return (genome, geno, pheno, bval, gmod)
    raise ValueError(kind)


# --------------------------------------------------------------------------------------
# instrumented operators / logbook (subclasses of the abstract interfaces; built lazily)
# --------------------------------------------------------------------------------------
class Env:
    def __init__(self, case):
        self.case = case
        self.trace = []
        self.counter = 0
        self.lbook = None
        self.prog = None
        self.init_calls = 0
        self.init_returned = None
        self.keep = []


_CLS = {}


def _classes():
    if _CLS:
        return _CLS
    from pybrops.breed.op.init.InitializationOperator import InitializationOperator
    from pybrops.breed.op.psel.ParentSelectionOperator import ParentSelectionOperator
    from pybrops.breed.op.mate.MatingOperator import MatingOperator
    from pybrops.breed.op.eval.EvaluationOperator import EvaluationOperator
    from pybrops.breed.op.ssel.SurvivorSelectionOperator import SurvivorSelectionOperator
    from pybrops.breed.op.log.Logbook import Logbook

    def start_objects(env):
        prog = env.prog
        return [getattr(prog, "_start_" + s, None) for s in SLOTS]

    def op_event(env, kind, conts, t_cur, t_max, miscout, mcfg=None):
        n = env.counter
        env.counter += 1
        conts = tuple(conts)
        starts = [c for c in start_objects(env) if c is not None]
        mine = mutables(conts)
        theirs = mutables(starts)
        ev = dict(kind=kind, n=n, cont=conts, mcfg=mcfg, t_cur=t_cur, t_max=t_max, rep=env.lbook._rep,
                  frozen=tuple(freeze(c) if isinstance(c, dict) else ("notdict", repr(c)) for c in conts),
                  shared=sorted(type(mine[i]).__name__ for i in mine if i in theirs),
                  misc_is_dict=isinstance(miscout, dict))
        env.trace.append(ev)
        env.keep.append((conts, mcfg, miscout))
        if isinstance(miscout, dict):
            miscout["note"] = n
            miscout["who"] = kind
        # in-place mutation of what was received
        mutate([c for c in conts if isinstance(c, dict)], env.case["mut"], n)
        # containers handed back
        mode = env.case["ret"]
        if mode == "new":
            ret = tuple({"by": kind, "n": n, "slot": s, "a": numpy.array([n, i])} for i, s in enumerate(SLOTS))
        elif mode == "same":
            ret = conts
        elif mode == "swap":
            ret = (conts[4],) + conts[:4]
        elif mode == "mixed":
            ret = tuple(conts[i] if (n + i) % 2 == 0 else {"by": kind, "n": n, "slot": s}
                        for i, s in enumerate(SLOTS))
        elif mode == "copy":
            ret = tuple(copy.deepcopy(c) for c in conts)
        else:
            raise ValueError(mode)
        ev["ret"] = ret
        env.keep.append(ret)
        return ev, ret

    class InitOp(InitializationOperator):
        def __init__(self, env):
            self.env = env

        def initialize(self, miscout=None, **kwargs):
            env = self.env
            env.init_calls += 1
            st = build_state(env.case["seed"], env.case["state"])
            env.init_returned = st
            env.trace.append(dict(kind="initialize", n=-1))
            return st

    class PselOp(ParentSelectionOperator):
        def __init__(self, env):
            self.env = env

        def pselect(self, genome, geno, pheno, bval, gmod, t_cur, t_max, miscout=None, **kwargs):
            ev, ret = op_event(self.env, "pselect", (genome, geno, pheno, bval, gmod), t_cur, t_max, miscout)
            mcfg = {"mcfg_of": ev["n"]}
            ev["ret_mcfg"] = mcfg
            self.env.keep.append(mcfg)
            return (mcfg,) + ret

    class MateOp(MatingOperator):
        def __init__(self, env):
            self.env = env

        def mate(self, mcfg, genome, geno, pheno, bval, gmod, t_cur, t_max, miscout=None, **kwargs):
            ev, ret = op_event(self.env, "mate", (genome, geno, pheno, bval, gmod), t_cur, t_max, miscout, mcfg=mcfg)
            if isinstance(mcfg, dict) and self.env.case["mut"] != "none":
                mcfg["__mut"] = ev["n"]
            return ret

    class EvalOp(EvaluationOperator):
        def __init__(self, env):
            self.env = env

        def evaluate(self, genome, geno, pheno, bval, gmod, t_cur, t_max, miscout=None, **kwargs):
            ev, ret = op_event(self.env, "evaluate", (genome, geno, pheno, bval, gmod), t_cur, t_max, miscout)
            return ret

    class SselOp(SurvivorSelectionOperator):
        def __init__(self, env):
            self.env = env

        def sselect(self, genome, geno, pheno, bval, gmod, t_cur, t_max, miscout=None, **kwargs):
            ev, ret = op_event(self.env, "sselect", (genome, geno, pheno, bval, gmod), t_cur, t_max, miscout)
            return ret

    class Book(Logbook):
        def __init__(self, env, rep0):
            self.env = env
            self._rep = rep0
            self._data = {}
            self.rep_sets = []

        @property
        def data(self):
            return self._data

        @data.setter
        def data(self, value):
            self._data = value

        @property
        def rep(self):
            return self._rep

        @rep.setter
        def rep(self, value):
            self.rep_sets.append(value)
            self._rep = value

        def _log(self, kind, genome, geno, pheno, bval, gmod, t_cur, t_max, mcfg, kwargs):
            env = self.env
            conts = (genome, geno, pheno, bval, gmod)
            env.trace.append(dict(kind=kind, n=None, cont=conts, mcfg=mcfg, t_cur=t_cur, t_max=t_max,
                                  rep=self._rep, kwargs=dict(kwargs)))
            env.keep.append(conts)
            if env.case.get("logmut"):
                for c in conts:
                    if isinstance(c, dict):
                        c["__log%d" % len(env.trace)] = kind

        def log_initialize(self, genome, geno, pheno, bval, gmod, t_cur, t_max, **kwargs):
            self._log("log_initialize", genome, geno, pheno, bval, gmod, t_cur, t_max, None, kwargs)

        def log_pselect(self, mcfg, genome, geno, pheno, bval, gmod, t_cur, t_max, **kwargs):
            self._log("log_pselect", genome, geno, pheno, bval, gmod, t_cur, t_max, mcfg, kwargs)

        def log_mate(self, genome, geno, pheno, bval, gmod, t_cur, t_max, **kwargs):
            self._log("log_mate", genome, geno, pheno, bval, gmod, t_cur, t_max, kwargs.get("mcfg"), kwargs)

        def log_evaluate(self, genome, geno, pheno, bval, gmod, t_cur, t_max, **kwargs):
            self._log("log_evaluate", genome, geno, pheno, bval, gmod, t_cur, t_max, None, kwargs)

        def log_sselect(self, genome, geno, pheno, bval, gmod, t_cur, t_max, **kwargs):
            self._log("log_sselect", genome, geno, pheno, bval, gmod, t_cur, t_max, None, kwargs)

        def reset(self):
            self._data = {}
            self._rep = 0

        def write(self, filename):
            pass

    _CLS.update(InitOp=InitOp, PselOp=PselOp, MateOp=MateOp, EvalOp=EvalOp, SselOp=SselOp, Book=Book)
    return _CLS


# --------------------------------------------------------------------------------------
# the oracle
# --------------------------------------------------------------------------------------
class _Bad(Exception):
    def __init__(self, cls, msg):
        Exception.__init__(self, msg)
        self.cls, self.msg = cls, msg


class _Oracle:
    """walks the recorded trace against the sequence the property statement prescribes"""

    def __init__(self, env, init_frozen, t_max, rep0):
        self.trace = [e for e in env.trace if e["kind"] != "initialize"]
        self.pos = 0
        self.init_frozen = init_frozen
        self.t_max = t_max
        self.rep = rep0
        self.cur = None          # containers returned by the latest operator
        self.mcfg = None
        self.t_next = None       # time index of the next cycle
        self.where = ""

    def _next(self, kind):
        if self.pos >= len(self.trace):
            raise _Bad("c20-call-sequence", "%s: expected a call of %s but the run made no further call (calls made: %s)"
                       % (self.where, kind, self._kinds()))
        ev = self.trace[self.pos]
        self.pos += 1
        if ev["kind"] != kind:
            raise _Bad("c20-call-sequence", "%s: expected call #%d to be %s, got %s (calls made: %s)"
                       % (self.where, self.pos, kind, ev["kind"], self._kinds()))
        if ev["rep"] != self.rep:
            raise _Bad("c20-rep-counter", "%s: %s ran with logbook rep %r, expected %r" % (self.where, kind, ev["rep"], self.rep))
        return ev

    def _kinds(self):
        ks = [e["kind"] for e in self.trace]
        return ks if len(ks) <= 40 else ks[:40] + ["... %d more" % (len(ks) - 40)]

    def _time(self, ev, t):
        if type(ev["t_cur"]) is not int or ev["t_cur"] != t:
            raise _Bad("c20-time-index", "%s: %s received t_cur=%r, expected %r" % (self.where, ev["kind"], ev["t_cur"], t))
        if ev["t_max"] != self.t_max:
            raise _Bad("c20-tmax-passthrough", "%s: %s received t_max=%r, expected %r" % (self.where, ev["kind"], ev["t_max"], self.t_max))

    def _handoff(self, ev):
        for i, s in enumerate(SLOTS):
            if ev["cont"][i] is not self.cur[i]:
                which = [SLOTS[j] for j in range(5) if ev["cont"][i] is self.cur[j]]
                raise _Bad("c20-state-handoff", "%s: %s received as '%s' an object that is not the '%s' container returned by "
                           "its predecessor (it is %s)" % (self.where, ev["kind"], s, s,
                                                          ("the predecessor's '%s'" % which[0]) if which else "some other object"))

    def _fresh_start(self, ev):
        """ev is the first operator call after a reset: its input must equal the initial state"""
        for i, s in enumerate(SLOTS):
            if ev["frozen"][i] != self.init_frozen[i]:
                raise _Bad("c20-replicate-start-state", "%s: %s received a '%s' container that differs from the initial one: "
                           "got %s, initial %s" % (self.where, ev["kind"], s, _short(ev["frozen"][i]), _short(self.init_frozen[i])))
        if ev["shared"]:
            raise _Bad("c20-start-state-shared", "%s: the freshly reset working state shares mutable objects %s with the stored "
                       "start containers (an operator mutating its input in place would modify the initial state)"
                       % (self.where, ev["shared"][:5]))

    def _log(self, kind, t, op_ev, with_mcfg=False):
        ev = self._next(kind)
        self._time(ev, t)
        self._handoff(ev)
        if with_mcfg and ev["mcfg"] is not self.mcfg:
            raise _Bad("c20-state-handoff", "%s: %s did not receive the mating configuration returned by pselect" % (self.where, kind))
        if op_ev["misc_is_dict"]:
            kw = ev["kwargs"]
            if kw.get("note") != op_ev["n"] or kw.get("who") != op_ev["kind"]:
                raise _Bad("c20-log-misc", "%s: %s did not receive the miscellaneous output of the step it follows (got %r)"
                           % (self.where, kind, {k: kw[k] for k in kw if k in ("note", "who")}))

    def cycle(self, t):
        ev = self._next("pselect")
        self._time(ev, t)
        self._handoff(ev)
        self.cur, self.mcfg = ev["ret"], ev["ret_mcfg"]
        self._log("log_pselect", t, ev, with_mcfg=True)
        ev = self._next("mate")
        self._time(ev, t)
        self._handoff(ev)
        if ev["mcfg"] is not self.mcfg:
            raise _Bad("c20-state-handoff", "%s: mate did not receive the mating configuration returned by pselect" % self.where)
        self.cur = ev["ret"]
        self._log("log_mate", t, ev)
        ev = self._next("evaluate")
        self._time(ev, t)
        self._handoff(ev)
        self.cur = ev["ret"]
        self._log("log_evaluate", t, ev)
        ev = self._next("sselect")
        self._time(ev, t)
        self._handoff(ev)
        self.cur = ev["ret"]
        self._log("log_sselect", t, ev)

    def evolve(self, k, nrep, ngen, loginit):
        for r in range(1, nrep + 1):
            self.rep += 1
            self.where = "evolve#%d rep %d/%d start" % (k, r, nrep)
            ev = self._next("evaluate")
            self._time(ev, 0)
            self._fresh_start(ev)
            self.cur = ev["ret"]
            if loginit:
                self._log("log_initialize", 0, ev)
            for g in range(1, ngen + 1):
                self.where = "evolve#%d rep %d/%d gen %d/%d" % (k, r, nrep, g, ngen)
                self.cycle(g)
            self.t_next = ngen + 1

    def advance(self, n, after_reset):
        for g in range(n):
            self.where = "advance gen %d/%d%s" % (g + 1, n, " after reset()" if after_reset else "")
            if after_reset and g == 0:
                # first operator after a bare reset(): value-equal to the initial state, time 0
                if self.pos < len(self.trace) and self.trace[self.pos]["kind"] == "pselect":
                    ev = self.trace[self.pos]
                    self._fresh_start(ev)
                    self.cur = ev["cont"]
                self.t_next = 0
            self.cycle(self.t_next)
            self.t_next += 1

    def finish(self):
        if self.pos != len(self.trace):
            raise _Bad("c20-call-sequence", "after the prescribed sequence %d further call(s) were made: %s (all calls: %s)"
                       % (len(self.trace) - self.pos, [e["kind"] for e in self.trace[self.pos:self.pos + 8]], self._kinds()))


def _short(x, n=300):
    s = repr(x)
    return s if len(s) <= n else s[:n] + "..."


# --------------------------------------------------------------------------------------
# one case
# --------------------------------------------------------------------------------------
def _run(case):
    """returns (violated, cls, message)"""
    from pybrops.breed.arch.RecurrentSelectionBreedingProgram import RecurrentSelectionBreedingProgram
    C = _classes()
    env = Env(case)
    seed, kind, init = case["seed"], case["state"], case["init"]
    t_max, rep0 = case["t_max"], case["rep0"]
    runs = [tuple(r) for r in case["runs"]]
    extra = case.get("extra_adv", 0)

    twin = build_state(seed, kind)                      # never handed to the library
    init_frozen = tuple(freeze(c) for c in twin)
    given = None
    kw = {}
    if init == "ctor":
        given = build_state(seed, kind)
        kw = {"start_" + s: given[i] for i, s in enumerate(SLOTS)}
    elif init == "partial":
        other = build_state(seed + 7919, kind if kind != "empty" else "flat")
        mask = case.get("partial_mask", 5) % 31   # never all five
        kw = {"start_" + s: other[i] for i, s in enumerate(SLOTS) if (mask >> i) & 1}
    elif init != "initop":
        raise ValueError(init)

    lbook = C["Book"](env, rep0)
    env.lbook = lbook
    prog = RecurrentSelectionBreedingProgram(
        initop=C["InitOp"](env), pselop=C["PselOp"](env), mateop=C["MateOp"](env),
        evalop=C["EvalOp"](env), sselop=C["SselOp"](env), t_max=t_max, **kw)
    env.prog = prog

    if case.get("stale"):
        # left-overs of an earlier use of the program object
        prog.genome, prog.geno, prog.pheno, prog.bval, prog.gmod = ({"stale": i} for i in range(5))
        prog.t_cur = case["stale"]

    out = io.StringIO()
    try:
        with contextlib.redirect_stdout(out):
            for (nrep, ngen, loginit) in runs:
                if case.get("verbose"):
                    prog.evolve(nrep, ngen, lbook, loginit=bool(loginit), verbose=True)
                elif loginit == 2:
                    prog.evolve(nrep, ngen, lbook)             # default loginit
                else:
                    prog.evolve(nrep=nrep, ngen=ngen, lbook=lbook, loginit=bool(loginit))
            total_rep = sum(r[0] for r in runs)
            after_reset = False
            if extra:
                if total_rep == 0:
                    prog.reset()
                    after_reset = True
                prog.advance(extra, lbook)
    except Exception as e:
        import traceback
        tb = traceback.extract_tb(e.__traceback__)
        return True, "c20-exception-%s" % type(e).__name__, "exception %s: %s (at %s) after calls %s" % (
            type(e).__name__, e, "%s:%d" % (tb[-1].filename.split("/")[-1], tb[-1].lineno) if tb else "?",
            [x["kind"] for x in env.trace][-12:])

    try:
        # -- initialisation happens iff needed, before anything else
        if init == "ctor":
            if env.init_calls != 0:
                raise _Bad("c20-initialize-count", "program constructed with all five start containers, yet "
                           "initop.initialize was called %d time(s)" % env.init_calls)
        elif runs:
            if env.init_calls != 1:
                raise _Bad("c20-initialize-count", "uninitialised program: initop.initialize called %d times over %d "
                           "evolve() calls, expected exactly once" % (env.init_calls, len(runs)))
            if env.trace[0]["kind"] != "initialize":
                raise _Bad("c20-call-sequence", "initop.initialize was not the first call (first: %s)" % env.trace[0]["kind"])
            given = env.init_returned

        # -- the prescribed sequence
        orc = _Oracle(env, init_frozen, t_max, rep0)
        for k, (nrep, ngen, loginit) in enumerate(runs):
            orc.evolve(k + 1, nrep, ngen, bool(loginit))
        if extra:
            orc.advance(extra, after_reset)
        orc.finish()

        # -- rep counter
        if lbook._rep != rep0 + total_rep:
            raise _Bad("c20-rep-counter", "logbook rep is %r after %d replicate(s) starting from %r" % (lbook._rep, total_rep, rep0))
        if lbook.rep_sets != [rep0 + i for i in range(1, total_rep + 1)]:
            raise _Bad("c20-rep-counter", "logbook rep was set to %r, expected one increment per replicate from %r"
                       % (lbook.rep_sets[:12], rep0))

        # -- the stored initial state is never modified
        for i, s in enumerate(SLOTS):
            now = getattr(prog, "start_" + s)
            if not isinstance(now, dict):
                raise _Bad("c20-start-state-modified", "start_%s is %r after the run" % (s, now))
            fz = freeze(now)      # value comparison against the twin the library never saw
            if fz != init_frozen[i]:
                raise _Bad("c20-start-state-modified", "start_%s was modified: now %s, initially %s"
                           % (s, _short(fz), _short(init_frozen[i])))
        if case.get("verbose") and total_rep and not out.getvalue():
            raise _Bad("c20-verbose-silent", "verbose=True printed nothing")
    except _Bad as b:
        return True, b.cls, b.msg
    return False, "", "ok (%d calls)" % len(env.trace)


def run_case(case):
    bad, cls, msg = _run(case)
    return bad, ("[%s] %s" % (cls, msg)) if bad else msg


def _replay(case):
    try:
        return run_case(case)
    except Exception as e:
        return True, "exception %s: %s" % (type(e).__name__, e)


# --------------------------------------------------------------------------------------
# generators
# --------------------------------------------------------------------------------------
KINDS = ("empty", "flat", "nested", "alias", "pybrops")
MUTS = ("none", "shallow", "clear", "deep")
RETS = ("new", "same", "swap", "mixed", "copy")
INITS = ("ctor", "initop", "partial")


def _base(**kw):
    c = dict(seed=0, state="nested", init="ctor", t_max=20, rep0=0, runs=[[2, 2, 1]], extra_adv=0,
             mut="deep", ret="new", stale=0, verbose=False, logmut=False, partial_mask=5)
    c.update(kw)
    return c


def gen_grid(rng, tier):
    """exhaustive nrep x ngen in 0..4 x loginit x init mode x operator behaviour"""
    seeds = 1 if tier == "quick" else 6
    n = 0
    for sd in range(seeds):
        for nrep in range(5):
            for ngen in range(5):
                for loginit in (0, 1):
                    for init in INITS:
                        for mut in MUTS:
                            for ret in RETS:
                                n += 1
                                kind = ("flat", "nested", "alias", "nested")[n % 4] if sd == 0 else ("nested", "alias")[n % 2]
                                yield _base(seed=sd * 100000 + n, state=kind, init=init, runs=[[nrep, ngen, loginit]],
                                            mut=mut, ret=ret, t_max=ngen + (n % 3) - 1, rep0=(n % 4) * 3 - 3,
                                            partial_mask=1 + (n % 30))


def gen_history(rng, tier):
    """seeded random multi-step histories"""
    total = 1800 if tier == "quick" else 24000
    for j in range(total):
        seed = rng.randrange(10 ** 9)
        nruns = rng.choice([0, 1, 1, 2, 2, 3])
        init = rng.choice(INITS) if nruns else "ctor"
        runs = [[rng.randrange(5), rng.randrange(5), rng.choice([0, 1, 2])] for _ in range(nruns)]
        yield _base(seed=seed, state=rng.choice(KINDS[:4]), init=init, runs=runs,
                    extra_adv=rng.choice([0, 0, 1, 2, 4]) if nruns else rng.randrange(1, 5),
                    mut=rng.choice(MUTS), ret=rng.choice(RETS),
                    t_max=rng.choice([0, 1, 3, 10, -1, 2 ** 40]), rep0=rng.choice([0, 0, 1, 7, -2]),
                    stale=rng.choice([0, 0, 5, -3]), verbose=rng.random() < 0.1, logmut=rng.random() < 0.3,
                    partial_mask=rng.randrange(0, 31))


def gen_pybrops(rng, tier):
    """start containers holding real pybrops matrices (their own __deepcopy__ is on the path)"""
    total = 150 if tier == "quick" else 3000
    for j in range(total):
        nruns = rng.choice([1, 1, 2])
        yield _base(seed=rng.randrange(10 ** 9), state="pybrops", init=rng.choice(INITS),
                    runs=[[rng.randrange(5), rng.randrange(5), rng.choice([0, 1])] for _ in range(nruns)],
                    extra_adv=rng.choice([0, 1, 2]), mut=rng.choice(["deep", "deep", "shallow", "clear"]),
                    ret=rng.choice(RETS), t_max=rng.randrange(0, 9), rep0=rng.choice([0, 3]),
                    stale=rng.choice([0, 2]), logmut=rng.random() < 0.3, partial_mask=rng.randrange(0, 31))


def _nontrivial(case):
    return sum(r[0] for r in case["runs"]) > 0 or case.get("extra_adv", 0) > 0


def _drive(ctx, gen):
    per_cls = {}
    for case in gen(ctx.rng, ctx.tier):
        try:
            bad, cls, msg = _run(case)
        except Exception as e:   # harness-side crash while driving the real code on a valid input
            bad, cls, msg = True, "c20-exception-%s" % type(e).__name__, "exception %s: %s" % (type(e).__name__, e)
        ctx.case(key=repr(sorted(case.items(), key=str)), nontrivial=_nontrivial(case),
                 sample=dict(runs=case["runs"], init=case["init"], state=case["state"], mut=case["mut"], ret=case["ret"],
                             extra_adv=case["extra_adv"]))
        if bad:
            per_cls[cls] = per_cls.get(cls, 0) + 1
            if per_cls[cls] <= 3:
                ctx.fail_input("ring:%s" % cls, case, cls=cls, message=msg)
            if len(ctx.failures) >= 9:
                break


U_GRID = "ring[evolve grid nrep,ngen in 0..4 x instrumented mutating operators]"
U_HIST = "ring[histories: repeated evolve, stale state, advance continuation, reset+advance]"
U_PYB = "ring[start containers holding real pybrops matrices]"


@unit(P, U_GRID, "R", bounded=True,
      note="bounded: nrep,ngen in 0..4 exhaustive x loginit x {ctor,initop,partial} initialisation x 4 mutation depths x "
           "5 return modes; start states of <=5 keys, nesting depth <=4; 1 (quick) / 6 (thorough) state seeds per cell")
def u_ring_grid(ctx):
    ctx.rule = ("full product nrep x ngen x loginit x init mode x in-place mutation depth x return mode; start state rebuilt "
                "from the case seed (flat / nested / aliased+cyclic); non-trivial iff at least one replicate runs")
    _drive(ctx, gen_grid)


@unit(P, U_HIST, "R", bounded=True,
      note="bounded: 0..3 evolve() calls with nrep,ngen in 0..4, <=4 extra advance() generations, seeded random states "
           "(quick 1800 / thorough 24000 cases)")
def u_ring_hist(ctx):
    ctx.rule = ("seeded random histories on one program object: 0-3 evolve calls (loginit False/True/default), stale working "
                "state and t_cur before the first call, advance() continued after evolve, bare reset()+advance(), logbook "
                "that mutates too, verbose branch; non-trivial iff any operator runs")
    _drive(ctx, gen_history)


@unit(P, U_PYB, "R", bounded=True,
      note="bounded: DensePhasedGenotypeMatrix (<=4 taxa, <=5 loci) and DenseBreedingValueMatrix objects shared between the "
           "start containers; nrep,ngen in 0..4; quick 150 / thorough 3000 cases")
def u_ring_pyb(ctx):
    ctx.rule = ("seeded random evolve histories whose start containers hold real pybrops matrix objects (aliased between "
                "genome and geno); operators mutate the matrices' arrays in place; non-trivial iff any operator runs")
    _drive(ctx, gen_pybrops)


REPLAYERS = {U_GRID: _replay, U_HIST: _replay, U_PYB: _replay}
