"""C18 -- native bounded rings (mode R) for the haplotype-block property.

Every ring runs the REAL functions of $PYBROPS_REPO:

* ``pybrops.core.util.haplo``: nhaploblk_chrom, haplobin, haplobin_bounds, haplomat
* ``OptimalHaploidValueSelectionProblemMixin._calc_haplomat/_calc_xmap/_calc_ohvmat``, the four OHV problem classes
  (``from_pgmat_gpmod``, ``latentfn``) and the four OHV protocols' ``problem()``
* ``OptimalPopulationValueSubsetSelectionProblem`` (``_calc_haplomat``, ``latentfn``)
* ``GenotypeBuilderSubsetSelectionProblem`` (``_calc_haplomat``, ``latentfn``)

and evaluates oracles written from the property statement with plain Python loops over the genotypes and effects
(never over the library's own intermediate arrays, except where stated).

Uninitialised output: ``numpy.empty`` is replaced, for the duration of a call of the real code, by a wrapper that
returns the same freshly allocated array filled with NaN (floats) or a negative sentinel (integers).  A correct
program writes every element it later reads, so this changes nothing for correct code and makes the reading of
never-written memory deterministic (rule 4) instead of depending on what the allocator hands back.

Classes of failing input (``cls``).  A failing case is attributed to one of the input classes below by an
*independent diagnosis of the input* (reference apportionment in exact rationals, equal-width bin edges), never by
looking at what the library returned; any failure on an input outside these classes gets a ``*-broken`` cls:

* ``haplobin-empty-equal-width-bin``            some equal-width bin [lo,hi] of a chromosome holds no marker at all
* ``haplobin-bin-only-upper-boundary-markers``  not the above, but some bin has markers only on its upper edge
* ``apportion-exceeds-chromosome-markers``      length-proportional apportionment gives a chromosome more blocks
                                                than it has markers (block total still <= marker count)
* ``zero-total-genetic-length``                 all chromosomes have zero genetic span and more blocks than
                                                chromosomes are requested (0/0 in the apportionment)
"""
import contextlib
import itertools
import math
import warnings
from fractions import Fraction

from pyvc.unit import unit

P = "C18"

CLS_EMPTY = "haplobin-empty-equal-width-bin"
CLS_EDGE = "haplobin-bin-only-upper-boundary-markers"
CLS_APP = "apportion-exceeds-chromosome-markers"
CLS_ZERO = "zero-total-genetic-length"
KNOWN_INPUT_CLASSES = (CLS_EMPTY, CLS_EDGE, CLS_APP, CLS_ZERO)

INT_SENTINEL = -7777


# --------------------------------------------------------------------------------------------------------------
# harness helpers
# --------------------------------------------------------------------------------------------------------------
@contextlib.contextmanager
def poisoned_empty():
    """numpy.empty -> same array, but filled with NaN / a sentinel (see module docstring)"""
    import numpy
    real = numpy.empty

    def empty(*a, **k):
        out = real(*a, **k)
        try:
            kind = out.dtype.kind
            if kind in "fc":
                out.fill(numpy.nan)
            elif kind == "i":
                out.fill(max(INT_SENTINEL, numpy.iinfo(out.dtype).min))
            elif kind == "u":
                out.fill(numpy.iinfo(out.dtype).max)
        except Exception:
            pass
        return out
    numpy.empty = empty
    try:
        with warnings.catch_warnings():
            warnings.simplefilter("ignore")
            yield
    finally:
        numpy.empty = real


def layout_arrays(chroms):
    import numpy
    genpos = numpy.array([float(x) for c in chroms for x in c], dtype="float64")
    lens = [len(c) for c in chroms]
    stix, spix, s = [], [], 0
    for L in lens:
        stix.append(s)
        s += L
        spix.append(s)
    return (genpos, numpy.array(stix, dtype="int64"), numpy.array(spix, dtype="int64"),
            numpy.array(lens, dtype="int64"))


# --------------------------------------------------------------------------------------------------------------
# independent diagnosis of the INPUT (classification of failures only; never used as the oracle)
# --------------------------------------------------------------------------------------------------------------
def ref_apportions(chroms, n):
    """every result of the largest-deficit greedy apportionment by genetic length in exact rationals, over all ways
    of breaking exact ties (the library breaks them by floating-point accident); a set of tuples, or None when the
    total length is zero and more blocks than chromosomes are requested (0/0)"""
    spans = [Fraction(float(c[-1])) - Fraction(float(c[0])) for c in chroms]
    nchr = len(chroms)
    total = sum(spans)
    if n == nchr:
        return {tuple([1] * nchr)}
    if total == 0:
        return None
    ideal = [Fraction(n) * sp / total for sp in spans]
    frontier = {tuple([1] * nchr)}
    for _ in range(n - nchr):
        nxt = set()
        for st in frontier:
            diffs = [st[i] - ideal[i] for i in range(nchr)]
            lo = min(diffs)
            for i in range(nchr):
                if diffs[i] == lo:
                    nxt.add(st[:i] + (st[i] + 1,) + st[i + 1:])
        frontier = nxt
        if len(frontier) > 512:     # pathological tie explosion: keep a deterministic subset
            frontier = set(sorted(frontier)[:512])
    return frontier


def diagnose_bins(chroms, nblk):
    """equal-width bins of the given per-chromosome counts: which known-defect class (or None)"""
    empty = edge = False
    for c, nb in zip(chroms, nblk):
        if nb <= 1:
            continue
        lo, hi = float(c[0]), float(c[-1])
        if hi == lo:         # zero-span chromosome asked for >= 2 blocks: every bin is the single point
            edge = True
            continue
        step = (hi - lo) / nb
        edges = [j * step + lo for j in range(nb)] + [hi]
        for j in range(nb):
            if not any(edges[j] <= x <= edges[j + 1] for x in c):
                empty = True
            elif j < nb - 1 and not any(edges[j] <= x < edges[j + 1] for x in c):
                edge = True
    if empty:
        return CLS_EMPTY
    if edge:
        return CLS_EDGE
    return None


def diagnose(chroms, n=None, nblk=None, real=None):
    """name of the known-defect input class the layout falls in, or None.
    nblk: per-chromosome counts given by the caller of haplobin (direct cases);
    real: the counts the library's apportionment returned -- used only if they are one of the reference results"""
    lens = [len(c) for c in chroms]
    if nblk is not None:
        return diagnose_bins(chroms, nblk)
    refs = ref_apportions(chroms, n)
    if refs is None:
        return CLS_ZERO
    if real is not None:
        real = tuple(int(v) for v in real)
        if real not in refs:
            return None          # not a length-proportional apportionment at all: nothing known explains it
        refs = {real}
    refs = sorted(refs)
    if any(r[i] > lens[i] for r in refs for i in range(len(chroms))):
        return CLS_APP
    for r in refs:
        k = diagnose_bins(chroms, r)
        if k:
            return k
    return None


def real_counts(chroms, n):
    """what the library's apportionment returns for the layout (None if it fails or is malformed)"""
    try:
        from pybrops.core.util import haplo
        genpos, stix, spix, clen = layout_arrays(chroms)
        with poisoned_empty():
            out = haplo.nhaploblk_chrom(n, genpos, stix, spix)
        out = [int(v) for v in out]
        return out if len(out) == len(chroms) else None
    except Exception:
        return None


# --------------------------------------------------------------------------------------------------------------
# oracles from the statement
# --------------------------------------------------------------------------------------------------------------
def check_counts(nblk, chroms, n):
    """every chromosome at least one block, exactly the requested total"""
    import numpy
    if not isinstance(nblk, numpy.ndarray) or nblk.shape != (len(chroms),):
        return "block counts per chromosome have shape %r, expected (%d,)" % (getattr(nblk, "shape", None), len(chroms))
    if nblk.dtype.kind not in "iu":
        return "block counts per chromosome are not integers (dtype %s)" % nblk.dtype
    vals = [int(v) for v in nblk]
    if any(v < 1 for v in vals):
        return "a chromosome got no block: %r" % (vals,)
    if sum(vals) != n:
        return "block counts %r sum to %d, %d were requested" % (vals, sum(vals), n)
    return None


def check_labels(labels, chroms, n, per_chrom=None):
    """every marker in exactly one block (label in range), ordered/contiguous, blocks within chromosomes, every
    chromosome at least one block, exactly the requested total (dense labels 0..n-1 as documented)"""
    import numpy
    p = sum(len(c) for c in chroms)
    if not isinstance(labels, numpy.ndarray) or labels.shape != (p,):
        return "label array has shape %r, expected (%d,)" % (getattr(labels, "shape", None), p)
    if labels.dtype.kind not in "iu":
        return "labels are not integers (dtype %s)" % labels.dtype
    lab = [int(v) for v in labels]
    for i, v in enumerate(lab):
        if v < 0 or v >= n:
            return "marker %d has block label %d outside 0..%d (unassigned or surplus block): %r" % (i, v, n - 1, lab)
    for i in range(1, p):
        if lab[i] < lab[i - 1]:
            return "labels decrease at marker %d (blocks not ordered/contiguous): %r" % (i, lab)
    pos = 0
    for ci, c in enumerate(chroms):
        if ci > 0 and lab[pos] == lab[pos - 1]:
            return "block %d spans chromosomes %d and %d: %r" % (lab[pos], ci - 1, ci, lab)
        if per_chrom is not None:
            k = len(set(lab[pos:pos + len(c)]))
            if k != int(per_chrom[ci]):
                return "chromosome %d was given %d blocks but its markers carry %d distinct labels: %r" % (
                    ci, int(per_chrom[ci]), k, lab)
        pos += len(c)
    distinct = sorted(set(lab))
    if len(distinct) != n:
        return "partition uses %d blocks, %d were requested: %r" % (len(distinct), n, lab)
    if distinct != list(range(n)):
        return "labels are not 0..%d: %r" % (n - 1, lab)
    return None


def runs_of(lab):
    """maximal runs of equal labels: list of (start, stop)"""
    out, st = [], 0
    for i in range(1, len(lab) + 1):
        if i == len(lab) or lab[i] != lab[i - 1]:
            out.append((st, i))
            st = i
    return out


def check_bounds(res, lab):
    import numpy
    if not isinstance(res, tuple) or len(res) != 3:
        return "haplobin_bounds did not return a 3-tuple"
    names = ("hstix", "hspix", "hlen")
    runs = runs_of(lab)
    want = ([a for a, b in runs], [b for a, b in runs], [b - a for a, b in runs])
    for nm, got, w in zip(names, res, want):
        if not isinstance(got, numpy.ndarray) or got.dtype.kind not in "iu":
            return "%s is not an integer array" % nm
        if [int(v) for v in got] != w:
            return "%s = %r, run-length definition gives %r for labels %r" % (nm, [int(v) for v in got], w, lab)
    return None


def fclose(a, b, scale, exact, eps=2.3e-16):
    if not (math.isfinite(a) and math.isfinite(b)):
        return False
    if exact:
        return a == b
    return abs(a - b) <= 64 * eps * (scale + abs(b)) + 1e-300


def make_data(case):
    """deterministic genotypes (m,n,p) and effects (p,t) from the case; returns python lists and numpy arrays"""
    import numpy
    p = sum(len(c) for c in case["chroms"])
    m, nind, t = case["m"], case["nind"], case["t"]
    rs = numpy.random.RandomState(case["seed"])
    gmode, umode = case.get("gmode", "binary"), case.get("umode", "int")
    if gmode == "binary":
        mat = rs.randint(0, 2, (m, nind, p)).astype("int8")
    elif gmode == "zeros":
        mat = numpy.zeros((m, nind, p), dtype="int8")
    elif gmode == "ones":
        mat = numpy.ones((m, nind, p), dtype="int8")
    elif gmode == "big":          # int8 values up to 127: block sums exceed the int8 range
        mat = rs.randint(100, 128, (m, nind, p)).astype("int8")
    elif gmode == "signed":
        mat = rs.randint(-2, 3, (m, nind, p)).astype("int8")
    else:
        raise ValueError(gmode)
    if umode == "int":            # small integers, ties and exact zeros: all sums exact
        u = rs.randint(-3, 4, (p, t)).astype("float64")
    elif umode == "real":
        u = rs.normal(size=(p, t))
    elif umode == "mixed":        # widely different magnitudes
        u = rs.normal(size=(p, t)) * 10.0 ** rs.randint(-6, 7, (p, t))
    elif umode == "zero":
        u = numpy.zeros((p, t))
    elif umode == "neg":          # all block values negative (a zero-initialised hole would win every max)
        u = -1.0 - rs.randint(0, 3, (p, t)).astype("float64")
    elif umode == "f32":
        u = rs.randint(-3, 4, (p, t)).astype("float32")
    else:
        raise ValueError(umode)
    return mat, u


def build_objects(case, mat, u):
    """DensePhasedGenotypeMatrix + DenseAdditiveLinearGenomicModel for the layout"""
    import numpy
    from pybrops.popgen.gmat.DensePhasedGenotypeMatrix import DensePhasedGenotypeMatrix
    from pybrops.model.gmod.DenseAdditiveLinearGenomicModel import DenseAdditiveLinearGenomicModel
    chroms = case["chroms"]
    p = sum(len(c) for c in chroms)
    nind, t = mat.shape[1], u.shape[1]
    chrgrp = numpy.array([ci + 1 for ci, c in enumerate(chroms) for _ in c], dtype="int64")
    pg = DensePhasedGenotypeMatrix(
        mat=mat.copy(),
        taxa=numpy.array(["T%02d" % i for i in range(nind)], dtype=object),
        taxa_grp=numpy.arange(nind, dtype="int64"),
        vrnt_chrgrp=chrgrp,
        vrnt_phypos=numpy.arange(1, p + 1, dtype="int64"),
        vrnt_name=numpy.array(["m%d" % i for i in range(p)], dtype=object),
        vrnt_genpos=numpy.array([float(x) for c in chroms for x in c], dtype="float64"),
        vrnt_xoprob=numpy.full(p, 0.1),
        vrnt_hapgrp=None,
        vrnt_mask=None,
    )
    pg.group_vrnt()
    # every other case: a model that also has miscellaneous (non-marker) random effects and a non-zero intercept; block values
    # and optimal values are statements about the ADDITIVE marker effects only
    sd = int(case.get("seed", 0))
    rs = numpy.random.RandomState(sd % (2 ** 31))
    misc = rs.uniform(-3, 3, size=(1 + sd % 3, t)) if sd % 2 else None
    gp = DenseAdditiveLinearGenomicModel(
        beta=rs.uniform(-2, 2, size=(1, t)) if sd % 2 else numpy.zeros((1, t)), u_misc=misc, u_a=u.astype("float64").copy(),
        trait=numpy.array(["trait%d" % i for i in range(t)], dtype=object))
    return pg, gp


def real_partition(chroms, n):
    """run the real apportionment + binning under poison and judge them with the statement's oracle.
    returns (blocks or None, message or None): blocks = list of (start, stop) marker ranges"""
    from pybrops.core.util import haplo
    genpos, stix, spix, clen = layout_arrays(chroms)
    with poisoned_empty():
        nblk = haplo.nhaploblk_chrom(n, genpos, stix, spix)
    msg = check_counts(nblk, chroms, n)
    if msg:
        return None, msg
    if any(int(nblk[i]) > len(chroms[i]) for i in range(len(chroms))):
        return None, "chromosome block counts %r exceed the marker counts %r" % (
            [int(v) for v in nblk], [len(c) for c in chroms])
    with poisoned_empty():
        lab = haplo.haplobin(nblk, genpos, stix, spix)
    msg = check_labels(lab, chroms, n, per_chrom=nblk)
    if msg:
        return None, msg
    return runs_of([int(v) for v in lab]), None


def block_values(mat, u, blocks):
    """bv[ph][ind][b][tr] = sum over the markers of block b of genotype * effect (python floats, fsum)"""
    m, nind, p = mat.shape
    t = u.shape[1]
    g = mat.tolist()
    e = [[float(u[i, k]) for k in range(t)] for i in range(p)]
    return [[[[math.fsum(g[ph][ind][i] * e[i][k] for i in range(st, sp)) for k in range(t)]
              for (st, sp) in blocks] for ind in range(nind)] for ph in range(m)]


def abs_scale(mat, u, tr):
    m, nind, p = mat.shape
    g = mat.tolist()
    return max(math.fsum(abs(g[ph][ind][i] * float(u[i, tr])) for i in range(p))
               for ph in range(m) for ind in range(nind))


def best_value(bv, ploidy, parents, tr):
    """ploidy * sum over blocks of the best block value among all copies of the designated parents; also the
    argmax sources"""
    m = len(bv)
    nb = len(bv[0][0])
    tot, src = [], []
    for b in range(nb):
        best, bsrc = None, None
        for par in parents:
            for ph in range(m):
                v = bv[ph][par][b][tr]
                if best is None or v > best:
                    best, bsrc = v, (ph, par)
        tot.append(best)
        src.append(bsrc)
    return ploidy * math.fsum(tot), src


def dh_value(mat, u, blocks, src, ploidy, tr):
    """genomic value of the doubled haploid whose (identical) copies take block b from chromosome copy src[b]:
    computed marker by marker from the genotypes"""
    g = []
    for (st, sp), (ph, par) in zip(blocks, src):
        for i in range(st, sp):
            g.append(int(mat[ph, par, i]))
    return ploidy * math.fsum(g[i] * float(u[i, tr]) for i in range(len(g)))


def dh_sources(rs, m, parents, nb, argmax_src):
    """block-boundary recombinants to test: exhaustive when few, else seeded sample; always the non-recombinant
    copies and the arg-max choice"""
    copies = [(ph, par) for par in parents for ph in range(m)]
    if len(copies) ** nb <= 200:
        for s in itertools.product(copies, repeat=nb):
            yield list(s)
        return
    for cp in copies:
        yield [cp] * nb
    yield list(argmax_src)
    for _ in range(40):
        yield [copies[rs.randint(len(copies))] for _ in range(nb)]


# --------------------------------------------------------------------------------------------------------------
# case runners: each returns (bad, message, cls, clause)
# --------------------------------------------------------------------------------------------------------------
OK = (False, "ok", "", "")


def run_part(case):
    """nhaploblk_chrom -> haplobin -> haplobin_bounds (and haplomat's guard) on one layout and block total"""
    from pybrops.core.util import haplo
    import numpy
    chroms, n = case["chroms"], case["n"]
    genpos, stix, spix, clen = layout_arrays(chroms)
    snap = (genpos.copy(), stix.copy(), spix.copy())
    with poisoned_empty():
        nblk = haplo.nhaploblk_chrom(n, genpos, stix, spix)
    msg = check_counts(nblk, chroms, n)
    if msg:
        return True, msg, "apportion-broken", "counts"
    known = diagnose(chroms, n=n, real=nblk)
    if any(int(nblk[i]) > len(chroms[i]) for i in range(len(chroms))):
        # the requested total lies between the chromosome count and the marker count, yet no partition with these
        # per-chromosome counts exists; the library itself refuses (haplomat raises)
        return True, "block total %d for marker counts %r: apportionment %r gives a chromosome more blocks than " \
            "it has markers, no partition into exactly %d blocks is produced" % (
                n, [len(c) for c in chroms], [int(v) for v in nblk], n), \
            known if known in (CLS_APP, CLS_ZERO) else "apportion-broken", "counts-vs-markers"
    with poisoned_empty():
        lab = haplo.haplobin(nblk, genpos, stix, spix)
    msg = check_labels(lab, chroms, n, per_chrom=nblk)
    if msg:
        return True, msg, known or "partition-broken", "partition"
    with poisoned_empty():
        res = haplo.haplobin_bounds(lab)
    msg = check_bounds(res, [int(v) for v in lab])
    if msg:
        return True, msg, "bounds-broken", "bounds"
    if len(res[0]) != n:
        return True, "%d boundary pairs for %d blocks" % (len(res[0]), n), "bounds-broken", "bounds"
    if not (numpy.array_equal(snap[0], genpos) and numpy.array_equal(snap[1], stix) and numpy.array_equal(snap[2], spix)):
        return True, "an input array was modified", "partition-broken", "aliasing"
    return OK


def run_bin(case):
    """haplobin with arbitrary per-chromosome block counts (1 <= count <= markers of the chromosome)"""
    from pybrops.core.util import haplo
    import numpy
    chroms, nblk = case["chroms"], case["nblk"]
    n = sum(nblk)
    known = diagnose(chroms, nblk=nblk)
    genpos, stix, spix, clen = layout_arrays(chroms)
    arr = numpy.array(nblk, dtype="int64")
    with poisoned_empty():
        lab = haplo.haplobin(arr, genpos, stix, spix)
    msg = check_labels(lab, chroms, n, per_chrom=nblk)
    if msg:
        return True, msg, known or "partition-broken", "partition"
    with poisoned_empty():
        res = haplo.haplobin_bounds(lab)
    msg = check_bounds(res, [int(v) for v in lab])
    if msg:
        return True, msg, "bounds-broken", "bounds"
    return OK


def run_bounds(case):
    """haplobin_bounds on an arbitrary label sequence (not necessarily sorted or dense)"""
    from pybrops.core.util import haplo
    import numpy
    lab = case["labels"]
    arr = numpy.array(lab, dtype=case.get("dtype", "int64"))
    snap = arr.copy()
    with poisoned_empty():
        res = haplo.haplobin_bounds(arr)
    msg = check_bounds(res, lab)
    if msg:
        return True, msg, "bounds-broken", "bounds"
    if not numpy.array_equal(arr, snap):
        return True, "label array modified", "bounds-broken", "aliasing"
    return OK


def call_haplomat(target, case, mat, u):
    from pybrops.core.util import haplo
    n = case["n"]
    if target == "haplo":
        genpos, stix, spix, clen = layout_arrays(case["chroms"])
        with poisoned_empty():
            return haplo.haplomat(n, mat, genpos, stix, spix, clen, u)
    pg, gp = build_objects(case, mat, u)
    if target == "ohv":
        from pybrops.breed.prot.sel.prob.OptimalHaploidValueSelectionProblem import \
            OptimalHaploidValueSelectionProblemMixin as M
    elif target == "opv":
        from pybrops.breed.prot.sel.prob.OptimalPopulationValueSelectionProblem import \
            OptimalPopulationValueSelectionProblemMixin as M
    elif target == "gb":
        from pybrops.breed.prot.sel.prob.GenotypeBuilderSelectionProblem import \
            GenotypeBuilderSelectionProblemMixin as M
    else:
        raise ValueError(target)
    with poisoned_empty():
        return M._calc_haplomat(pg, gp, n)


def run_hmat(case):
    """block values: shape, finiteness, conservation of each copy's additive value, block-by-block definition"""
    import numpy
    chroms, n, target = case["chroms"], case["n"], case["target"]
    known = diagnose(chroms, n=n, real=real_counts(chroms, n))
    mat, u = make_data(case)
    if target != "haplo" and u.dtype != numpy.float64:
        u = u.astype("float64")
    mat0, u0 = mat.copy(), u.copy()
    m, nind, p = mat.shape
    t = u.shape[1]
    try:
        hm = call_haplomat(target, case, mat, u)
    except Exception as e:
        return True, "block total %d within [#chromosomes, #markers] of layout %r rejected: %s: %s" % (
            n, chroms, type(e).__name__, e), known if known in (CLS_APP, CLS_ZERO) else "block-values-broken", "noraise"
    if not isinstance(hm, numpy.ndarray) or hm.shape != (m, nind, n, t):
        return True, "block value array has shape %r, expected %r" % (getattr(hm, "shape", None), (m, nind, n, t)), \
            "block-values-broken", "shape"
    if hm.dtype != u.dtype:
        return True, "block value dtype %s differs from effect dtype %s" % (hm.dtype, u.dtype), \
            "block-values-broken", "dtype"
    h = hm.tolist()
    exact = case.get("umode", "int") in ("int", "zero", "neg", "f32")
    eps = 1.2e-7 if u.dtype == numpy.float32 else 2.3e-16
    for ph in range(m):
        for ind in range(nind):
            for b in range(n):
                for tr in range(t):
                    if not math.isfinite(h[ph][ind][b][tr]):
                        return True, "block value [copy %d, individual %d, block %d, trait %d] = %r is not finite / was " \
                            "never written (%d blocks requested)" % (ph, ind, b, tr, h[ph][ind][b][tr], n), \
                            known or "block-values-broken", "finite"
    g = mat0.tolist()
    for tr in range(t):
        scale = abs_scale(mat0, u0, tr)
        for ph in range(m):
            for ind in range(nind):
                total = math.fsum(g[ph][ind][i] * float(u0[i, tr]) for i in range(p))
                got = math.fsum(h[ph][ind][b][tr] for b in range(n))
                if not fclose(got, total, scale, exact, eps):
                    return True, "copy %d of individual %d, trait %d: block values %r sum to %r, total additive value " \
                        "is %r" % (ph, ind, tr, [h[ph][ind][b][tr] for b in range(n)], got, total), \
                        known or "block-values-broken", "conservation"
    blocks, msg = real_partition(chroms, n)
    if blocks is None:
        return True, "block values conserve the total, but the partition behind them is invalid: " + msg, \
            known or "partition-broken", "partition"
    bv = block_values(mat0, u0, blocks)
    for tr in range(t):
        scale = abs_scale(mat0, u0, tr)
        for ph in range(m):
            for ind in range(nind):
                for b in range(n):
                    if not fclose(h[ph][ind][b][tr], bv[ph][ind][b][tr], scale, exact, eps):
                        return True, "block %d (markers %r) of copy %d, individual %d, trait %d: value %r, genotype . " \
                            "effects over the block gives %r" % (b, blocks[b], ph, ind, tr, h[ph][ind][b][tr],
                                                                   bv[ph][ind][b][tr]), "block-values-broken", "blockdef"
    if not (numpy.array_equal(mat, mat0) and numpy.array_equal(u, u0)):
        return True, "genotypes or effects were modified", "block-values-broken", "aliasing"
    return OK


def ohv_rows_check(ohv, xmap_rows, bv, mat, u, blocks, ploidy, exact, seed, what):
    """ohv[s][tr] against the definition and the DH bound"""
    import numpy
    m, nind, p = mat.shape
    t = u.shape[1]
    rs = numpy.random.RandomState(seed + 17)
    for tr in range(t):
        scale = ploidy * abs_scale(mat, u, tr)
        for s, parents in enumerate(xmap_rows):
            got = ohv[s][tr]
            if not math.isfinite(got):
                return True, "%s[%d, trait %d] = %r is not finite" % (what, s, tr, got), "ohv-broken", "finite"
            want, src = best_value(bv, ploidy, parents, tr)
            if not fclose(got, want, scale, exact):
                return True, "%s[cross %d = parents %r, trait %d] = %r; ploidy * sum over blocks of the best block " \
                    "value among the parents' copies = %r" % (what, s, parents, tr, got, want), "ohv-broken", "definition"
            tol = 0.0 if exact else 64 * 2.3e-16 * (scale + abs(want))
            attained = False
            for sources in dh_sources(rs, m, parents, len(blocks), src):
                dv = dh_value(mat, u, blocks, sources, ploidy, tr)
                if dv > got + tol:
                    return True, "%s[cross %d = parents %r, trait %d] = %r is below the value %r of the doubled haploid " \
                        "built from copies %r (recombining only at block boundaries %r)" % (
                            what, s, parents, tr, got, dv, sources, blocks), "ohv-broken", "dh-bound"
                if abs(dv - got) <= tol:
                    attained = True
            if not attained:
                return True, "%s[cross %d, trait %d] = %r is attained by no block-boundary doubled haploid" % (
                    what, s, tr, got), "ohv-broken", "dh-tight"
    return None


def enum_tuples(nind, d, unique):
    if unique:
        return [list(c) for c in itertools.combinations(range(nind), d)]
    return [list(c) for c in itertools.combinations_with_replacement(range(nind), d)]


def run_ohvmat(case):
    """_calc_ohvmat on a synthetic (m,n,b,t) block value array, arbitrary parent tuples and chunk sizes"""
    import numpy
    from pybrops.breed.prot.sel.prob.OptimalHaploidValueSelectionProblem import \
        OptimalHaploidValueSelectionProblemMixin as M
    rs = numpy.random.RandomState(case["seed"])
    m, nind, nb, t, d = case["m"], case["nind"], case["b"], case["t"], case["d"]
    hmode = case["hmode"]
    if hmode == "int":
        hm = rs.randint(-3, 4, (m, nind, nb, t)).astype("float64")
    elif hmode == "real":
        hm = rs.normal(size=(m, nind, nb, t))
    elif hmode == "neg":
        hm = -1.0 - rs.randint(0, 3, (m, nind, nb, t)).astype("float64")
    elif hmode == "ties":
        hm = numpy.full((m, nind, nb, t), 2.0)
    else:
        hm = rs.normal(size=(m, nind, nb, t)) * 1e6
    if case["xmode"] == "unique":
        xm = enum_tuples(nind, d, True)
    elif case["xmode"] == "nonunique":
        xm = enum_tuples(nind, d, False)
    else:
        xm = [[int(v) for v in rs.randint(0, nind, d)] for _ in range(case["s"])]
    if not xm:
        return OK
    xmap = numpy.array(xm, dtype="int64")
    hm0 = hm.copy()
    with poisoned_empty():
        out = M._calc_ohvmat(case["ploidy"], hm, xmap, case["mem"])
    if not isinstance(out, numpy.ndarray) or out.shape != (len(xm), t):
        return True, "OHV array has shape %r, expected %r" % (getattr(out, "shape", None), (len(xm), t)), "ohv-broken", "shape"
    o = out.tolist()
    h = hm0.tolist()
    exact = hmode in ("int", "neg", "ties")
    for s, parents in enumerate(xm):
        for tr in range(t):
            tot, sc = [], []
            for b in range(nb):
                best = None
                for par in parents:
                    for ph in range(m):
                        v = h[ph][par][b][tr]
                        if best is None or v > best:
                            best = v
                tot.append(best)
                sc.append(abs(best))
            want = case["ploidy"] * math.fsum(tot)
            if not fclose(o[s][tr], want, case["ploidy"] * math.fsum(sc), exact):
                return True, "OHV[cross %d = %r, trait %d] = %r, definition gives %r (mem=%r)" % (
                    s, parents, tr, o[s][tr], want, case["mem"]), "ohv-broken", "definition"
    if not numpy.array_equal(hm, hm0):
        return True, "block value array modified by _calc_ohvmat", "ohv-broken", "aliasing"
    return OK


def _decn(nx, k):
    import numpy
    return dict(ndecn=k, decn_space=numpy.arange(max(nx, k)), decn_space_lower=numpy.repeat(0, k),
                decn_space_upper=numpy.repeat(max(nx - 1, 0), k))


def run_ohvpipe(case):
    """genotypes + effects + layout -> OHV problem (classes or protocol) -> ohvmat, latentfn"""
    import numpy
    chroms, n = case["chroms"], case["n"]
    known = diagnose(chroms, n=n, real=real_counts(chroms, n))
    mat, u = make_data(case)
    m, nind, p = mat.shape
    t = u.shape[1]
    d, unique, variant, via = case["d"], case["unique"], case["variant"], case["via"]
    pg, gp = build_objects(case, mat, u)
    from pybrops.breed.prot.sel.prob import OptimalHaploidValueSelectionProblem as PM
    from pybrops.breed.prot.sel import OptimalHaploidValueSelection as SM
    tuples = enum_tuples(nind, d, unique)
    if not tuples:
        return OK
    nx = len(tuples)
    ncross = min(case.get("ncross", 2), nx)     # a subset of ncross distinct crosses needs ncross <= #tuples
    try:
        with poisoned_empty():
            if via == "protocol":
                cls = getattr(SM, "OptimalHaploidValue%sSelection" % variant)
                sel = cls(ntrait=t, nhaploblk=n, unique_parents=unique, ncross=ncross, nparent=d, nmating=1,
                          nprogeny=1, nobj=t)
                prob = sel.problem(pg, None, None, None, gp, 0, 1)
            else:
                cls = getattr(PM, "OptimalHaploidValue%sSelectionProblem" % variant)
                if variant == "Subset":
                    kw = _decn(nx, ncross)
                else:
                    lo = numpy.repeat(0.0 if variant == "Real" else 0, nx)
                    up = numpy.repeat(1.0 if variant == "Real" else 1, nx)
                    kw = dict(ndecn=nx, decn_space=numpy.stack([lo, up]), decn_space_lower=lo, decn_space_upper=up)
                prob = cls.from_pgmat_gpmod(nparent=d, nhaploblk=n, unique_parents=unique, pgmat=pg, gpmod=gp,
                                            nobj=t, **kw)
    except Exception as e:
        return True, "block total %d within [#chromosomes, #markers] of layout %r rejected: %s: %s" % (
            n, chroms, type(e).__name__, e), known if known in (CLS_APP, CLS_ZERO) else "ohv-broken", "noraise"
    ohv = prob.ohvmat
    if not isinstance(ohv, numpy.ndarray) or ohv.shape != (nx, t):
        return True, "ohvmat has shape %r, expected %r" % (getattr(ohv, "shape", None), (nx, t)), "ohv-broken", "shape"
    o = ohv.tolist()
    for s in range(nx):
        for tr in range(t):
            if not math.isfinite(o[s][tr]):
                return True, "ohvmat[%d, %d] = %r is not finite (%d blocks requested on layout %r)" % (
                    s, tr, o[s][tr], n, chroms), known or "ohv-broken", "finite"
    blocks, msg = real_partition(chroms, n)
    if blocks is None:
        return True, "OHV finite, but the partition behind it is invalid: " + msg, known or "partition-broken", "partition"
    xm = numpy.asarray(prob.decn_space_xmap)
    if xm.ndim != 2 or xm.shape[1] != d:
        return True, "cross map has shape %r" % (xm.shape,), "ohv-broken", "xmap"
    rows = [[int(v) for v in r] for r in xm]
    if sorted(rows) != sorted(tuples):
        return True, "cross map %r does not enumerate the %s parent tuples %r" % (
            rows, "distinct-parent" if unique else "with-repetition", tuples), "ohv-broken", "xmap"
    bv = block_values(mat, u, blocks)
    exact = case.get("umode", "int") in ("int", "zero", "neg")
    bad = ohv_rows_check(o, rows, bv, mat, u, blocks, m, exact, case["seed"], "ohvmat")
    if bad:
        return bad
    # latent function: negated (minimising) mean / contribution-weighted mean of the selected crosses' OHVs
    rs = numpy.random.RandomState(case["seed"] + 5)
    for rep in range(3):
        if variant == "Subset":
            k = 1 if rep == 0 else ncross
            x = rs.randint(0, nx, k).astype("int64")
            w = [0.0] * nx
            for i in x:
                w[int(i)] += 1.0 / k
        elif variant == "Binary":
            x = rs.randint(0, 2, nx).astype("int64")
            x[rs.randint(nx)] = 1
            w = [float(v) / float(x.sum()) for v in x]
        elif variant == "Integer":
            x = rs.randint(0, 4, nx).astype("int64")
            x[rs.randint(nx)] += 1
            w = [float(v) / float(x.sum()) for v in x]
        else:
            x = rs.uniform(0.0, 1.0, nx)
            x[rs.randint(nx)] += 0.5
            w = [float(v) / float(x.sum()) for v in x]
        lat = prob.latentfn(x)
        if not isinstance(lat, numpy.ndarray) or lat.shape != (t,):
            return True, "latentfn shape %r" % (getattr(lat, "shape", None),), "ohv-broken", "latent"
        for tr in range(t):
            scale = m * abs_scale(mat, u, tr)
            want = -math.fsum(w[s] * best_value(bv, m, rows[s], tr)[0] for s in range(nx))
            if not fclose(float(lat[tr]), want, scale, False):
                return True, "latentfn(%r)[trait %d] = %r, negated mean OHV of the selection = %r" % (
                    x.tolist(), tr, float(lat[tr]), want), "ohv-broken", "latent"
    if not numpy.array_equal(numpy.asarray(prob.ohvmat), ohv):
        return True, "latentfn modified ohvmat", "ohv-broken", "aliasing"
    return OK


def run_opv(case):
    """OPV / GenotypeBuilder subset problems: latentfn(x) for subsets x of individuals"""
    import numpy
    chroms, n = case["chroms"], case["n"]
    known = diagnose(chroms, n=n, real=real_counts(chroms, n))
    mat, u = make_data(case)
    m, nind, p = mat.shape
    t = u.shape[1]
    pg, gp = build_objects(case, mat, u)
    kind = case["kind"]
    x = numpy.array(case["x"], dtype="int64")
    k = len(x)
    try:
        with poisoned_empty():
            if kind == "opv":
                from pybrops.breed.prot.sel.prob.OptimalPopulationValueSelectionProblem import \
                    OptimalPopulationValueSubsetSelectionProblem as C
                prob = C.from_pgmat_gpmod(nhaploblk=n, pgmat=pg, gpmod=gp, nobj=t, **_decn(nind, k))
            else:
                from pybrops.breed.prot.sel.prob.GenotypeBuilderSelectionProblem import \
                    GenotypeBuilderSubsetSelectionProblem as C
                prob = C.from_pgmat_gpmod(pgmat=pg, gpmod=gp, nhaploblk=n, nbestfndr=case["nbest"], nobj=t,
                                          **_decn(nind, k))
    except Exception as e:
        return True, "block total %d within [#chromosomes, #markers] of layout %r rejected: %s: %s" % (
            n, chroms, type(e).__name__, e), known if known in (CLS_APP, CLS_ZERO) else "opv-broken", "noraise"
    hm0 = numpy.array(prob.haplomat, copy=True)
    with poisoned_empty():
        lat = prob.latentfn(x)
    if not isinstance(lat, numpy.ndarray) or lat.shape != (t,):
        return True, "latentfn shape %r, expected (%d,)" % (getattr(lat, "shape", None), t), "opv-broken", "shape"
    val = [-float(v) for v in lat]           # objectives are negated (minimising)
    for tr in range(t):
        if not math.isfinite(val[tr]):
            return True, "%s value of individuals %r, trait %d = %r is not finite (%d blocks requested on %r)" % (
                kind.upper(), case["x"], tr, val[tr], n, chroms), known or "opv-broken", "finite"
    if prob.ploidy != m:
        return True, "ploidy %r, expected %d" % (prob.ploidy, m), "opv-broken", "ploidy"
    blocks, msg = real_partition(chroms, n)
    if blocks is None:
        return True, "value finite, but the partition behind it is invalid: " + msg, known or "partition-broken", "partition"
    bv = block_values(mat, u, blocks)
    exact = case.get("umode", "int") in ("int", "zero", "neg")
    parents = [int(v) for v in x]
    if kind == "opv" or case["nbest"] == 1:
        bad = ohv_rows_check([val], [parents], bv, mat, u, blocks, m, exact, case["seed"], kind.upper() + " value")
        if bad:
            return bad[0], bad[1], "opv-broken", bad[3]
    else:
        # genotype builder (documented definition): per block, mean over the nbest best individuals (each by its
        # better copy), ploidy-scaled; never above the optimal population value of the same individuals
        nbest = case["nbest"]
        for tr in range(t):
            scale = m * abs_scale(mat, u, tr)
            tot = []
            for b in range(n):
                per = sorted((max(bv[ph][par][b][tr] for ph in range(m)) for par in parents), reverse=True)
                tot.append(math.fsum(per[:nbest]))
            want = (float(m) / nbest) * math.fsum(tot)
            if not fclose(val[tr], want, scale, False):
                return True, "GB value of %r (nbest %d), trait %d = %r, definition gives %r" % (
                    parents, nbest, tr, val[tr], want), "opv-broken", "gb-definition"
            opv = best_value(bv, m, parents, tr)[0]
            if val[tr] > opv + 64 * 2.3e-16 * (scale + abs(opv)):
                return True, "GB value %r exceeds the optimal population value %r" % (val[tr], opv), "opv-broken", "gb-bound"
    if not numpy.array_equal(numpy.asarray(prob.haplomat), hm0, equal_nan=True):
        return True, "latentfn modified the block value array", "opv-broken", "aliasing"
    # the value follows the block values the problem holds NOW: replace them through the public setter (individuals reversed,
    # values negated) and compare with a problem constructed on the new block values (itself checked above for its own data)
    if numpy.all(numpy.isfinite(hm0)):
        hm2 = -hm0[:, ::-1].copy()
        extra = {} if kind == "opv" else dict(nbestfndr=case["nbest"])
        fresh = C(haplomat=hm2.copy(), nobj=t, **extra, **_decn(nind, k))
        prob.haplomat = hm2
        a, b = prob.latentfn(x), fresh.latentfn(x)
        if not numpy.array_equal(a, b):
            return True, "after `problem.haplomat = new block values` latentfn(%r) = %r, a problem constructed on the new values gives %r" % (
                parents, a.tolist(), b.tolist()), "opv-broken", "stale-after-setter"
    return OK


RUNNERS = {"part": run_part, "bin": run_bin, "bounds": run_bounds, "hmat": run_hmat, "ohvmat": run_ohvmat,
           "ohvpipe": run_ohvpipe, "opv": run_opv}
DEFAULT_CLS = {"part": "partition-broken", "bin": "partition-broken", "bounds": "bounds-broken",
               "hmat": "block-values-broken", "ohvmat": "ohv-broken", "ohvpipe": "ohv-broken", "opv": "opv-broken"}


def run_full(case):
    try:
        return RUNNERS[case["k"]](case)
    except Exception as e:     # crash of the real code on a valid input
        known = None
        try:
            if "chroms" in case and "n" in case:
                known = diagnose(case["chroms"], n=case["n"], real=real_counts(case["chroms"], case["n"]))
            elif "chroms" in case and "nblk" in case:
                known = diagnose(case["chroms"], nblk=case["nblk"])
        except Exception:
            known = None
        import traceback
        tb = traceback.extract_tb(e.__traceback__)
        where = "%s:%d" % (tb[-1].filename.split("/")[-1], tb[-1].lineno) if tb else "?"
        return True, "exception %s: %s (at %s)" % (type(e).__name__, e, where), \
            known or DEFAULT_CLS.get(case.get("k"), "crash"), "noraise"


def run_case(case):
    bad, msg, cls, clause = run_full(case)
    return bad, msg


# --------------------------------------------------------------------------------------------------------------
# generators
# --------------------------------------------------------------------------------------------------------------
def sorted_multisets(grid, k):
    return [list(c) for c in itertools.combinations_with_replacement(grid, k)]


def gen_part_exhaustive(tier):
    thorough = tier == "thorough"
    # one chromosome
    g1 = list(range(0, 7 if thorough else 5))
    for k in range(1, (7 if thorough else 6)):
        for c in sorted_multisets(g1, k):
            for n in range(1, k + 1):
                yield dict(k="part", chroms=[c], n=n)
    # two chromosomes
    g2 = list(range(0, 5 if thorough else 4))
    pool2 = [c for k in range(1, (5 if thorough else 4)) for c in sorted_multisets(g2, k)]
    if thorough:
        pool2 = [c for c in pool2 if len(c) <= 3 or len(set(c)) == len(c) or c[0] == c[-1]]
    for a in pool2:
        for b in pool2:
            for n in range(2, len(a) + len(b) + 1):
                yield dict(k="part", chroms=[a, b], n=n)
    # three chromosomes
    g3 = list(range(0, 3))
    pool3 = [c for k in range(1, 3) for c in sorted_multisets(g3, k)] + [[0, 1, 2], [0, 2, 4], [0, 1, 4]]
    for a in pool3:
        for b in pool3:
            for c in pool3:
                for n in range(3, len(a) + len(b) + len(c) + 1):
                    yield dict(k="part", chroms=[a, b, c], n=n)


def gen_bin_exhaustive(tier):
    thorough = tier == "thorough"
    g2 = list(range(0, 5 if thorough else 4))
    pool = [c for k in range(1, (5 if thorough else 4)) for c in sorted_multisets(g2, k)]
    if thorough:
        pool = [c for c in pool if len(c) <= 3 or len(set(c)) == len(c)]
    for a in pool:
        for b in pool:
            for na in range(1, len(a) + 1):
                for nb in range(1, len(b) + 1):
                    yield dict(k="bin", chroms=[a, b], nblk=[na, nb])
    # fractional grids whose equal-width edges are not representable exactly
    for k in range(2, 6):
        for c in sorted_multisets([0.0, 0.1, 0.2, 0.3, 0.7, 1.0], k):
            for nb in range(1, k + 1):
                yield dict(k="bin", chroms=[c], nblk=[nb])


def gen_bounds(tier):
    alpha = [0, 1, 2, 5]
    for L in range(1, (8 if tier == "thorough" else 7)):
        for s in itertools.product(alpha, repeat=L):
            yield dict(k="bounds", labels=list(s))
    yield dict(k="bounds", labels=[3] * 40)
    yield dict(k="bounds", labels=list(range(40)))
    yield dict(k="bounds", labels=[0, 0, 1, 1, 1, 2], dtype="int8")
    yield dict(k="bounds", labels=[-1, -1, 0, 7, 7], dtype="int32")


def random_layout(rnd, max_chr=4, max_len=8, style=None):
    """a marker layout (list of sorted position lists).  styles:
    uniform   i.i.d. uniform positions
    cluster   log-normal gaps (strong clustering: empty equal-width bins are likely)
    grid      positions on a coarse integer grid (duplicates and exact bin edges)
    design    every equal-width bin of the length-proportional apportionment gets a marker on its lower edge or
              strictly inside: a layout the library must handle, with many markers exactly on block boundaries
    """
    style = style or rnd.choice(["uniform", "cluster", "grid", "design", "design"])
    nchr = rnd.randint(1, max_chr)
    chroms = []
    if style == "design":
        total = 0
        w = rnd.choice([1.0, 2.0, 0.5, 3.0, 10.0, 0.25])
        for _ in range(nchr):
            nb = rnd.randint(1, max(1, min(4, max_len)))
            start = rnd.choice([0.0, 0.0, 1.0, 5.0, 100.0])
            if nb == 1 and rnd.random() < 0.3:
                chroms.append([start])      # single-marker chromosome (zero span)
                total += 1
                continue
            c = []
            for j in range(nb):
                lo = start + j * w
                if j == 0 or rnd.random() < 0.6:
                    c.append(lo)            # exactly on the lower edge
                else:
                    c.append(lo + w * rnd.choice([0.25, 0.5, 0.75]))
                for _ in range(rnd.randint(0, 1)):
                    c.append(lo + w * rnd.choice([0.0, 0.125, 0.25, 0.5, 0.75]))
            c.append(start + nb * w)        # chromosome end = last edge
            chroms.append(sorted(c))
            total += nb
        return chroms, "design", total
    for _ in range(nchr):
        L = rnd.randint(1, max_len)
        if style == "uniform":
            c = sorted(round(rnd.uniform(0, rnd.choice([1.0, 2.5, 100.0])), 6) for _ in range(L))
        elif style == "cluster":
            x, c = rnd.choice([0.0, 3.0]), []
            for _ in range(L):
                c.append(round(x, 9))
                x += math.exp(rnd.gauss(-2.0, 2.5))
        else:
            c = sorted(float(rnd.randint(0, rnd.choice([3, 6, 12]))) for _ in range(L))
        chroms.append(c)
    return chroms, style, None


def pick_total(rnd, chroms, designed):
    nchr = len(chroms)
    p = sum(len(c) for c in chroms)
    if designed is not None and nchr <= designed <= p and rnd.random() < 0.7:
        return designed
    return rnd.randint(nchr, p)


def gen_part_curated():
    for chroms, n in CURATED + DEFECT:
        yield dict(k="part", chroms=chroms, n=n)
    for chroms, n in CURATED:
        if len(chroms) == 1:
            yield dict(k="bin", chroms=chroms, nblk=[n])


def gen_part_random(rnd, tier):
    for _ in range(40000 if tier == "thorough" else 2500):
        chroms, style, designed = random_layout(rnd, max_chr=5, max_len=(14 if tier == "thorough" else 9))
        yield dict(k="part", chroms=chroms, n=pick_total(rnd, chroms, designed))


CURATED = [
    # (layout, block total): valid layouts with markers exactly on interior bin edges and multi-chromosome mixes
    ([[0, 1, 2, 3]], 3), ([[0, 1, 3]], 3), ([[0, 1, 2, 3, 4]], 4), ([[0, 2, 4, 6, 8]], 2), ([[0.0, 0.5, 1.0]], 2),
    ([[0, 1, 2, 3, 4, 5, 6]], 3), ([[0, 1, 2], [0, 5, 10]], 4), ([[0, 1, 2], [0, 1, 2]], 4), ([[5], [0, 1, 2, 3]], 4),
    ([[0, 1], [7]], 2), ([[0, 1, 2, 3], [2], [0, 2, 4, 6]], 7), ([[0, 1, 2, 3]], 1), ([[0, 1, 2, 3]], 4),
    ([[3]], 1), ([[3], [4], [5]], 3), ([[0, 3, 6], [0, 1.5, 3, 4.5, 6]], 6), ([[0, 1, 1, 2]], 2),
    ([[0, 0, 1, 1]], 2), ([[0, 10, 20, 30, 40, 50]], 5), ([[0, 0.25, 0.5, 0.75, 1.0], [0, 0.5, 1.0]], 6),
    # more than 127 / 255 blocks and markers (label and index dtypes)
    ([list(range(300))], 300), ([list(range(300))], 150), ([list(range(140)), list(range(1000, 1140))], 280),
]
DEFECT = [
    # layouts of the known-defect input classes (kept on purpose; each has its own cls)
    ([[0, 0.1, 0.2, 10]], 3), ([[0, 0.1, 0.2, 10]], 4), ([[0, 1, 2, 100], [0, 50, 100]], 5),   # empty bin
    ([[0, 2, 2, 4]], 4), ([[0, 2, 3, 4]], 4),                                                 # only upper-edge markers
    ([[0, 10], [0, 1, 2, 3]], 4), ([[0, 0.1, 0.2, 10], [0, 1, 2]], 7),                        # apportionment > markers
    ([[5.0, 7.0], [0.0, 2.0], [100.0, 102.0, 104.0, 106.0, 107.5, 108.0]], 10),   # same, decided by a rounding tie
    ([[5, 5]], 2), ([[1, 1], [2]], 3),                                                         # zero total length
]


def gen_layout_pool(rnd, count):
    out = [(c, n, "curated") for c, n in CURATED]
    out += [(c, n, "defect") for c, n in DEFECT]
    for _ in range(count):
        chroms, style, designed = random_layout(rnd, max_chr=3, max_len=6,
                                                style=rnd.choice(["design", "design", "uniform", "grid"]))
        out.append((chroms, pick_total(rnd, chroms, designed), style))
    return out


def gen_hmat(rnd, tier):
    pool = gen_layout_pool(rnd, 2500 if tier == "thorough" else 260)
    i = 0
    for chroms, n, style in pool:
        for target in ("haplo", "ohv", "opv", "gb"):
            i += 1
            gm = rnd.choice(["binary", "binary", "big", "signed", "ones", "zeros"]) if target == "haplo" \
                else rnd.choice(["binary", "binary", "ones", "zeros"])
            um = rnd.choice(["int", "int", "real", "mixed", "neg", "zero", "f32"]) if target == "haplo" \
                else rnd.choice(["int", "int", "real", "mixed", "neg"])
            yield dict(k="hmat", chroms=chroms, n=n, target=target, m=rnd.choice([1, 2, 2, 3, 4]),
                       nind=rnd.randint(1, 3), t=rnd.randint(1, 3), seed=rnd.randint(0, 10 ** 6), gmode=gm, umode=um)


def gen_ohvmat(rnd, tier):
    for _ in range(6000 if tier == "thorough" else 500):
        nind = rnd.randint(1, 4)
        d = rnd.randint(1, 3)
        xmode = rnd.choice(["unique", "nonunique", "random"])
        if xmode == "unique" and d > nind:
            xmode = "nonunique"
        yield dict(k="ohvmat", m=rnd.choice([1, 2, 2, 4]), nind=nind, b=rnd.randint(1, 4), t=rnd.randint(1, 3), d=d,
                   xmode=xmode, s=rnd.randint(1, 7), mem=rnd.choice([None, 1, 2, 3, 1024]),
                   ploidy=rnd.choice([1, 2, 2, 4]), hmode=rnd.choice(["int", "int", "real", "neg", "ties", "large"]),
                   seed=rnd.randint(0, 10 ** 6))


def gen_ohvpipe(rnd, tier):
    pool = gen_layout_pool(rnd, 1500 if tier == "thorough" else 150)
    for chroms, n, style in pool:
        nind = rnd.randint(1, 4)
        d = rnd.randint(1, 3)
        unique = rnd.random() < 0.5
        if unique and d > nind:
            unique = False
        variant = rnd.choice(["Subset", "Subset", "Binary", "Integer", "Real"])
        yield dict(k="ohvpipe", chroms=chroms, n=n, m=rnd.choice([1, 2, 2, 2, 4]), nind=nind, t=rnd.randint(1, 2),
                   seed=rnd.randint(0, 10 ** 6), gmode=rnd.choice(["binary", "binary", "binary", "ones"]),
                   umode=rnd.choice(["int", "int", "real", "neg", "mixed"]), d=d, unique=unique, variant=variant,
                   via=rnd.choice(["class", "protocol"]), ncross=rnd.randint(1, 3))


def gen_opv(rnd, tier):
    pool = gen_layout_pool(rnd, 2500 if tier == "thorough" else 260)
    for chroms, n, style in pool:
        for kind in ("opv", "gb"):
            nind = rnd.randint(1, 5)
            k = rnd.randint(1, nind)
            x = rnd.sample(range(nind), k)
            if rnd.random() < 0.15:
                x = x + [x[0]]          # a repeated individual does not change what is available
            yield dict(k="opv", kind=kind, chroms=chroms, n=n, m=rnd.choice([1, 2, 2, 2, 4]), nind=nind,
                       t=rnd.randint(1, 3), seed=rnd.randint(0, 10 ** 6), gmode=rnd.choice(["binary", "binary", "ones"]),
                       umode=rnd.choice(["int", "int", "real", "neg", "mixed"]), x=x,
                       nbest=(rnd.randint(1, min(len(x), nind)) if kind == "gb" else 0))


# --------------------------------------------------------------------------------------------------------------
# units
# --------------------------------------------------------------------------------------------------------------
def case_key(case):
    return repr(sorted(case.items(), key=str))


def nontrivial(case):
    k = case["k"]
    if k in ("part", "hmat", "ohvpipe", "opv"):
        return sum(len(c) for c in case["chroms"]) >= 2 and case["n"] >= 2
    if k == "bin":
        return sum(case["nblk"]) >= 2
    if k == "bounds":
        return len(set(case["labels"])) >= 2
    return True


def drive(ctx, cases, sample_keys):
    per_cls = {}
    for case in cases:
        bad, msg, cls, clause = run_full(case)
        ctx.case(key=case_key(case), nontrivial=nontrivial(case),
                 sample={k: case[k] for k in sample_keys if k in case})
        if bad:
            per_cls[cls] = per_cls.get(cls, 0) + 1
            if per_cls[cls] <= 3:
                ctx.fail_input("ring:%s:%s" % (case["k"], clause), case, cls=cls, message=msg)
            unknown = sum(min(v, 3) for c, v in per_cls.items() if c not in KNOWN_INPUT_CLASSES)
            if unknown >= 6:
                break
    ctx.notes.append("failing cases per cls: %r" % (per_cls,))


@unit(P, "ring[partition: apportionment, bins, bounds on marker layouts]", "R", bounded=True,
      targets=["pybrops/core/util/haplo.py:nhaploblk_chrom", "pybrops/core/util/haplo.py:haplobin",
               "pybrops/core/util/haplo.py:haplobin_bounds"],
      note="bounded: 33 curated layouts (incl. 300 markers / 300 blocks); exhaustive integer-grid layouts (1 chromosome "
           "<=5 markers on 0..4, 2 chromosomes <=3 markers on 0..3, 3 chromosomes <=3 markers) x every block total in "
           "[#chromosomes, #markers]; 2500 seeded random layouts (<=5 chromosomes x <=9 markers); thorough: grids 0..6 / "
           "0..4, 40000 random layouts with <=14 markers per chromosome")
def u_ring_partition(ctx):
    ctx.rule = ("every sorted multiset of grid positions per chromosome x every admissible block total, then seeded "
                "random layouts (uniform, log-normal clustered, integer grid with duplicates, and designed layouts with "
                "markers exactly on equal-width edges); distinct by (layout, total); non-trivial if >=2 markers and "
                ">=2 blocks")
    drive(ctx, itertools.chain(gen_part_curated(), gen_part_exhaustive(ctx.tier), gen_part_random(ctx.rng, ctx.tier)),
          ("chroms", "n"))


@unit(P, "ring[haplobin with arbitrary per-chromosome counts; haplobin_bounds on arbitrary labels]", "R", bounded=True,
      targets=["pybrops/core/util/haplo.py:haplobin", "pybrops/core/util/haplo.py:haplobin_bounds"],
      note="bounded: exhaustive 2-chromosome grid layouts (<=3 markers on 0..3) x every count vector with "
           "1<=count<=markers; fractional grid {0,.1,.2,.3,.7,1} <=5 markers; every label sequence of length <=6 over "
           "{0,1,2,5}")
def u_ring_bins(ctx):
    ctx.rule = ("exhaustive: layouts x per-chromosome block counts given directly to haplobin (independent of the "
                "apportionment); all label sequences (sorted or not) for the run-length boundaries")
    drive(ctx, itertools.chain(gen_bin_exhaustive(ctx.tier), gen_bounds(ctx.tier)), ("chroms", "nblk", "labels"))


@unit(P, "ring[block values conserve additive value: haplomat and three _calc_haplomat copies]", "R", bounded=True,
      targets=["pybrops/core/util/haplo.py:haplomat"],
      note="bounded: 23 curated + 10 known-defect + 260 seeded layouts (<=3 chromosomes x <=6 markers; thorough 2500) "
           "x 4 implementations; 1-4 copies, 1-3 individuals, 1-3 traits; int8 genotypes incl. values >100, "
           "integer/real/mixed-magnitude/zero/negative/float32 effects")
def u_ring_hmat(ctx):
    ctx.rule = ("layout pool x {haplo.haplomat, OHV/OPV/GB _calc_haplomat}; seeded genotypes and effects; checks shape, "
                "finiteness, sum over blocks == total additive value of each copy, and each block value == genotype . "
                "effects over the block's markers; numpy.empty poisoned with NaN")
    drive(ctx, gen_hmat(ctx.rng, ctx.tier), ("chroms", "n", "target", "m", "nind", "t"))


@unit(P, "ring[OHV: _calc_ohvmat, problem classes, protocols vs brute force and DH bound]", "R", bounded=True,
      note="bounded: 500 synthetic _calc_ohvmat cases (<=4 copies, <=4 individuals, <=4 blocks, <=3 parents, chunk "
           "sizes None/1/2/3/1024; thorough 6000); 183 end-to-end cases (thorough 1533) over 4 problem classes and 4 "
           "protocols, <=4 individuals, 1-3 parents with/without repetition; DH recombinants exhaustive when <=200")
def u_ring_ohv(ctx):
    ctx.rule = ("seeded; OHV of every parent tuple recomputed from genotypes and effects over the partition's blocks; "
                "every block-boundary doubled haploid of the parents (exhaustive or 40 sampled + arg-max) must not "
                "exceed it and one must attain it; latentfn == negated (weighted) mean of the selected crosses")
    drive(ctx, itertools.chain(gen_ohvmat(ctx.rng, ctx.tier), gen_ohvpipe(ctx.rng, ctx.tier)),
          ("chroms", "n", "variant", "via", "d", "unique", "mem"))


@unit(P, "ring[OPV and GenotypeBuilder latentfn vs brute force and DH bound]", "R", bounded=True,
      note="bounded: (23 curated + 10 known-defect + 260 seeded layouts; thorough 2500) x {OPV, GB}; <=5 individuals, "
           "subsets of 1..5 (some with a repeated member), 1-4 copies, 1-3 traits")
def u_ring_opv(ctx):
    ctx.rule = ("seeded; -latentfn(x) recomputed from genotypes and effects as ploidy * sum over blocks of the best "
                "block value among all copies of the selected individuals; DH bound and attainment as for OHV; GB "
                "with nbest=1 must coincide, GB with nbest>1 follows its documented definition and never exceeds OPV")
    drive(ctx, gen_opv(ctx.rng, ctx.tier), ("chroms", "n", "kind", "x", "nbest"))


def _replay(case):
    bad, msg, cls, clause = run_full(case)
    return bad, ("[cls %s, clause %s] %s" % (cls, clause, msg)) if bad else msg


REPLAYERS = {
    "ring[partition: apportionment, bins, bounds on marker layouts]": _replay,
    "ring[haplobin with arbitrary per-chromosome counts; haplobin_bounds on arbitrary labels]": _replay,
    "ring[block values conserve additive value: haplomat and three _calc_haplomat copies]": _replay,
    "ring[OHV: _calc_ohvmat, problem classes, protocols vs brute force and DH bound]": _replay,
    "ring[OPV and GenotypeBuilder latentfn vs brute force and DH bound]": _replay,
}
