"""C05 -- native bounded ring (mode R): selection objectives mean what they say
in every decision encoding.

Everything here runs the REAL problem classes of pybrops/breed/prot/sel/prob
imported from $PYBROPS_REPO; the oracles are written from the property
statement with plain loops over python floats (definitions, not look-alikes of
the library's vectorised formulae).

Case dictionaries are JSON-serialisable; all data are regenerated inside
`run_case` from the seeds stored in the case.
"""
import itertools
import math
import statistics
import warnings

import numpy

from pyvc.unit import unit

P = "C05"
MODP = "pybrops.breed.prot.sel.prob."
ENCS = ("Subset", "Binary", "Integer", "Real")

# family -> (module, class-name pattern, has decn_space_xmap)
FAM = {
    "ebv": ("EstimatedBreedingValueSelectionProblem", "EstimatedBreedingValue%sSelectionProblem", False),
    "gebv": ("GenomicEstimatedBreedingValueSelectionProblem", "GenomicEstimatedBreedingValue%sSelectionProblem", False),
    "wgs": ("WeightedGenomicSelectionProblem", "WeightedGenomic%sSelectionProblem", False),
    "gwgebv": ("GeneralizedWeightedGenomicEstimatedBreedingValueSelectionProblem",
               "GeneralizedWeightedGenomicEstimatedBreedingValue%sSelectionProblem", False),
    "random": ("RandomSelectionProblem", "Random%sSelectionProblem", False),
    "ocs": ("OptimalContributionSelectionProblem", "OptimalContribution%sSelectionProblem", False),
    "mgr": ("MeanGenomicRelationshipSelectionProblem", "MeanGenomicRelationship%sSelectionProblem", False),
    "meh": ("MeanExpectedHeterozygositySelectionProblem", "MeanExpectedHeterozygosity%sSelectionProblem", False),
    "l1": ("L1NormGenomicSelectionProblem", "L1NormGenomic%sSelectionProblem", False),
    "l2": ("L2NormGenomicSelectionProblem", "L2NormGenomic%sSelectionProblem", False),
    "family": ("FamilyEstimatedBreedingValueSelectionProblem", "FamilyEstimatedBreedingValue%sSelectionProblem", False),
    "uc": ("UsefulnessCriterionSelectionProblem", "UsefulnessCriterion%sMateSelectionProblem", True),
    "ohv": ("OptimalHaploidValueSelectionProblem", "OptimalHaploidValue%sSelectionProblem", True),
    "embv": ("ExpectedMaximumBreedingValueSelectionProblem", "ExpectedMaximumBreedingValue%sSelectionProblem", True),
    # subset-only criteria
    "opv": ("OptimalPopulationValueSelectionProblem", "OptimalPopulationValue%sSelectionProblem", False),
    "pafd": ("PopulationAlleleFrequencyDistanceSelectionProblem", "PopulationAlleleFrequencyDistance%sSelectionProblem", False),
    "pau": ("PopulationAlleleUnavailabilitySelectionProblem", "PopulationAlleleUnavailability%sSelectionProblem", False),
    "mogs": ("MultiObjectiveGenomicSelectionProblem", "MultiObjectiveGenomic%sSelectionProblem", False),
}
FOUR = ("ebv", "gebv", "wgs", "gwgebv", "random", "ocs", "mgr", "meh", "l1", "l2", "family", "uc", "ohv", "embv")
SUBSET_ONLY = ("opv", "pafd", "pau", "mogs")
MEANFAM = {"ebv": "ebv", "gebv": "gebv", "wgs": "wgebv", "gwgebv": "gwgebv", "random": "rbv",
           "uc": "ucmat", "ohv": "ohvmat", "embv": "embv"}
# guarded families: real/integer/binary latentfn replace |sum x| < 1e-10 by 1.0
GUARDED = ("ebv", "gebv", "wgs", "gwgebv", "random", "ocs", "mgr", "meh", "embv")


def all_classes():
    """the 60 concrete problem classes, as (family, encoding) pairs"""
    out = [(f, e) for f in FOUR for e in ENCS]
    out += [(f, "Subset") for f in SUBSET_ONLY]
    return out


def get_class(fam, enc):
    import importlib
    mod, pat, _ = FAM[fam]
    return getattr(importlib.import_module(MODP + mod), pat % enc)


# --------------------------------------------------------------------------
# small numeric helpers
# --------------------------------------------------------------------------
def _fl(a):
    """nested python list of floats"""
    return numpy.asarray(a, dtype=float).tolist()


def _close(a, b, tol=1e-9):
    """a (library, array-like) equals b (oracle, list) to rounding; NaN/inf never close"""
    a = numpy.asarray(a, dtype=float)
    b = numpy.asarray(b, dtype=float)
    if a.shape != b.shape:
        return False
    if a.size == 0:
        return True
    if not (numpy.all(numpy.isfinite(a)) and numpy.all(numpy.isfinite(b))):
        return False
    return bool(numpy.all(numpy.abs(a - b) <= tol * (1.0 + numpy.abs(b))))


def _short(v, m=24):
    v = list(v)
    return repr(v) if len(v) <= m else "%s...(%d entries)" % (repr(v[:m])[:-1], len(v))


def _exact(a, b):
    a = numpy.asarray(a)
    b = numpy.asarray(b)
    return a.shape == b.shape and bool(numpy.array_equal(a, b))


def _spd(rs, n):
    """random symmetric positive definite matrix (a kinship stand-in), well conditioned"""
    A = rs.uniform(-1.0, 1.0, (n, n + 2))
    K = A.dot(A.T) / (n + 2) + 0.05 * numpy.identity(n)
    return 0.5 * (K + K.T)


def _quad(K, w):
    """w' K w by loops"""
    s = 0.0
    n = len(w)
    for i in range(n):
        if w[i] == 0.0:
            continue
        for j in range(n):
            s += w[i] * w[j] * K[i][j]
    return s


def _wmean_cols(M, w):
    """sum_i w_i M[i][t] for every column t"""
    nt = len(M[0]) if len(M) else 0
    out = [0.0] * nt
    for i in range(len(w)):
        if w[i] == 0.0:
            continue
        for t in range(nt):
            out[t] += w[i] * M[i][t]
    return out


# --------------------------------------------------------------------------
# data for direct construction (seeded)
# --------------------------------------------------------------------------
def make_data(fam, seed, n, t, special=None):
    """underlying data of one criterion for n candidates (or n crosses) and t traits.
    `special` in {None, 'ties', 'zeros', 'big'} shapes the value pattern."""
    rs = numpy.random.RandomState(seed)

    def vals(shape):
        if special == "ties":
            return rs.randint(-1, 2, shape).astype(float)
        if special == "zeros":
            v = rs.normal(size=shape)
            v[rs.uniform(size=shape) < 0.5] = 0.0
            return v
        if special == "big":
            return rs.normal(size=shape) * 1e6 + 1e8
        return rs.normal(size=shape) * rs.choice([0.1, 1.0, 25.0])

    d = {}
    if fam in MEANFAM:
        d["M"] = vals((n, t))
        if FAM[fam][2]:
            npar = int(rs.choice([1, 2, 3]))
            d["xmap"] = rs.randint(0, 7, (n, npar)).astype("int64")
    elif fam == "ocs":
        d["ebv"] = vals((n, t))
        d["K"] = _spd(rs, n)
    elif fam in ("mgr", "meh"):
        d["K"] = _spd(rs, n)
    elif fam == "l2":
        d["Ks"] = [_spd(rs, n) for _ in range(t)]
    elif fam == "l1":
        p = int(rs.randint(1, 6))
        d["mkrwt"] = rs.uniform(-1.0, 2.0, (p, t))          # signed weights: |w (f - f*)| is what the criterion sums
        d["tafreq"] = rs.choice([0.0, 0.5, 1.0], (n, p))
        d["tfreq"] = rs.choice([0.0, 0.25, 1.0], (p, t)) if special != "ties" else rs.uniform(0, 1, (p, t))
    elif fam == "family":
        d["ebv"] = vals((n, t))
        nf = int(rs.randint(1, n + 1))
        ids = rs.choice([11, 3, 7, 42, 5, 19, 23, 2][:max(nf, 1)], n)
        d["familyid"] = ids.astype("int64")
    elif fam == "opv":
        nb = int(rs.randint(1, 4))
        d["haplomat"] = vals((2, n, nb, t))
    elif fam in ("pafd", "pau", "mogs"):
        p = int(rs.randint(1, 7))
        d["ploidy"] = 2
        d["geno"] = rs.choice([0, 0, 1, 2, 2], (n, p)).astype("int8")
        d["mkrwt"] = rs.uniform(0.0, 2.0, (p, t))
        d["tfreq"] = rs.choice([0.0, 0.0, 0.3, 0.5, 1.0, 1.0], (p, t))
        if special == "het-targets":          # only targets strictly inside (0,1)
            d["tfreq"] = rs.choice([0.3, 0.5, 0.7], (p, t))
    else:
        raise KeyError(fam)
    return d


def _chol_t(K):
    return numpy.linalg.cholesky(numpy.asarray(K)).T


def ctor_args(fam, d):
    """criterion-specific constructor arguments from the underlying data"""
    if fam in MEANFAM:
        a = {MEANFAM[fam]: numpy.array(d["M"], dtype=float)}
        if FAM[fam][2]:
            a["decn_space_xmap"] = numpy.array(d["xmap"], dtype="int64")
        return a
    if fam == "ocs":
        return dict(ebv=numpy.array(d["ebv"], dtype=float), C=_chol_t(d["K"]))
    if fam in ("mgr", "meh"):
        return dict(C=_chol_t(d["K"]))
    if fam == "l2":
        return dict(C=numpy.stack([_chol_t(K) for K in d["Ks"]]))
    if fam == "l1":
        mk, ta, tf = _fl(d["mkrwt"]), _fl(d["tafreq"]), _fl(d["tfreq"])
        p, t, n = len(mk), len(mk[0]), len(ta)
        V = numpy.empty((t, p, n), dtype=float)
        for tt in range(t):
            for pp in range(p):
                for i in range(n):
                    V[tt, pp, i] = mk[pp][tt] * (ta[i][pp] - tf[pp][tt])
        return dict(V=V)
    if fam == "family":
        return dict(ebv=numpy.array(d["ebv"], dtype=float), familyid=numpy.array(d["familyid"]))
    if fam == "opv":
        return dict(haplomat=numpy.array(d["haplomat"], dtype=float))
    if fam in ("pafd", "pau", "mogs"):
        return dict(geno=numpy.array(d["geno"]), ploidy=int(d["ploidy"]), mkrwt=numpy.array(d["mkrwt"], dtype=float),
                    tfreq=numpy.array(d["tfreq"], dtype=float))
    raise KeyError(fam)


def std_args(enc, nspace, k, nobj, maxcount=1, **ev):
    """the decision-space / objective arguments every problem class takes"""
    if enc == "Subset":
        a = dict(ndecn=k, decn_space=numpy.arange(nspace), decn_space_lower=0, decn_space_upper=max(nspace - 1, 0))
    elif enc == "Binary":
        lo, up = numpy.zeros(nspace, dtype="int64"), numpy.ones(nspace, dtype="int64")
        a = dict(ndecn=nspace, decn_space=numpy.stack([lo, up]), decn_space_lower=lo, decn_space_upper=up)
    elif enc == "Integer":
        lo, up = numpy.zeros(nspace, dtype="int64"), numpy.full(nspace, max(1, maxcount), dtype="int64")
        a = dict(ndecn=nspace, decn_space=numpy.stack([lo, up]), decn_space_lower=lo, decn_space_upper=up)
    else:
        lo, up = numpy.zeros(nspace, dtype=float), numpy.full(nspace, float(max(1, maxcount)), dtype=float)
        a = dict(ndecn=nspace, decn_space=numpy.stack([lo, up]), decn_space_lower=lo, decn_space_upper=up)
    a["nobj"] = nobj
    a.update(ev)
    return a


# --------------------------------------------------------------------------
# ORACLES: the criterion's definition for contributions w (w_i >= 0, sum 1)
# --------------------------------------------------------------------------
def nlat(fam, d):
    if fam in MEANFAM:
        return len(d["M"][0])
    if fam == "ocs":
        return 1 + len(d["ebv"][0])
    if fam in ("mgr", "meh"):
        return 1
    if fam == "l2":
        return len(d["Ks"])
    if fam == "l1":
        return len(d["mkrwt"][0])
    if fam == "family":
        return len(d["ebv"][0]) + len(set(numpy.asarray(d["familyid"]).tolist()))
    if fam == "opv":
        return len(d["haplomat"][0][0][0])
    if fam in ("pafd", "pau"):
        return len(d["mkrwt"][0])
    if fam == "mogs":
        return 2 * len(d["mkrwt"][0])
    raise KeyError(fam)


def oracle_contrib(fam, d, w):
    """latent vector (all objectives minimising) of contributions w; families with four encodings"""
    if fam in MEANFAM:
        # negated contribution-weighted mean of the per-candidate (per-cross) values
        return [-v for v in _wmean_cols(_fl(d["M"]), w)]
    if fam == "ocs":
        # [ sqrt(c'Kc) , -mean breeding value per trait ]
        return [math.sqrt(_quad(_fl(d["K"]), w))] + [-v for v in _wmean_cols(_fl(d["ebv"]), w)]
    if fam == "mgr":
        return [math.sqrt(_quad(_fl(d["K"]), w))]
    if fam == "meh":
        # library convention (documented only by its code): 1 - sqrt(c'Kc), negated.
        # The textbook value 1 - c'Kc is checked separately on the factory route.
        return [-(1.0 - math.sqrt(_quad(_fl(d["K"]), w)))]
    if fam == "l2":
        return [math.sqrt(_quad(_fl(K), w)) for K in d["Ks"]]
    if fam == "l1":
        mk, ta, tf = _fl(d["mkrwt"]), _fl(d["tafreq"]), _fl(d["tfreq"])
        out = []
        for t in range(len(mk[0])):
            s = 0.0
            for p in range(len(mk)):
                f = 0.0
                for i in range(len(w)):
                    f += w[i] * ta[i][p]
                s += abs(mk[p][t] * (f - tf[p][t]))
            out.append(s)
        return out
    if fam == "family":
        ebv = _fl(d["ebv"])
        ids = numpy.asarray(d["familyid"]).tolist()
        out = [-v for v in _wmean_cols(ebv, w)]
        for f in sorted(set(ids)):
            s = 0.0
            for i in range(len(w)):
                if ids[i] == f:
                    s += w[i]
            out.append(-s)
        return out
    raise KeyError(fam)


def oracle_subset(fam, d, sel):
    """latent vector of a selected list `sel` (subset-only criteria)"""
    k = len(sel)
    if fam == "opv":
        H = _fl(d["haplomat"])           # [phase][taxon][block][trait]
        nph, nb, nt = len(H), len(H[0][0]), len(H[0][0][0])
        out = []
        for t in range(nt):
            s = 0.0
            for b in range(nb):
                best = None
                for m in range(nph):
                    for i in sel:
                        v = H[m][i][b][t]
                        if best is None or v > best:
                            best = v
                s += best
            out.append(-nph * s)
        return out
    geno = numpy.asarray(d["geno"]).tolist()
    mk, tf = _fl(d["mkrwt"]), _fl(d["tfreq"])
    ploidy = int(d["ploidy"])
    npk, nt = len(mk), len(mk[0])
    cnt = [sum(int(geno[i][p]) for i in sel) for p in range(npk)]
    tot = ploidy * k
    pafd, pau = [], []
    for t in range(nt):
        sd, su = 0.0, 0.0
        for p in range(npk):
            f = cnt[p] / tot
            sd += mk[p][t] * abs(tf[p][t] - f)
            # can the target frequency still be reached from the alleles present in the selection?
            if tf[p][t] <= 0.0:
                unavailable = (cnt[p] == tot)          # allele '0' needed but lost
            elif tf[p][t] >= 1.0:
                unavailable = (cnt[p] == 0)            # allele '1' needed but lost
            else:
                unavailable = (cnt[p] == 0 or cnt[p] == tot)
            if unavailable:
                su += mk[p][t]
        pafd.append(sd)
        pau.append(su)
    if fam == "pafd":
        return pafd
    if fam == "pau":
        return pau
    return pau + pafd


# --------------------------------------------------------------------------
# transformations: declared functions handed to the problems
# --------------------------------------------------------------------------
class _Rec:
    """a declared transformation that records how it is called"""

    def __init__(self, a, b):
        self.a, self.b, self.calls = a, b, []

    def __call__(self, decnvec, latentvec, **kwargs):
        self.calls.append((numpy.array(decnvec, copy=True), numpy.array(latentvec, copy=True), dict(kwargs)))
        g = kwargs.get("gain", 1.0)
        return g * (self.a * latentvec[::-1] + self.b)


def make_trans(spec, l):
    """spec: None | ['identity'] | ['sum'] | ['dot', [..l..]] | ['empty'] | ['decnsum', v] | ['rec', a, b, gain|None]
    returns (callable or None, kwargs or None, callable used by the oracle)"""
    from pybrops.breed.prot.sel.prob import trans as T
    if spec is None:
        return None, None, None
    kind = spec[0]
    if kind == "identity":
        return T.trans_identity, None, T.trans_identity
    if kind == "sum":
        return T.trans_sum, {}, T.trans_sum
    if kind == "dot":
        return T.trans_dot, {"latentvec_wt": numpy.array(spec[1][:l] + [1.0] * max(0, l - len(spec[1])), dtype=float)}, T.trans_dot
    if kind == "empty":
        return T.trans_empty, None, T.trans_empty
    if kind == "decnsum":
        return T.trans_decnvec_sum_eq, {"decnvec_sum": spec[1]}, T.trans_decnvec_sum_eq
    if kind == "rec":
        r = _Rec(spec[1], spec[2])
        kw = None if spec[3] is None else {"gain": spec[3]}
        return r, kw, r
    raise KeyError(kind)


def _wt(spec, n):
    """weight spec: None | float | list -> argument handed to the constructor"""
    if spec is None or isinstance(spec, (int, float)):
        return spec
    v = list(spec)[:n] + [1.0] * max(0, n - len(spec))
    return numpy.array(v, dtype=float)


def _wt_list(spec, n):
    """the declared weight vector of length n the statement speaks of"""
    if spec is None:
        return [1.0] * n
    if isinstance(spec, (int, float)):
        return [float(spec)] * n
    v = [float(z) for z in spec]
    return v[:n] + [1.0] * max(0, n - len(v))


def trans_len(spec, l, default):
    if spec is None:
        return l if default == "identity" else 0
    return {"identity": l, "sum": 1, "dot": 1, "empty": 0, "decnsum": 1, "rec": l}[spec[0]]


def build_ev(ev, l):
    """ev = {'obj': [tspec, wspec], 'ineq': [...], 'eq': [...]} -> constructor kwargs + bookkeeping"""
    ev = ev or {}
    kw, book = {}, {}
    for part, default, nname, wname, tname in (("obj", "identity", "nobj", "obj_wt", "obj_trans"),
                                               ("ineq", "empty", "nineqcv", "ineqcv_wt", "ineqcv_trans"),
                                               ("eq", "empty", "neqcv", "eqcv_wt", "eqcv_trans")):
        tspec, wspec = ev.get(part, [None, None])
        m = trans_len(tspec, l, default)
        fn, fkw, ofn = make_trans(tspec, l)
        if part == "obj":
            kw[nname] = max(m, 1)
        else:
            kw[nname] = m if (tspec is not None or wspec is not None) else None
        # weights must have the length of the transformed vector
        kw[wname] = _wt(wspec, m) if not (part == "obj" and m == 0) else _wt(wspec, 1)
        kw[tname] = fn
        kw[tname + "_kwargs"] = fkw
        book[part] = dict(m=m, w=_wt_list(wspec, m), fn=ofn, kw=fkw or {}, default=default, tspec=tspec)
    return kw, book


def build_problem(fam, enc, d, k, ev=None, maxcount=1):
    cls = get_class(fam, enc)
    l = nlat(fam, d)
    evkw, book = build_ev(ev, l)
    nspace = len(d["M"]) if fam in MEANFAM else (
        len(d["ebv"]) if fam in ("ocs", "family") else
        len(d["K"]) if fam in ("mgr", "meh") else
        len(d["Ks"][0]) if fam == "l2" else
        len(d["tafreq"]) if fam == "l1" else
        len(d["haplomat"][0]) if fam == "opv" else len(d["geno"]))
    a = std_args(enc, nspace, k, maxcount=maxcount, **evkw)
    a.update(ctor_args(fam, d))
    return cls(**a), book, l


# --------------------------------------------------------------------------
# evalfn oracle: weights x declared transformations of the latent vector
# --------------------------------------------------------------------------
def check_evalfn(prob, book, x, latent, fails, tag):
    """reported objectives / violations are EXACTLY w (*) T(x, latent, **kwargs)"""
    from pybrops.breed.prot.sel.prob import trans as T
    for b in book.values():
        if isinstance(b["fn"], _Rec):
            del b["fn"].calls[:]
    out = prob.evalfn(x)
    if not (isinstance(out, tuple) and len(out) == 3):
        fails.append(("evalfn-shape", "%s evalfn did not return a 3-tuple" % tag))
        return
    for part, got in zip(("obj", "ineq", "eq"), out):
        b = book[part]
        fn = b["fn"]
        if fn is None:
            fn = T.trans_identity if b["default"] == "identity" else T.trans_empty
        if isinstance(fn, _Rec):
            calls = list(fn.calls)
            tv = b["kw"].get("gain", 1.0) * (fn.a * numpy.asarray(latent)[::-1] + fn.b)
            if len(calls) != 1:
                fails.append(("evalfn-trans-call", "%s %s transformation called %d times" % (tag, part, len(calls))))
            else:
                cx, cl, ck = calls[0]
                if not (_exact(cx, x) and _exact(cl, latent) and ck == b["kw"]):
                    fails.append(("evalfn-trans-call", "%s %s transformation got x=%r latent=%r kwargs=%r, declared x=%r latent=%r kwargs=%r"
                                  % (tag, part, cx.tolist(), cl.tolist(), ck, numpy.asarray(x).tolist(), numpy.asarray(latent).tolist(), b["kw"])))
        else:
            tv = fn(x, numpy.asarray(latent), **b["kw"])
        tv = numpy.asarray(tv, dtype=float)
        exp = [b["w"][i] * float(tv[i]) for i in range(len(tv))] if len(b["w"]) == len(tv) else None
        got = numpy.asarray(got)
        if exp is None:
            fails.append(("evalfn-weights", "%s %s: ring bookkeeping mismatch (%d weights, %d values)" % (tag, part, len(b["w"]), len(tv))))
        elif not (got.ndim == 1 and got.shape[0] == len(exp) and all(
                (float(got[i]) == exp[i]) or (math.isnan(exp[i]) and math.isnan(float(got[i]))) for i in range(len(exp)))):
            fails.append(("evalfn-weights", "%s %s = %r but weights x transformation = %r (latent %r)"
                          % (tag, part, got.tolist(), exp, numpy.asarray(latent).tolist())))


def check_evaluate(prob, xs, fails, tag):
    """_evaluate: one row -> F/G/H of evalfn; several rows -> row-wise stack; empty parts omitted"""
    xs = [numpy.asarray(x) for x in xs]
    out = {}
    prob._evaluate(xs[0], out)
    e = prob.evalfn(xs[0])
    for key, v in zip(("F", "G", "H"), e):
        if len(v) > 0:
            if key not in out or not _exact(out[key], v):
                fails.append(("evaluate-1d", "%s _evaluate(1-D) %s=%r, evalfn gives %r" % (tag, key, out.get(key), v)))
        elif key in out:
            fails.append(("evaluate-1d", "%s _evaluate(1-D) reports empty part %s" % (tag, key)))
    if len({x.shape for x in xs}) == 1:
        X = numpy.stack(xs)
        out = {}
        prob._evaluate(X, out)
        es = [prob.evalfn(x) for x in xs]
        for j, key in enumerate(("F", "G", "H")):
            rows = [r[j] for r in es]
            if len(rows[0]) > 0:
                exp = numpy.stack(rows)
                if key not in out or not _exact(out[key], exp):
                    fails.append(("evaluate-2d", "%s _evaluate(2-D) %s=%r, row-wise evalfn gives %r" % (tag, key, out.get(key), exp.tolist())))
            elif key in out:
                fails.append(("evaluate-2d", "%s _evaluate(2-D) reports empty part %s" % (tag, key)))


# --------------------------------------------------------------------------
# kind 'enc': definition + the four encodings + order / scale invariance + evalfn
# --------------------------------------------------------------------------
def encodings(weights, scale, perm_seed):
    """decision vectors in every encoding that express the contributions `weights`
    (non-negative numbers; all four encodings exist when they are integer counts)"""
    n = len(weights)
    integral = all(float(v).is_integer() for v in weights)
    out = []
    if integral:
        counts = [int(v) for v in weights]
        if max(counts) <= 1:
            # a subset decision consists of DISTINCT members of the candidate set; contributions with a
            # count > 1 have no subset (and no binary) encoding -- only the integer and real ones
            sel = [i for i in range(n) if counts[i]]
            rs = numpy.random.RandomState(perm_seed)
            out.append(("Subset", "set", numpy.array(sel, dtype="int64")))
            if len(sel) > 1:
                out.append(("Subset", "set-perm", numpy.array(sel, dtype="int64")[rs.permutation(len(sel))]))
                out.append(("Subset", "set-rev", numpy.array(sel[::-1], dtype="int64")))
            out.append(("Binary", "int", numpy.array(counts, dtype="int64")))
            out.append(("Binary", "bool", numpy.array(counts, dtype=bool)))
            out.append(("Binary", "float", numpy.array(counts, dtype=float)))
        out.append(("Integer", "int64", numpy.array(counts, dtype="int64")))
        out.append(("Integer", "int32", numpy.array(counts, dtype="int32")))
        out.append(("Integer", "x3", 3 * numpy.array(counts, dtype="int64")))
        if max(counts) * 7 <= 127:
            out.append(("Integer", "int8x7", (7 * numpy.array(counts)).astype("int8")))
    out.append(("Real", "raw", numpy.array(weights, dtype=float)))
    out.append(("Real", "scaled", numpy.array(weights, dtype=float) * scale))
    tot = float(sum(weights))
    out.append(("Real", "unit-sum", numpy.array([v / tot for v in weights], dtype=float)))
    return out


def check_enc(case):
    fam, n, t = case["fam"], case["n"], case["t"]
    weights = case["weights"]
    d = make_data(fam, case["seed"], n, t, case.get("special"))
    tot = float(sum(weights))
    w = [float(v) / tot for v in weights]
    exp = oracle_contrib(fam, d, w)
    fails = []
    probs = {}
    maxc = int(max(3 * max(weights), 1)) * 7
    k = max(1, sum(1 for v in weights if v))        # size of the subset decision (distinct members)
    for enc in ENCS:
        probs[enc] = build_problem(fam, enc, d, k, case.get("ev"), maxcount=maxc)
    first = None
    for enc, label, x in encodings(weights, case["scale"], case["seed"] + 17):
        prob, book, l = probs[enc]
        tag = "%s/%s[%s]" % (fam, enc, label)
        x0 = x.copy()
        with warnings.catch_warnings():
            warnings.simplefilter("ignore")
            lat = prob.latentfn(x)
            lat2 = prob.latentfn(x)
        lat = numpy.asarray(lat)
        if lat.ndim != 1 or lat.shape[0] != len(exp):
            fails.append(("latent-shape", "%s latent shape %r, definition has %d entries" % (tag, lat.shape, len(exp))))
            continue
        if not _close(lat, exp):
            fails.append(("latent-definition:%s" % fam, "%s x=%r latent=%r, definition gives %r" % (tag, x.tolist(), lat.tolist(), exp)))
        if first is None:
            first = (tag, lat)
        elif not _close(lat, first[1].tolist()):
            fails.append(("encodings-disagree:%s" % fam, "%s latent=%r but %s latent=%r" % (tag, lat.tolist(), first[0], first[1].tolist())))
        if not _exact(numpy.asarray(lat2), lat) and not (numpy.isnan(lat).any()):
            fails.append(("latent-not-repeatable", "%s second call gives %r, first %r" % (tag, numpy.asarray(lat2).tolist(), lat.tolist())))
        if not _exact(x, x0):
            fails.append(("latent-mutates-x", "%s decision vector changed to %r" % (tag, x.tolist())))
        if label in ("set", "int", "int64", "raw", "scaled", "bool"):
            check_evalfn(prob, book, x, lat, fails, tag)
    if case.get("tiny"):
        # contributions whose sum lies below the libraries' 1e-10 guard: own finding class
        fails = [(("real-sum-below-1e-10-not-normalised" if c.startswith(("latent-definition", "encodings-disagree")) else c), m)
                 for c, m in fails]
    # _evaluate on a few rows (only for same-shape decision vectors of one encoding)
    for enc in ("Subset", "Real"):
        rows = [x for e, lab, x in encodings(weights, case["scale"], case["seed"] + 17) if e == enc]
        if rows:
            with warnings.catch_warnings():
                warnings.simplefilter("ignore")
                check_evaluate(probs[enc][0], rows[:3], fails, "%s/%s" % (fam, enc))
    return fails


def check_subset_only(case):
    fam, n, t = case["fam"], case["n"], case["t"]
    d = make_data(fam, case["seed"], n, t, case.get("special"))
    if "override" in case:
        for kk, vv in case["override"].items():
            d[kk] = numpy.array(vv)
    sel = list(case["sel"])
    exp = oracle_subset(fam, d, sel)
    prob, book, l = build_problem(fam, "Subset", d, len(sel), case.get("ev"))
    fails = []
    rs = numpy.random.RandomState(case["seed"] + 5)
    variants = [("listed", sel)]
    if len(sel) > 1:
        variants.append(("reversed", sel[::-1]))
        variants.append(("permuted", [sel[i] for i in rs.permutation(len(sel))]))
    first = None
    for label, s in variants:
        x = numpy.array(s, dtype="int64")
        x0 = x.copy()
        tag = "%s/Subset[%s]" % (fam, label)
        with warnings.catch_warnings():
            warnings.simplefilter("ignore")
            lat = numpy.asarray(prob.latentfn(x))
        if lat.ndim != 1 or lat.shape[0] != len(exp):
            fails.append(("latent-shape", "%s latent shape %r, definition has %d entries" % (tag, lat.shape, len(exp))))
            continue
        if not _close(lat, exp):
            c = case.get("cls_override") or "latent-definition:%s" % fam
            if fam == "pau" and any(v <= 0.0 or v >= 1.0 for r in _fl(d["tfreq"]) for v in r):
                c = "pau-tmajor-computed-with-tminor"       # targets fixed at 0 or 1: own finding class
            fails.append((c,
                          "%s x=%s latent=%r, definition gives %r" % (tag, _short(s), lat.tolist(), exp)))
        if first is None:
            first = lat
        elif not _close(lat, first.tolist(), 1e-12):
            fails.append(("subset-order-dependence:%s" % fam, "%s latent=%r, as first listed %r" % (tag, lat.tolist(), first.tolist())))
        if not _exact(x, x0):
            fails.append(("latent-mutates-x", "%s decision vector changed" % tag))
        if label == "listed":
            check_evalfn(prob, book, x, lat, fails, tag)
    with warnings.catch_warnings():
        warnings.simplefilter("ignore")
        check_evaluate(prob, [numpy.array(s, dtype="int64") for _, s in variants], fails, "%s/Subset" % fam)
    return fails


# --------------------------------------------------------------------------
# populations (seeded) for the factory routes
# --------------------------------------------------------------------------
TAXA_NAMES = ["zeta", "alpha", "mu", "beta", "omega", "delta", "kappa", "gamma", "pi", "eta", "rho", "tau"]


def make_pop(seed, n, p, t, mode="random", nchr=1):
    """a small diploid population: phased 0/1 alleles [phase][taxon][locus], taxon
    names and groups deliberately NOT in sorted order, additive effects u[locus][trait]"""
    rs = numpy.random.RandomState(seed)
    ph = rs.randint(0, 2, (2, n, p)).astype("int8")
    if mode == "inbred":
        ph[1] = ph[0]
    if mode in ("fixed", "fixed-inbred"):
        if mode == "fixed-inbred":
            ph[1] = ph[0]
        for j in range(p):
            r = rs.uniform()
            if r < 0.3:
                ph[:, :, j] = 0
            elif r < 0.6:
                ph[:, :, j] = 1
    names = [TAXA_NAMES[i % len(TAXA_NAMES)] + ("" if i < len(TAXA_NAMES) else str(i)) for i in range(n)]
    grp = rs.choice([7, 3, 9, 1], n).astype("int64")
    u = rs.normal(size=(p, t))
    if mode.startswith("fixed"):
        u[rs.uniform(size=(p, t)) < 0.15] = 0.0
    beta0 = rs.normal(size=t) * 3.0
    # chromosomes: contiguous, sorted
    sizes = [p // nchr + (1 if c < p % nchr else 0) for c in range(nchr)]
    chrgrp, genpos, xoprob = [], [], []
    for c, sz in enumerate(sizes):
        pos = numpy.sort(rs.uniform(0.0, 1.0, sz))
        pos = pos - pos[0] if sz else pos
        for j in range(sz):
            chrgrp.append(c + 1)
            genpos.append(float(pos[j]) + 0.01 * j)      # strictly increasing
            xoprob.append(0.5 if j == 0 else 0.1)
    return dict(ph=ph, names=names, grp=grp, u=u, beta0=beta0, chrgrp=numpy.array(chrgrp, dtype="int64"),
                genpos=numpy.array(genpos, dtype=float), xoprob=numpy.array(xoprob, dtype=float), n=n, p=p, t=t)


def pop_objects(pop, phased=True):
    from pybrops.popgen.gmat.DenseGenotypeMatrix import DenseGenotypeMatrix
    from pybrops.popgen.gmat.DensePhasedGenotypeMatrix import DensePhasedGenotypeMatrix
    from pybrops.model.gmod.DenseAdditiveLinearGenomicModel import DenseAdditiveLinearGenomicModel
    p = pop["p"]
    common = dict(taxa=numpy.array(pop["names"], dtype=object), taxa_grp=pop["grp"].copy(),
                  vrnt_chrgrp=pop["chrgrp"].copy(), vrnt_phypos=numpy.arange(1, p + 1, dtype="int64") * 10,
                  vrnt_name=numpy.array(["m%d" % j for j in range(p)], dtype=object),
                  vrnt_genpos=pop["genpos"].copy(), vrnt_xoprob=pop["xoprob"].copy())
    if phased:
        g = DensePhasedGenotypeMatrix(mat=pop["ph"].copy(), **common)
    else:
        g = DenseGenotypeMatrix(mat=pop["ph"].sum(0).astype("int8"), **common)
    g.group_vrnt()
    algmod = DenseAdditiveLinearGenomicModel(beta=pop["beta0"][None, :].copy(), u_misc=None, u_a=pop["u"].copy(),
                                             trait=numpy.array(["tr%d" % i for i in range(pop["t"])], dtype=object))
    return g, algmod


def pop_counts(pop):
    """allele-'1' counts [taxon][locus] by loops"""
    ph = pop["ph"]
    return [[int(ph[0][i][j]) + int(ph[1][i][j]) for j in range(pop["p"])] for i in range(pop["n"])]


def pop_gebv(pop):
    """raw genomic breeding values [taxon][trait] = intercept + sum_j count_ij u_jt"""
    Z = pop_counts(pop)
    u = pop["u"].tolist()
    out = []
    for i in range(pop["n"]):
        row = []
        for t in range(pop["t"]):
            s = 0.0
            for j in range(pop["p"]):
                s += Z[i][j] * u[j][t]
            row.append(float(pop["beta0"][t]) + s)
        out.append(row)
    return out


def pop_fafreq(pop):
    """favourable-allele frequency [locus][trait]: allele 1 where u>0, allele 0 where u<0 (None where u==0)"""
    Z = pop_counts(pop)
    n, p, t = pop["n"], pop["p"], pop["t"]
    out = []
    for j in range(p):
        c = sum(Z[i][j] for i in range(n))
        row = []
        for tt in range(t):
            uu = float(pop["u"][j][tt])
            row.append(None if uu == 0.0 else ((c if uu > 0 else 2 * n - c), 2 * n))
        out.append(row)
    return out


def make_bvmat(pop, seed, scaled=True):
    """a breeding value matrix whose raw values are known per taxon"""
    from pybrops.popgen.bvmat.DenseBreedingValueMatrix import DenseBreedingValueMatrix
    rs = numpy.random.RandomState(seed)
    raw = rs.normal(size=(pop["n"], pop["t"])) * 4.0 + 10.0
    kw = dict(taxa=numpy.array(pop["names"], dtype=object), taxa_grp=pop["grp"].copy(),
              trait=numpy.array(["tr%d" % i for i in range(pop["t"])], dtype=object))
    if scaled:
        bv = DenseBreedingValueMatrix.from_numpy(mat=raw.copy(), **kw)
    else:
        bv = DenseBreedingValueMatrix(mat=raw.copy(), location=0.0, scale=1.0, **kw)
    return bv, raw.tolist()


def wgebv_oracle(Z, u, fa, alpha):
    """weighted breeding value sum_j Z_ij u_jt fa_jt^(-alpha).  A locus whose product
    Z_ij u_jt is zero contributes nothing whatever its weight; a non-zero product at
    favourable-allele frequency 0 has no finite value -> (None) undefined."""
    n, p, t = len(Z), len(u), len(u[0])
    out = [[0.0] * t for _ in range(n)]
    defined = [True] * t
    for i in range(n):
        for tt in range(t):
            s = 0.0
            for j in range(p):
                prod = Z[i][j] * u[j][tt]
                if prod == 0.0:
                    continue
                f = fa[j][tt]
                if f is None or f <= 0.0:
                    defined[tt] = False
                    continue
                s += prod * f ** (-alpha)
            out[i][tt] = s
    return out, defined


def _sel_cases(n, rs, m=3):
    """a few contribution count vectors over n candidates"""
    out = []
    for _ in range(m):
        c = rs.randint(0, 3, n)
        if c.sum() == 0:
            c[rs.randint(n)] = 1
        out.append([int(v) for v in c])
    out.append([1] * n)
    one = [0] * n
    one[int(rs.randint(n))] = 1
    out.append(one)
    return out


def latent_all_encodings(cls_of, build, counts, exp, fails, tag, tol=1e-9, cls="factory-latent"):
    """evaluate a factory-built problem in each encoding on the same contributions"""
    n = len(counts)
    sel = [i for i in range(n) for _ in range(counts[i])]
    for enc in ENCS:
        if enc == "Subset":
            if max(counts) > 1 or len(sel) > n:
                continue
            x = numpy.array(sel, dtype="int64")
            k = len(sel)
        elif enc == "Binary":
            if max(counts) > 1:
                continue
            x, k = numpy.array(counts, dtype="int64"), len(sel)
        elif enc == "Integer":
            x, k = numpy.array(counts, dtype="int64"), len(sel)
        else:
            x, k = numpy.array(counts, dtype=float) * 0.37, len(sel)
        prob = build(enc, k)
        with warnings.catch_warnings():
            warnings.simplefilter("ignore")
            lat = numpy.asarray(prob.latentfn(x))
        if not _close(lat, exp, tol):
            fails.append((cls, "%s/%s x=%r latent=%r, definition on the population gives %r" % (tag, enc, x.tolist(), lat.tolist(), exp)))


# --------------------------------------------------------------------------
# kind 'fac-bv': factories of the breeding-value mean criteria
# --------------------------------------------------------------------------
def check_fac_bv(case):
    fam, seed, n, t = case["fam"], case["seed"], case["n"], case["t"]
    pop = make_pop(seed, n, case.get("p", 6), t, case.get("mode", "random"))
    rs = numpy.random.RandomState(seed + 1)
    fails = []
    route = case["route"]
    M = None          # expected stored matrix [taxon][trait]
    exact = False
    attr = {"wgs": "gwgebv"}.get(fam, MEANFAM.get(fam, "ebv"))    # the weighted problems store their matrix as gwgebv
    undefined = [False] * t
    if route == "from_bvmat":
        bv, raw = make_bvmat(pop, seed + 2, case.get("scaled", True))
        unscale = case.get("unscale", True)
        mat, loc, sc = bv.mat.tolist(), numpy.broadcast_to(bv.location, (t,)).tolist(), numpy.broadcast_to(bv.scale, (t,)).tolist()
        if fam == "family":
            M = [[mat[i][j] for j in range(t)] for i in range(n)]          # the matrix' own values, taxon by taxon
            fkw = {}
        else:
            M = [[(sc[j] * mat[i][j] + loc[j]) if unscale else mat[i][j] for j in range(t)] for i in range(n)]
            fkw = dict(unscale=unscale)
            if unscale and not _close(M, raw, 1e-9):
                fails.append(("ring-internal", "unscaled matrix differs from raw values"))
        exact = True
        build = lambda enc, k: get_class(fam, enc).from_bvmat(bvmat=bv, **fkw, **std_args(enc, n, k, nlat_f))
    elif route == "from_gmat_gpmod":
        g, algmod = pop_objects(pop, case.get("phased", True))
        unscale = case.get("unscale", True)
        raw = pop_gebv(pop)
        if unscale:
            M = raw
        else:
            M = []
            cols = [[raw[i][j] for i in range(n)] for j in range(t)]
            mu = [statistics.fmean(c) for c in cols]
            sd = [statistics.pstdev(c) for c in cols]
            for j in range(t):
                if sd[j] <= 1e-9 * (1.0 + abs(mu[j])):
                    undefined[j] = True          # a constant trait has no standardised values (C15's subject)
                    sd[j] = 1.0
            M = [[(raw[i][j] - mu[j]) / sd[j] for j in range(t)] for i in range(n)]
        build = lambda enc, k: get_class(fam, enc).from_gmat_gpmod(gmat=g, gpmod=algmod, unscale=unscale, **std_args(enc, n, k, nlat_f))
    elif route in ("from_numpy", "from_gmat_algpmod"):
        alpha = case.get("alpha", 0.5)
        Z = pop_counts(pop)
        u = pop["u"].tolist()
        if route == "from_numpy":
            fa_arr = rs.uniform(0.05, 1.0, (pop["p"], t))
            if case.get("mode", "random").startswith("fixed"):
                # frequency exactly 0 where the favourable allele is absent and nothing is weighted
                # (all products Z_ij u_jt are zero), exactly 1 at random places
                for j in range(pop["p"]):
                    for tt in range(t):
                        if all(Z[i][j] * u[j][tt] == 0.0 for i in range(n)):
                            fa_arr[j, tt] = 0.0
                        elif rs.uniform() < 0.25:
                            fa_arr[j, tt] = 1.0
            fa = fa_arr.tolist()
            akw = dict(Z_a=numpy.array(Z, dtype=float if case.get("zfloat") else "int8"), u_a=pop["u"].copy(), fafreq=fa_arr.copy())
            if fam == "gwgebv":
                akw["alpha"] = alpha
            build = lambda enc, k: get_class(fam, enc).from_numpy(**akw, **std_args(enc, n, k, nlat_f))
        else:
            g, algmod = pop_objects(pop, case.get("phased", False))
            fa = [[None if f is None else f[0] / f[1] for f in row] for row in pop_fafreq(pop)]
            akw = dict(gmat=g, algpmod=algmod)
            if fam == "gwgebv":
                akw["alpha"] = alpha
            build = lambda enc, k: get_class(fam, enc).from_gmat_algpmod(**akw, **std_args(enc, n, k, nlat_f))
        M, defined = wgebv_oracle(Z, u, fa, alpha if fam == "gwgebv" else 0.5)
        undefined = [not v for v in defined]
    else:
        raise KeyError(route)
    nlat_f = t if fam != "family" else t + len(set(pop["grp"].tolist()))
    boundary = fam in ("wgs", "gwgebv")      # defined values can only be non-finite through a weight at frequency 0
    bcls = "wgebv-nonfinite-at-boundary-frequency:%s:%s" % (fam, route)
    for enc in ENCS:
        tag = "%s/%s.%s" % (fam, enc, route)
        try:
            with warnings.catch_warnings():
                warnings.simplefilter("ignore")
                prob = build(enc, min(2, n))
        except Exception as e:
            c = "factory-crash:%s:%s" % (fam, route)
            if route == "from_gmat_algpmod" and fam == "wgs" and case.get("phased", False):
                c = "wgs-from_gmat_algpmod-phased-matrix-crash"
            fails.append((c, "%s raised %s: %s" % (tag, type(e).__name__, e)))
            continue
        got = numpy.asarray(getattr(prob, attr))
        if got.shape != (n, t):
            fails.append(("factory-data-shape:%s" % fam, "%s stored %s of shape %r, population has %d taxa x %d traits" % (tag, attr, got.shape, n, t)))
            continue
        badcols = [tt for tt in range(t) if not undefined[tt] and not numpy.all(numpy.isfinite(got[:, tt]))]
        if badcols:
            fails.append((bcls if boundary else "factory-data-nonfinite:%s" % fam,
                          "%s stored %s has non-finite values in trait(s) %r although every value is defined: %r (fafreq=%r, u=%r, Z=%r)"
                          % (tag, attr, badcols, got.tolist(), locals().get("fa"), pop["u"].tolist(), locals().get("Z"))))
            continue
        for tt in range(t):
            if undefined[tt]:
                continue
            col_g = [float(got[i][tt]) for i in range(n)]
            col_e = [M[i][tt] for i in range(n)]
            ok = (col_g == col_e) if exact else _close(col_g, col_e)
            if not ok:
                fails.append(("factory-data:%s:%s" % (fam, route), "%s trait %d stored %r, the population's values in taxon order are %r" % (tag, tt, col_g, col_e)))
        if fam == "family":
            if not _exact(prob.familyid, pop["grp"]):
                fails.append(("factory-data:family:familyid", "%s familyid %r, population groups %r" % (tag, numpy.asarray(prob.familyid).tolist(), pop["grp"].tolist())))
    # latent values of factory-built problems on the population, all encodings
    if not any(undefined) and not fails:
        for counts in _sel_cases(n, rs, 2):
            tot = float(sum(counts))
            w = [c / tot for c in counts]
            if fam == "family":
                exp = oracle_contrib("family", dict(ebv=M, familyid=pop["grp"]), w)
            else:
                exp = [-v for v in _wmean_cols(M, w)]
            with warnings.catch_warnings():
                warnings.simplefilter("ignore")
                latent_all_encodings(None, build, counts, exp, fails, "%s.%s" % (fam, route), cls="factory-latent:%s:%s" % (fam, route))
    return fails


def check_fac_random(case):
    """random criterion: one independent standard-normal score per candidate and trait,
    drawn from the library's global generator (reproducible from its seed)"""
    from pybrops.core.random import prng
    n, t, seed = case["n"], case["t"], case["seed"]
    fails = []
    for enc in ENCS:
        cls = get_class("random", enc)
        vals = []
        for rep in range(2):
            prng.seed(seed)
            prob = cls.from_object(ntaxa=n, ntrait=t, **std_args(enc, n, min(2, n), t))
            vals.append(numpy.array(prob.rbv, copy=True))
        tag = "random/%s.from_object" % enc
        if vals[0].shape != (n, t) or not numpy.all(numpy.isfinite(vals[0])):
            fails.append(("factory-data-shape:random", "%s rbv shape %r" % (tag, vals[0].shape)))
            continue
        if not _exact(vals[0], vals[1]):
            fails.append(("random-not-from-global-generator", "%s differs between two runs from the same pybrops seed" % tag))
        if n * t >= 4 and len(set(vals[0].ravel().tolist())) < n * t:
            fails.append(("random-scores-not-distinct", "%s repeated scores %r" % (tag, vals[0].tolist())))
        M = vals[0].tolist()
        counts = [1 if i % 2 == 0 else 0 for i in range(n)]
        w = [c / float(sum(counts)) for c in counts]
        exp = [-v for v in _wmean_cols(M, w)]
        x = {"Subset": numpy.array([i for i in range(n) if counts[i]]), "Binary": numpy.array(counts), "Integer": numpy.array(counts) * 2,
             "Real": numpy.array(counts, dtype=float) * 0.25}[enc]
        prng.seed(seed)
        prob = cls.from_object(ntaxa=n, ntrait=t, **std_args(enc, n, len([c for c in counts if c]), t))
        if not _close(prob.latentfn(x), exp):
            fails.append(("factory-latent:random", "%s latent %r, definition %r" % (tag, numpy.asarray(prob.latentfn(x)).tolist(), exp)))
    return fails


# --------------------------------------------------------------------------
# kind 'fac-kin': factories of the kinship-norm criteria (OCS, MGR, MEH, L2)
# --------------------------------------------------------------------------
def ibs_kinship(pop):
    """molecular kinship by its definition: probability that an allele drawn from taxon i and
    one drawn from taxon j at the same random locus are identical in state"""
    Z = pop_counts(pop)
    n, p = pop["n"], pop["p"]
    K = [[0.0] * n for _ in range(n)]
    for i in range(n):
        for j in range(n):
            s = 0.0
            for l in range(p):
                fi, fj = Z[i][l] / 2.0, Z[j][l] / 2.0
                s += fi * fj + (1.0 - fi) * (1.0 - fj)
            K[i][j] = s / p
    return K


def pool_heterozygosity(pop, w):
    """mean expected heterozygosity of the gene pool formed with contributions w:
    mean over loci of 1 - sum over the two alleles of (pool frequency)^2"""
    Z = pop_counts(pop)
    s = 0.0
    for l in range(pop["p"]):
        f = 0.0
        for i in range(pop["n"]):
            f += w[i] * Z[i][l] / 2.0
        s += 1.0 - (f * f + (1.0 - f) * (1.0 - f))
    return s / pop["p"]


def _stub_cmatfcty(G):
    """a coancestry factory that returns a fixed, known coancestry matrix (kinship = G/2)"""
    from pybrops.popgen.cmat.fcty.CoancestryMatrixFactory import CoancestryMatrixFactory
    from pybrops.popgen.cmat.DenseMolecularCoancestryMatrix import DenseMolecularCoancestryMatrix

    class Stub(CoancestryMatrixFactory):
        def __init__(self):
            self.calls = []

        def from_gmat(self, gmat, **kwargs):
            self.calls.append(dict(kwargs))
            return DenseMolecularCoancestryMatrix(mat=numpy.array(G, dtype=float), taxa=gmat.taxa, taxa_grp=gmat.taxa_grp)
    return Stub()


def check_fac_kin(case):
    fam, seed, n, t = case["fam"], case["seed"], case["n"], case["t"]
    pop = make_pop(seed, n, case.get("p", 8), t, case.get("mode", "random"))
    rs = numpy.random.RandomState(seed + 1)
    numpy.random.seed(seed % (2 ** 31))                 # the library's jitter draws from numpy's global generator
    g, algmod = pop_objects(pop, case.get("phased", True))
    fails = []
    stub = case.get("cmat", "molecular") == "stub"
    if stub:
        Kst = _spd(rs, n)
        fcty = _stub_cmatfcty((2.0 * Kst).tolist())
        K = Kst.tolist()
        tolK = 1e-9
    else:
        from pybrops.popgen.cmat.fcty.DenseMolecularCoancestryMatrixFactory import DenseMolecularCoancestryMatrixFactory
        fcty = DenseMolecularCoancestryMatrixFactory()
        K = ibs_kinship(pop)
        tolK = 3e-6                                     # a diagonal jitter of at most 1e-6 is a documented part of the factory
    if fam == "ocs":
        bv, raw = make_bvmat(pop, seed + 2, case.get("scaled", True))
        unscale = case.get("unscale", True)
        mat = bv.mat.tolist()
        loc, sc = numpy.broadcast_to(bv.location, (t,)).tolist(), numpy.broadcast_to(bv.scale, (t,)).tolist()
        E = [[(sc[j] * mat[i][j] + loc[j]) if unscale else mat[i][j] for j in range(t)] for i in range(n)]
        nl = 1 + t
        build = lambda enc, k: get_class(fam, enc).from_bvmat_gmat(bvmat=bv, gmat=g, cmatfcty=fcty, unscale=unscale, **std_args(enc, n, k, nl))
    elif fam in ("mgr", "meh"):
        nl = 1
        build = lambda enc, k: get_class(fam, enc).from_gmat(gmat=g, cmatfcty=fcty, **std_args(enc, n, k, nl))
    else:
        raise KeyError(fam)
    with warnings.catch_warnings():
        warnings.simplefilter("ignore")
        for enc in ENCS:
            tag = "%s/%s.factory[%s]" % (fam, enc, "stub" if stub else "molecular")
            try:
                prob = build(enc, min(2, n))
            except Exception as e:
                fails.append(("factory-crash:%s" % fam, "%s raised %s: %s" % (tag, type(e).__name__, e)))
                continue
            C = numpy.asarray(prob.C, dtype=float)
            if C.shape != (n, n):
                fails.append(("factory-data-shape:%s" % fam, "%s C has shape %r for %d taxa" % (tag, C.shape, n)))
                continue
            if any(C[i][j] != 0.0 for i in range(n) for j in range(i)):
                fails.append(("factory-data:%s:C-not-upper-triangular" % fam, "%s C=%r" % (tag, C.tolist())))
            CtC = [[sum(C[m][i] * C[m][j] for m in range(n)) for j in range(n)] for i in range(n)]
            if not all(abs(CtC[i][j] - K[i][j]) <= tolK * (1.0 + abs(K[i][j])) for i in range(n) for j in range(n)):
                fails.append(("factory-data:%s:kinship-factor" % fam, "%s C'C=%r but the population's kinship in taxon order is %r" % (tag, CtC, K)))
            if fam == "ocs":
                got = numpy.asarray(prob.ebv)
                if got.shape != (n, t) or [[float(v) for v in r] for r in got.tolist()] != E:
                    fails.append(("factory-data:ocs:ebv", "%s stored ebv %r, population values in taxon order %r" % (tag, got.tolist(), E)))
        if not fails:
            for counts in _sel_cases(n, rs, 2):
                tot = float(sum(counts))
                w = [c / tot for c in counts]
                q = math.sqrt(_quad(K, w))
                if fam == "ocs":
                    exp = [q] + [-v for v in _wmean_cols(E, w)]
                elif fam == "mgr":
                    exp = [q]
                else:
                    exp = [-(1.0 - q)]
                latent_all_encodings(None, build, counts, exp, fails, "%s.factory" % fam, tol=1e-5 if not stub else 1e-9,
                                     cls="factory-latent:%s" % fam)
                if fam == "meh" and not stub:
                    # the criterion by its name: (negated) mean expected heterozygosity of the selected gene pool
                    exp2 = [-pool_heterozygosity(pop, w)]
                    latent_all_encodings(None, build, counts, exp2, fails, "meh.factory(textbook)", tol=1e-5,
                                         cls="meh-latent-is-1-minus-sqrt-coancestry-not-heterozygosity")
    return fails


def l2_kinship(pop, mk, af, tt):
    """generalised weighted relationship for trait tt: sum_l w_l (x_il - 2 a_l)(x_jl - 2 a_l), halved (kinship scale)"""
    Z = pop_counts(pop)
    n, p = pop["n"], pop["p"]
    return [[0.5 * sum(mk[l][tt] * (Z[i][l] - 2.0 * af[l][tt]) * (Z[j][l] - 2.0 * af[l][tt]) for l in range(p)) for j in range(n)]
            for i in range(n)]


def check_fac_l2(case):
    """L2 distance to a target allele frequency through the generalised weighted relationship:
    for trait t, sqrt(c' K_t c) with K_t built from column t of the marker weights and target frequencies,
    which equals  sqrt(2 * sum_l w_lt (f_l(c) - a_lt)^2)  for the pool frequency f_l(c)."""
    seed, n, t = case["seed"], case["n"], case["t"]
    pop = make_pop(seed, n, case.get("p", 9), t, "random")
    rs = numpy.random.RandomState(seed + 1)
    numpy.random.seed(seed % (2 ** 31))
    g, algmod = pop_objects(pop, case.get("phased", True))
    fails = []
    mk = rs.uniform(0.2, 2.0, (pop["p"], t))
    af = rs.uniform(0.0, 1.0, (pop["p"], t))
    if case.get("cmat") == "stub":
        # secondary route: a factory that ignores weights; checks the Cholesky/taxon-order plumbing only
        Kst = _spd(rs, n)
        fcty = _stub_cmatfcty((2.0 * Kst).tolist())
        Ks = [Kst.tolist() for _ in range(t)]
        cls_bad = "factory-data:l2:kinship-factor"
    else:
        from pybrops.popgen.cmat.fcty.DenseGeneralizedWeightedCoancestryMatrixFactory import DenseGeneralizedWeightedCoancestryMatrixFactory
        fcty = DenseGeneralizedWeightedCoancestryMatrixFactory()
        Ks = [l2_kinship(pop, mk.tolist(), af.tolist(), tt) for tt in range(t)]
        cls_bad = "l2-from_gmat-trait-column-not-selected"
    build = lambda enc, k: get_class("l2", enc).from_gmat(gmat=g, cmatfcty=fcty, mkrwt=mk.copy(), afreq=af.copy(), **std_args(enc, n, k, t))
    with warnings.catch_warnings():
        warnings.simplefilter("ignore")
        for enc in ENCS:
            tag = "l2/%s.from_gmat[%s]" % (enc, case.get("cmat", "weighted"))
            try:
                prob = build(enc, min(2, n))
            except Exception as e:
                fails.append((cls_bad if case.get("cmat") != "stub" else "factory-crash:l2", "%s raised %s: %s" % (tag, type(e).__name__, e)))
                continue
            C = numpy.asarray(prob.C, dtype=float)
            if C.shape != (t, n, n):
                fails.append(("factory-data-shape:l2", "%s C has shape %r" % (tag, C.shape)))
                continue
            for tt in range(t):
                if any(C[tt][i][j] != 0.0 for i in range(n) for j in range(i)):
                    fails.append(("factory-data:l2:C-not-upper-triangular", "%s trait %d" % (tag, tt)))
                CtC = [[sum(C[tt][m][i] * C[tt][m][j] for m in range(n)) for j in range(n)] for i in range(n)]
                K = Ks[tt]
                if not all(abs(CtC[i][j] - K[i][j]) <= 3e-6 * (1.0 + abs(K[i][j])) for i in range(n) for j in range(n)):
                    fails.append((cls_bad, "%s trait %d: C'C=%r, relationship of the population for this trait's weights/targets %r" % (tag, tt, CtC, K)))
                    break
        if case.get("cmat") == "stub" and fcty.calls:
            # the relationship of trait i has to be requested with column i of the weights / target frequencies
            calls = fcty.calls[:t]
            okc = len(calls) == t and all(
                _exact(numpy.asarray(calls[i].get("mkrwt")), mk[:, i]) and _exact(numpy.asarray(calls[i].get("afreq")), af[:, i])
                for i in range(t))
            if not okc:
                fails.append(("l2-from_gmat-trait-column-not-selected",
                              "l2.from_gmat asked the coancestry factory for trait relationships with mkrwt shapes %r / afreq shapes %r; "
                              "trait i needs column i (shape (%d,))" % ([numpy.shape(c.get("mkrwt")) for c in calls],
                                                                         [numpy.shape(c.get("afreq")) for c in calls], pop["p"])))
        if not [f for f in fails if f[0] != "l2-from_gmat-trait-column-not-selected"] and (case.get("cmat") == "stub" or not fails):
            for counts in _sel_cases(n, rs, 2):
                tot = float(sum(counts))
                w = [c / tot for c in counts]
                exp = [math.sqrt(max(_quad(K, w), 0.0)) for K in Ks]
                latent_all_encodings(None, build, counts, exp, fails, "l2.from_gmat", tol=1e-4, cls="factory-latent:l2")
    return fails


# --------------------------------------------------------------------------
# kind 'fac-af': factories of the allele-frequency criteria (L1, PAFD, PAU, MOGS)
# --------------------------------------------------------------------------
def _half_sign(u):
    """a declared target function: 1 where the effect is positive, 0 where negative, 0.5 where zero"""
    return numpy.where(u > 0.0, 1.0, numpy.where(u < 0.0, 0.0, 0.5))


def _abs_w(u):
    return numpy.absolute(u)


def check_fac_l1(case):
    seed, n, t = case["seed"], case["n"], case["t"]
    pop = make_pop(seed, n, case.get("p", 6), t, case.get("mode", "random"))
    rs = numpy.random.RandomState(seed + 1)
    Z = pop_counts(pop)
    tafreq = numpy.array([[Z[i][l] / 2.0 for l in range(pop["p"])] for i in range(n)])
    mk = rs.uniform(-1.0, 2.0, (pop["p"], t))
    tf = rs.choice([0.0, 0.3, 1.0], (pop["p"], t))
    d = dict(mkrwt=mk, tafreq=tafreq, tfreq=tf)
    fails = []
    build = lambda enc, k: get_class("l1", enc).from_numpy(mkrwt=mk.copy(), tafreq=tafreq.copy(), tfreq=tf.copy(), **std_args(enc, n, k, t))
    for enc in ENCS:
        tag = "l1/%s.from_numpy" % enc
        try:
            prob = build(enc, min(2, n))
        except Exception as e:
            fails.append(("factory-crash:l1", "%s raised %s: %s" % (tag, type(e).__name__, e)))
            continue
        V = numpy.asarray(prob.V)
        exp = ctor_args("l1", d)["V"]
        if V.shape != exp.shape or not _close(V, exp.tolist(), 1e-12):
            fails.append(("factory-data:l1:V", "%s V=%r, weighted deviations [trait][locus][taxon] are %r" % (tag, V.tolist(), exp.tolist())))
    if not fails:
        for counts in _sel_cases(n, rs, 2):
            tot = float(sum(counts))
            exp = oracle_contrib("l1", d, [c / tot for c in counts])
            latent_all_encodings(None, build, counts, exp, fails, "l1.from_numpy", cls="factory-latent:l1")
    # shape mismatches must be refused, not silently broadcast
    for what, bad in (("tafreq-loci", dict(tafreq=tafreq[:, :-1].copy())), ("tfreq-traits", dict(tfreq=numpy.concatenate([tf, tf], axis=1)))):
        if pop["p"] < 2:
            continue
        a = dict(mkrwt=mk.copy(), tafreq=tafreq.copy(), tfreq=tf.copy())
        a.update(bad)
        try:
            get_class("l1", "Subset").from_numpy(**a, **std_args("Subset", n, 1, t))
            fails.append(("factory-accepts-mismatched-shapes:l1", "from_numpy accepted mismatching %s" % what))
        except (ValueError, TypeError):
            pass
    return fails


def check_fac_af(case):
    fam, seed, n, t = case["fam"], case["seed"], case["n"], case["t"]
    pop = make_pop(seed, n, case.get("p", 6), t, case.get("mode", "random"))
    rs = numpy.random.RandomState(seed + 1)
    g, algmod = pop_objects(pop, case.get("phased", True))
    fails = []
    if case.get("callable", True):
        weight, target = _abs_w, _half_sign
        mk, tf = numpy.absolute(pop["u"]), _half_sign(pop["u"])
    else:
        mk = rs.uniform(0.0, 2.0, (pop["p"], t))
        tf = rs.choice([0.0, 0.4, 1.0], (pop["p"], t))
        if case.get("het_targets"):
            tf = rs.choice([0.2, 0.4, 0.9], (pop["p"], t))
        weight, target = mk.copy(), tf.copy()
    Z = pop_counts(pop)
    d = dict(geno=numpy.array(Z), ploidy=2, mkrwt=mk, tfreq=tf)
    cls = get_class(fam, "Subset")
    k = min(case.get("k", 2), n)
    nl = nlat(fam, d)
    try:
        prob = cls.from_gmat_gpmod(gmat=g, weight=weight, target=target, gpmod=algmod, **std_args("Subset", n, k, nl))
    except Exception as e:
        return [("factory-crash:%s" % fam, "%s.from_gmat_gpmod raised %s: %s" % (fam, type(e).__name__, e))]
    tag = "%s/Subset.from_gmat_gpmod" % fam
    if not _exact(numpy.asarray(prob.geno), numpy.array(Z)):
        fails.append(("factory-data:%s:geno" % fam, "%s geno=%r, population allele counts in taxon order %r" % (tag, numpy.asarray(prob.geno).tolist(), Z)))
    if prob.ploidy != 2:
        fails.append(("factory-data:%s:ploidy" % fam, "%s ploidy=%r" % (tag, prob.ploidy)))
    if not _exact(numpy.asarray(prob.mkrwt), mk):
        fails.append(("factory-data:%s:mkrwt" % fam, "%s mkrwt=%r, declared weights %r" % (tag, numpy.asarray(prob.mkrwt).tolist(), mk.tolist())))
    if not _exact(numpy.asarray(prob.tfreq), tf):
        fails.append(("factory-data:%s:tfreq" % fam, "%s tfreq=%r, declared targets %r" % (tag, numpy.asarray(prob.tfreq).tolist(), tf.tolist())))
    if not fails:
        for _ in range(3):
            sel = [int(v) for v in rs.choice(n, k, replace=False)]
            exp = oracle_subset(fam, d, sel)
            lat = numpy.asarray(prob.latentfn(numpy.array(sel, dtype="int64")))
            if not _close(lat, exp):
                c = "factory-latent:%s" % fam
                if fam == "pau" and not case.get("het_targets") :
                    c = "pau-tmajor-computed-with-tminor"
                fails.append((c, "%s x=%r latent=%r, definition on the population gives %r (tfreq=%r)" % (tag, sel, lat.tolist(), exp, tf.tolist())))
    return fails


# --------------------------------------------------------------------------
# kind 'fac-x': criteria defined on crosses (UC, OHV, EMBV) and OPV
# --------------------------------------------------------------------------
def cross_map(ntaxa, nparent, unique):
    """all parent combinations in lexicographic order (without / with repeated parents)"""
    it = itertools.combinations(range(ntaxa), nparent) if unique else itertools.combinations_with_replacement(range(ntaxa), nparent)
    return [list(c) for c in it]


def selection_intensity(q):
    """mean of the upper fraction q of a standard normal: phi(z)/q with P(Z > z) = q"""
    if q >= 1.0:
        return 0.0
    nd = statistics.NormalDist()
    z = nd.inv_cdf(1.0 - q)
    return nd.pdf(z) / q


def check_fac_uc(case):
    seed, n, t = case["seed"], case["n"], case["t"]
    pop = make_pop(seed, n, case.get("p", 6), t, "random")
    rs = numpy.random.RandomState(seed + 1)
    g, algmod = pop_objects(pop, True)
    from pybrops.model.vmat.fcty.GeneticVarianceMatrixFactory import GeneticVarianceMatrixFactory
    from pybrops.model.vmat.DenseTwoWayDHAdditiveGeneticVarianceMatrix import DenseTwoWayDHAdditiveGeneticVarianceMatrix
    from pybrops.popgen.gmap.HaldaneMapFunction import HaldaneMapFunction
    gmapfn = HaldaneMapFunction()
    q = case.get("q", 0.1)
    unique = case.get("unique", True)
    ncross, nprogeny, nself = case.get("ncross", 1), case.get("nprogeny", 10), case.get("nself", 0)
    fails = []
    npar = case.get("npar", 2)
    if case.get("vmat", "stub") == "stub":
        V = rs.uniform(0.0, 4.0, (n,) * npar + (t,))         # deliberately not symmetric: [female][male][trait]
        V[rs.uniform(size=V.shape) < 0.15] = 0.0
        calls = []
        if npar == 3:
            from pybrops.model.vmat.DenseThreeWayDHAdditiveGeneticVarianceMatrix import DenseThreeWayDHAdditiveGeneticVarianceMatrix as VM
        else:
            VM = DenseTwoWayDHAdditiveGeneticVarianceMatrix

        class Stub(GeneticVarianceMatrixFactory):
            def from_gmod(self, gmod, pgmat, ncross, nprogeny, nself, gmapfn, **kwargs):
                calls.append(dict(gmod=gmod, pgmat=pgmat, ncross=ncross, nprogeny=nprogeny, nself=nself, gmapfn=gmapfn))
                return VM(mat=V.copy(), taxa=pgmat.taxa, taxa_grp=pgmat.taxa_grp)
        fcty = Stub()
        var = V.tolist()
        epgc = [float(v) for v in VM(mat=V.copy()).epgc]     # the design's expected parental genome contributions (unequal for 3-way)
    else:
        from pybrops.model.vmat.fcty.DenseTwoWayDHAdditiveGeneticVarianceMatrixFactory import DenseTwoWayDHAdditiveGeneticVarianceMatrixFactory
        fcty = DenseTwoWayDHAdditiveGeneticVarianceMatrixFactory()
        vm = fcty.from_gmod(gmod=algmod, pgmat=g, ncross=ncross, nprogeny=nprogeny, nself=nself, gmapfn=gmapfn)
        var = numpy.asarray(vm.mat).tolist()
        epgc = [float(v) for v in vm.epgc]
        calls = None
    gebv = pop_gebv(pop)
    if case.get("xmap") == "given":
        full = cross_map(n, npar, False)
        idx = rs.permutation(len(full))[:max(1, len(full) // 2)]
        xm = [full[i][::-1] if rs.uniform() < 0.5 else full[i] for i in idx]       # arbitrary order, female/male either way
    else:
        xm = cross_map(n, npar, unique)
    si = selection_intensity(q)
    UC = []
    for cfg in xm:
        row = []
        for tt in range(t):
            pm = sum(epgc[a] * gebv[cfg[a]][tt] for a in range(npar))
            vv = var
            for a in range(npar):
                vv = vv[cfg[a]]
            row.append(pm + si * math.sqrt(vv[tt]))
        UC.append(row)
    nx = len(xm)

    def build(enc, k):
        cls = get_class("uc", enc)
        common = dict(nparent=npar, ncross=ncross, nprogeny=nprogeny, nself=nself, upper_percentile=q, vmatfcty=fcty, gmapfn=gmapfn,
                      unique_parents=unique, pgmat=g, gpmod=algmod)
        if case.get("xmap") == "given":
            return cls.from_pgmat_gpmod_xmap(xmap=numpy.array(xm, dtype="int64"), **common, **std_args(enc, nx, k, t))
        return cls.from_pgmat_gpmod(**common, **std_args(enc, nx, k, t))
    with warnings.catch_warnings():
        warnings.simplefilter("ignore")
        for enc in ENCS:
            tag = "uc/%s.%s" % (enc, "from_pgmat_gpmod_xmap" if case.get("xmap") == "given" else "from_pgmat_gpmod")
            try:
                prob = build(enc, min(2, nx))
            except Exception as e:
                fails.append(("factory-crash:uc", "%s raised %s: %s" % (tag, type(e).__name__, e)))
                continue
            if not _exact(numpy.asarray(prob.decn_space_xmap), numpy.array(xm, dtype="int64")):
                fails.append(("factory-data:uc:xmap", "%s cross map %r, expected %r" % (tag, numpy.asarray(prob.decn_space_xmap).tolist(), xm)))
                continue
            if not _close(prob.ucmat, UC):
                fails.append(("factory-data:uc:ucmat", "%s ucmat=%r; parental mean . epgc + i*sqrt(var) through the cross map gives %r"
                              % (tag, numpy.asarray(prob.ucmat).tolist(), UC)))
            if calls is not None and calls:
                c = calls[-1]
                if not (c["gmod"] is algmod and c["pgmat"] is g and c["ncross"] == ncross and c["nprogeny"] == nprogeny
                        and c["nself"] == nself and c["gmapfn"] is gmapfn):
                    fails.append(("factory-data:uc:variance-arguments", "%s variance factory called with %r" % (tag, {k_: v for k_, v in c.items() if k_ not in ("gmod", "pgmat", "gmapfn")})))
        if not fails:
            for counts in _sel_cases(nx, rs, 2):
                tot = float(sum(counts))
                exp = [-v for v in _wmean_cols(UC, [c / tot for c in counts])]
                latent_all_encodings(None, build, counts, exp, fails, "uc.factory", cls="factory-latent:uc")
    return fails


def hap_blocks(g, nhaploblk):
    """block boundaries (start, stop) -- the block partition itself is C18's subject and is taken from the library"""
    from pybrops.core.util.haplo import nhaploblk_chrom, haplobin, haplobin_bounds
    if nhaploblk < len(g.vrnt_chrgrp_stix):
        return None                                    # fewer blocks than chromosomes: not a valid input
    nblk = nhaploblk_chrom(nhaploblk, g.vrnt_genpos, g.vrnt_chrgrp_stix, g.vrnt_chrgrp_spix)
    if numpy.any(nblk > g.vrnt_chrgrp_len):
        return None
    hbin = haplobin(nblk, g.vrnt_genpos, g.vrnt_chrgrp_stix, g.vrnt_chrgrp_spix)
    st, sp, ln = haplobin_bounds(hbin)
    if len(st) != nhaploblk or sorted(set(hbin.tolist())) != list(range(nhaploblk)):
        return None                                    # an empty block (C18 finding): not a C05 input
    return [(int(a), int(b)) for a, b in zip(st, sp)]


def hap_values(pop, blocks):
    """H[phase][taxon][block][trait] = sum over the block's loci of allele * effect"""
    ph, u = pop["ph"].tolist(), pop["u"].tolist()
    return [[[[sum(ph[m][i][l] * u[l][tt] for l in range(a, b)) for tt in range(pop["t"])] for (a, b) in blocks]
             for i in range(pop["n"])] for m in range(2)]


def check_fac_ohv(case):
    fam, seed, n, t = case["fam"], case["seed"], case["n"], case["t"]
    pop = make_pop(seed, n, case.get("p", 8), t, case.get("mode", "random"), nchr=case.get("nchr", 1))
    rs = numpy.random.RandomState(seed + 1)
    g, algmod = pop_objects(pop, True)
    nb = case.get("nhaploblk", 2)
    blocks = hap_blocks(g, nb)
    if blocks is None:
        return "skip"
    H = hap_values(pop, blocks)
    fails = []
    if fam == "opv":
        try:
            prob = get_class("opv", "Subset").from_pgmat_gpmod(nhaploblk=nb, pgmat=g, gpmod=algmod, **std_args("Subset", n, min(2, n), t))
        except Exception as e:
            return [("factory-crash:opv", "opv.from_pgmat_gpmod raised %s: %s" % (type(e).__name__, e))]
        hm = numpy.asarray(prob.haplomat)
        if hm.shape != (2, n, nb, t) or not _close(hm, H):
            fails.append(("factory-data:opv:haplomat", "opv haplomat=%r, block values of the population %r" % (hm.tolist(), H)))
        else:
            for _ in range(3):
                k = int(rs.randint(1, n + 1))
                sel = [int(v) for v in rs.choice(n, k, replace=False)]
                exp = oracle_subset("opv", dict(haplomat=H), sel)
                lat = numpy.asarray(prob.latentfn(numpy.array(sel)))
                if not _close(lat, exp):
                    fails.append(("factory-latent:opv", "opv x=%r latent=%r, definition %r" % (sel, lat.tolist(), exp)))
        return fails
    npar, unique = case.get("nparent", 2), case.get("unique", True)
    xm = cross_map(n, npar, unique)
    OHV = []
    for cfg in xm:
        row = []
        for tt in range(t):
            s = 0.0
            for b in range(nb):
                s += max(H[m][i][b][tt] for m in range(2) for i in cfg)
            row.append(2 * s)
        OHV.append(row)
    nx = len(xm)
    build = lambda enc, k: get_class("ohv", enc).from_pgmat_gpmod(nparent=npar, nhaploblk=nb, unique_parents=unique, pgmat=g, gpmod=algmod,
                                                                 **std_args(enc, nx, k, t))
    encs = ENCS if nx <= 200 else ("Subset", "Real")
    for enc in encs:
        tag = "ohv/%s.from_pgmat_gpmod" % enc
        try:
            prob = build(enc, min(2, nx))
        except Exception as e:
            fails.append(("factory-crash:ohv", "%s raised %s: %s" % (tag, type(e).__name__, e)))
            continue
        if not _exact(numpy.asarray(prob.decn_space_xmap), numpy.array(xm, dtype="int64")):
            fails.append(("factory-data:ohv:xmap", "%s cross map differs from the lexicographic parent combinations" % tag))
            continue
        got = numpy.asarray(prob.ohvmat)
        if got.shape != (nx, t) or not _close(got, OHV):
            bad = [r for r in range(min(nx, got.shape[0])) if not _close(got[r], OHV[r])][:3]
            fails.append(("factory-data:ohv:ohvmat", "%s ohvmat differs at crosses %r: %r, ploidy * sum over blocks of the best block value gives %r"
                          % (tag, [xm[r] for r in bad], [got[r].tolist() for r in bad], [OHV[r] for r in bad])))
    if not fails and nx <= 200:
        for counts in _sel_cases(nx, rs, 2):
            tot = float(sum(counts))
            exp = [-v for v in _wmean_cols(OHV, [c / tot for c in counts])]
            latent_all_encodings(None, build, counts, exp, fails, "ohv.factory", cls="factory-latent:ohv")
    return fails


def check_fac_embv(case):
    """expected maximum breeding value of a cross = mean over nrep simulated progeny sets of the best
    progeny breeding value; the mating protocol is a deterministic stand-in so that the value is known"""
    seed, n, t = case["seed"], case["n"], case["t"]
    pop = make_pop(seed, n, case.get("p", 6), t, "random")
    rs = numpy.random.RandomState(seed + 1)
    g, algmod = pop_objects(pop, True)
    from pybrops.breed.prot.mate.MatingProtocol import MatingProtocol
    npar, unique, nrep = case.get("nparent", 2), case.get("unique", True), case.get("nrep", 2)
    nmating, nprogeny = case.get("nmating", 1), case.get("nprogeny", 3)
    stubs = []

    class Stub(MatingProtocol):
        """progeny set number r of a cross = its first (r mod nparent)+1 parents, unchanged"""
        nparent = npar

        def __init__(self):
            self.calls = []
            stubs.append(self)

        def mate(self, pgmat, xconfig, nmating, nprogeny, miscout, **kwargs):
            calls = self.calls
            cfg = [int(v) for v in numpy.asarray(xconfig).ravel()]
            r = sum(1 for c in calls if c["cfg"] == cfg)
            calls.append(dict(cfg=cfg, shape=numpy.asarray(xconfig).shape, nmating=nmating, nprogeny=nprogeny, same=pgmat is g))
            return pgmat.select_taxa(cfg[:(r % npar) + 1])
    gebv = pop_gebv(pop)
    xm = cross_map(n, npar, unique)
    EM = []
    for cfg in xm:
        row = []
        for tt in range(t):
            s = 0.0
            for r in range(nrep):
                s += max(gebv[i][tt] for i in cfg[:(r % npar) + 1])
            row.append(s / nrep)
        EM.append(row)
    nx = len(xm)
    fails = []
    build = lambda enc, k: get_class("embv", enc).from_pgmat_gpmod(nparent=npar, nmating=nmating, nprogeny=nprogeny, nrep=nrep, unique_parents=unique,
                                                                  pgmat=g, gpmod=algmod, mateprot=Stub(), **std_args(enc, nx, k, t))
    for enc in ENCS:
        tag = "embv/%s.from_pgmat_gpmod" % enc
        try:
            prob = build(enc, min(2, nx))
        except Exception as e:
            c = "factory-crash:embv"
            if isinstance(e, IndexError) and nrep > nx:
                c = "embv-replicate-loop-overwrites-cross-index"      # row nrep-1 does not exist: same defect
            fails.append((c, "%s (nrep=%d, %d crosses) raised %s: %s" % (tag, nrep, nx, type(e).__name__, e)))
            continue
        calls = stubs[-1].calls
        if not _exact(numpy.asarray(prob.decn_space_xmap), numpy.array(xm, dtype="int64")):
            fails.append(("factory-data:embv:xmap", "%s cross map differs" % tag))
            continue
        if [c["cfg"] for c in calls] != [cfg for cfg in xm for _ in range(nrep)] or not all(
                c["nmating"] == nmating and c["nprogeny"] == nprogeny and c["same"] and c["shape"] == (1, npar) for c in calls):
            fails.append(("factory-data:embv:mating-arguments", "%s mating protocol calls %r" % (tag, calls[:6])))
        got = numpy.asarray(prob.embv)
        if got.shape != (nx, t) or not _close(got, EM):
            # signature of the known defect: every cross's average lands in row nrep-1, so that row holds the LAST cross's value
            sig = got.shape == (nx, t) and (nx > 1 or nrep > 1) and nrep - 1 < nx and _close(got[nrep - 1], EM[nx - 1])
            fails.append(("embv-replicate-loop-overwrites-cross-index" if sig else "factory-data:embv:embv",
                          "%s (nrep=%d) embv=%r; mean over replicates of the best progeny value per cross is %r" % (tag, nrep, got.tolist(), EM)))
    if not fails:
        for counts in _sel_cases(nx, rs, 2):
            tot = float(sum(counts))
            exp = [-v for v in _wmean_cols(EM, [c / tot for c in counts])]
            latent_all_encodings(None, build, counts, exp, fails, "embv.factory", cls="factory-latent:embv")
    return fails


# --------------------------------------------------------------------------
# kind 'mat': the two anchored model matrices (weighted GEBV, expected maximum BV)
# --------------------------------------------------------------------------
def check_wgebvmat(case):
    from pybrops.model.wgebvmat.DenseWeightedGenomicEstimatedBreedingValueMatrix import DenseWeightedGenomicEstimatedBreedingValueMatrix as W
    seed, n, t = case["seed"], case["n"], case["t"]
    mode = case.get("mode", "random")
    pop = make_pop(seed, n, case.get("p", 6), t, mode)
    g, algmod = pop_objects(pop, case.get("phased", True))
    fails = []
    with warnings.catch_warnings():
        warnings.simplefilter("ignore")
        out = W.from_algmod(algmod=algmod, gmat=g)
        raw = numpy.asarray(out.unscale())
    if raw.shape != (n, t):
        return [("wgebvmat-shape", "shape %r" % (raw.shape,))]
    if not (_exact(out.taxa, numpy.array(pop["names"], dtype=object)) and _exact(out.taxa_grp, pop["grp"])):
        fails.append(("wgebvmat-taxa-order", "taxa %r / groups %r, population %r / %r" % (list(out.taxa), list(out.taxa_grp), pop["names"], pop["grp"].tolist())))
    if not numpy.all(numpy.isfinite(raw)):
        fa = pop_fafreq(pop)
        at1 = [(j, tt) for j in range(pop["p"]) for tt in range(t) if fa[j][tt] is not None and fa[j][tt][0] == fa[j][tt][1]]
        fails.append(("wgebvmat-nan-at-favourable-frequency-one" if at1 else "wgebvmat-nonfinite",
                      "weighted GEBVs %r are not finite; loci/traits with favourable allele fixed: %r" % (raw.tolist(), at1)))
        return fails
    # weighted GEBV is a per-locus reweighting of the additive effects that keeps their sign: for every locus and trait
    # value_i = sum_l Z_il u_lt weight_lt with weight > 0.  Taxa with identical genotypes get identical values, and
    # the same population listed in another taxon order gives the same values per taxon.
    perm = numpy.random.RandomState(seed + 3).permutation(n)
    pop2 = dict(pop)
    pop2["ph"] = pop["ph"][:, perm, :]
    pop2["names"] = [pop["names"][i] for i in perm]
    pop2["grp"] = pop["grp"][perm]
    g2, algmod2 = pop_objects(pop2, case.get("phased", True))
    with warnings.catch_warnings():
        warnings.simplefilter("ignore")
        raw2 = numpy.asarray(W.from_algmod(algmod=algmod2, gmat=g2).unscale())
    if not _close(raw2, raw[perm].tolist(), 1e-8):
        fails.append(("wgebvmat-taxa-order", "values after reordering the taxa %r, expected the same values per taxon %r" % (raw2.tolist(), raw[perm].tolist())))
    return fails


def _dh_gametes(hap0, hap1, rnd, xoprob):
    """one doubled-haploid gamete per row of `rnd`, by the meiosis contract: start on the first
    chromosome copy and switch copies at every locus j whose draw is below xoprob[j]"""
    out = []
    for r in rnd:
        phase, g = 0, []
        for j in range(len(xoprob)):
            if r[j] < xoprob[j]:
                phase = 1 - phase
            g.append(hap1[j] if phase else hap0[j])
        out.append(g)
    return out


def check_embvmat(case):
    """expected maximum breeding value of a taxon = mean over its nrep replicates of the best genomic breeding
    value among its nprogeny doubled-haploid progeny.  (i) a completely homozygous taxon only has progeny equal
    to itself, so its value is its own breeding value whatever nrep/nprogeny/draws are; (ii) for every taxon the
    value is replayed from the definition with a twin of the library's generator (same state, same draw order:
    taxon by taxon, replicate by replicate, one uniform block of nprogeny x loci per replicate)."""
    from pybrops.model.embvmat.DenseExpectedMaximumBreedingValueMatrix import DenseExpectedMaximumBreedingValueMatrix as E
    from pybrops.core.random import prng
    seed, n, t = case["seed"], case["n"], case["t"]
    het = case.get("het", False)
    het = {False: "none", True: "one"}.get(het, het)            # 'none' | 'one' | 'all'
    pop = make_pop(seed, n, case.get("p", 6), t, "random" if het == "all" else "inbred")
    if het == "one":
        # one heterozygous taxon with recombination switched off: its progeny are copies of one of its two gametes
        pop["ph"][1, 0, :] = 1 - pop["ph"][0, 0, :]
        pop["xoprob"][1:] = 0.0
    g, algmod = pop_objects(pop, True)

    def per_taxon(v):
        return [int(z) for z in v] if isinstance(v, (list, tuple)) else [int(v)] * n
    nprog_l, nrep_l = per_taxon(case.get("nprogeny", 3)), per_taxon(case.get("nrep", 2))
    if len(nprog_l) != n or len(nrep_l) != n:
        return "skip"

    def arg(v, lst):
        if isinstance(v, (list, tuple)) or case.get("arrays"):
            return numpy.array(lst, dtype="int64")               # the documented per-taxon array form
        return int(v)
    prng.seed(seed)
    twin = numpy.random.RandomState()
    twin.set_state(numpy.random.get_state())                     # twin of the library's global generator
    out = E.from_gmod(gmod=algmod, pgmat=g, nprogeny=arg(case.get("nprogeny", 3), nprog_l), nrep=arg(case.get("nrep", 2), nrep_l))
    raw = numpy.asarray(out.unscale())
    gebv = pop_gebv(pop)
    fails = []
    if raw.shape != (n, t):
        return [("embvmat-shape", "shape %r" % (raw.shape,))]
    if not (_exact(out.taxa, numpy.array(pop["names"], dtype=object)) and _exact(out.taxa_grp, pop["grp"])):
        fails.append(("embvmat-taxa-order", "taxa %r, population %r" % (list(out.taxa), pop["names"])))
    ph, u, p = pop["ph"].tolist(), pop["u"].tolist(), pop["p"]
    xo = pop["xoprob"].tolist()
    b0 = [float(v) for v in pop["beta0"]]
    replay = []
    for i in range(n):
        acc = [0.0] * t
        for _ in range(nrep_l[i]):
            rnd = twin.uniform(0, 1, (nprog_l[i], p)).tolist()
            best = [None] * t
            for gam in _dh_gametes(ph[0][i], ph[1][i], rnd, xo):
                for tt in range(t):
                    v = b0[tt] + sum(2 * gam[l] * u[l][tt] for l in range(p))
                    if best[tt] is None or v > best[tt]:
                        best[tt] = v
            for tt in range(t):
                acc[tt] += best[tt]
        replay.append([a / nrep_l[i] for a in acc])
    for i in range(n):
        homo = ph[0][i] == ph[1][i]
        if homo and not _close(raw[i], gebv[i], 1e-9):
            fails.append(("embvmat-value", "homozygous taxon %d (%s, nrep=%d, nprogeny=%d): expected maximum BV %r, its own breeding value %r"
                          % (i, pop["names"][i], nrep_l[i], nprog_l[i], raw[i].tolist(), gebv[i])))
        if not _close(raw[i], replay[i], 1e-9):
            fails.append(("embvmat-replay", "taxon %d (%s, nrep=%d, nprogeny=%d): expected maximum BV %r, mean over replicates of the best progeny value "
                          "replayed with the twin generator %r (nrep=%r nprogeny=%r)" % (i, pop["names"][i], nrep_l[i], nprog_l[i], raw[i].tolist(), replay[i], nrep_l, nprog_l)))
        if het == "one" and i == 0:
            gam = [[b0[tt] + sum(2 * ph[m][0][l] * u[l][tt] for l in range(p)) for tt in range(t)] for m in range(2)]
            for tt in range(t):
                lo, hi = min(gam[0][tt], gam[1][tt]), max(gam[0][tt], gam[1][tt])
                if not (lo - 1e-9 * (1 + abs(lo)) <= raw[i][tt] <= hi + 1e-9 * (1 + abs(hi))):
                    fails.append(("embvmat-value", "heterozygous taxon 0 trait %d: %r outside [%r, %r] spanned by its two doubled gametes" % (tt, raw[i][tt], lo, hi)))
    return fails


# --------------------------------------------------------------------------
# kind 'ev': evalfn / _evaluate of one class with declared weights and transformations
# --------------------------------------------------------------------------
def check_ev(case):
    fam, enc, n, t = case["fam"], case["enc"], case["n"], case["t"]
    d = make_data(fam, case["seed"], n, t, case.get("special"))
    fails = []
    if fam in SUBSET_ONLY:
        xs = [numpy.array(case["sel"], dtype="int64"), numpy.array(case["sel"][::-1], dtype="int64")]
        k = len(case["sel"])
    else:
        weights = case["weights"]
        cand = [(e, lab, x) for e, lab, x in encodings(weights, case.get("scale", 2.0), case["seed"] + 17) if e == enc]
        if not cand:
            return "skip"
        xs = [x for _, _, x in cand]
        k = min(int(sum(weights)), n)
    prob, book, l = build_problem(fam, enc, d, k, case.get("ev"), maxcount=64)
    tag = "%s/%s" % (fam, enc)
    with warnings.catch_warnings():
        warnings.simplefilter("ignore")
        for x in xs[:3]:
            lat = numpy.asarray(prob.latentfn(x))
            check_evalfn(prob, book, x, lat, fails, tag)
        same = [x for x in xs if x.shape == xs[0].shape and x.dtype == xs[0].dtype]
        for b in book.values():
            if isinstance(b["fn"], _Rec):
                del b["fn"].calls[:]
        check_evaluate(prob, same[:3], fails, tag)
    # declared weights are what the problem reports as its weights
    for part, attr in (("obj", "obj_wt"), ("ineq", "ineqcv_wt"), ("eq", "eqcv_wt")):
        got = numpy.asarray(getattr(prob, attr), dtype=float).tolist()
        if got != book[part]["w"]:
            fails.append(("declared-weights", "%s %s=%r, declared %r" % (tag, attr, got, book[part]["w"])))
    return fails


def check_trans(case):
    """the helper transformations of trans.py against their one-line definitions"""
    from pybrops.breed.prot.sel.prob import trans as T
    rs = numpy.random.RandomState(case["seed"])
    l, nd = case["l"], case["nd"]
    lat = rs.normal(size=l) * rs.choice([1.0, 1e3])
    x = rs.uniform(0, 1, nd)
    wt = rs.normal(size=l)
    fails = []
    lat0, x0 = lat.copy(), x.copy()
    r = T.trans_identity(x, lat)
    if not _exact(r, lat0):
        fails.append(("trans-identity", "identity returned %r for %r" % (numpy.asarray(r).tolist(), lat0.tolist())))
    r = numpy.asarray(T.trans_sum(x, lat))
    if r.shape != (1,) or not _close(r, [math.fsum(lat0.tolist())], 1e-12):
        fails.append(("trans-sum", "sum returned %r for %r" % (r.tolist(), lat0.tolist())))
    r = numpy.asarray(T.trans_dot(x, lat, latentvec_wt=wt))
    if r.shape != (1,) or not _close(r, [math.fsum(a * b for a, b in zip(lat0.tolist(), wt.tolist()))], 1e-11):
        fails.append(("trans-dot", "dot returned %r" % r.tolist()))
    r = numpy.asarray(T.trans_empty(x, lat))
    if r.shape != (0,):
        fails.append(("trans-empty", "empty returned shape %r" % (r.shape,)))
    for target in (1.0, 0.0, 2.5):
        r = numpy.asarray(T.trans_decnvec_sum_eq(x, lat, decnvec_sum=target))
        if r.shape != (1,) or not _close(r, [abs(math.fsum(x0.tolist()) - target)], 1e-12):
            fails.append(("trans-decnvec-sum-eq", "returned %r for sum %r target %r" % (r.tolist(), math.fsum(x0.tolist()), target)))
    r = numpy.asarray(T.trans_decnvec_sum_eq(x, lat))
    if not _close(r, [abs(math.fsum(x0.tolist()) - 1.0)], 1e-12):
        fails.append(("trans-decnvec-sum-eq", "default target is not 1: %r" % r.tolist()))
    if not (_exact(lat, lat0) and _exact(x, x0)):
        fails.append(("trans-mutates-input", "a transformation changed its arguments"))
    return fails


# --------------------------------------------------------------------------
# dispatcher, replay
# --------------------------------------------------------------------------
KINDS = {
    "enc": check_enc, "sub": check_subset_only, "ev": check_ev, "trans": check_trans,
    "fac-bv": check_fac_bv, "fac-random": check_fac_random, "fac-kin": check_fac_kin, "fac-l2": check_fac_l2,
    "fac-l1": check_fac_l1, "fac-af": check_fac_af, "fac-uc": check_fac_uc, "fac-ohv": check_fac_ohv,
    "fac-embv": check_fac_embv, "wgebvmat": check_wgebvmat, "embvmat": check_embvmat,
}


def case_failures(case):
    """list of (cls, message) for one case, or 'skip'"""
    with numpy.errstate(all="ignore"):
        return KINDS[case["kind"]](case)


def run_case(case):
    """(violated, message); a stored failing input carries 'only_cls' = the class it failed with"""
    res = case_failures({k: v for k, v in case.items() if k != "only_cls"})
    if res == "skip":
        return False, "skipped (not a valid input of this property)"
    if case.get("only_cls"):
        res = [f for f in res if f[0] == case["only_cls"]]
    if not res:
        return False, "ok"
    return True, " || ".join("[%s] %s" % f for f in res[:4])[:3000]


def _replay(case):
    try:
        return run_case(case)
    except Exception as e:
        return True, "exception %s: %s" % (type(e).__name__, e)


def _drive(ctx, cases, cap=3):
    seen = {}
    for case in cases:
        try:
            res = case_failures(case)
        except Exception as e:
            import traceback
            res = [("crash:%s:%s" % (case["kind"], case.get("fam", "")), "exception %s: %s\n%s" % (type(e).__name__, e, traceback.format_exc()[-900:]))]
        skip = (res == "skip")
        ctx.case(key=repr(sorted(case.items(), key=str)), nontrivial=not skip,
                 sample={k: case[k] for k in ("kind", "fam", "enc", "route", "n", "t", "weights", "sel") if k in case})
        if skip:
            continue
        done = set()
        for cls, msg in res:
            if cls in done:
                continue
            done.add(cls)
            seen[cls] = seen.get(cls, 0) + 1
            if seen[cls] <= cap:
                ctx.fail_input("ring:%s" % cls, dict(case, only_cls=cls), cls=cls, message=msg)


# --------------------------------------------------------------------------
# case generators (all randomness from ctx.rng)
# --------------------------------------------------------------------------
def _rand_wspec(rng, allow_none=True):
    r = rng.random()
    if r < 0.3 and allow_none:
        return None
    if r < 0.55:
        return rng.choice([1.0, -1.0, 0.0, 2.5, -0.125, 3, 1e6])
    return [rng.choice([1.0, -1.0, 0.0, 0.5, -3.0, 7.0]) for _ in range(12)]


def _rand_tspec(rng, part):
    if part == "obj":
        kind = rng.choice([None, "identity", "sum", "dot", "rec", "rec"])
    else:
        kind = rng.choice([None, None, "empty", "identity", "sum", "dot", "decnsum", "rec"])
    if kind is None:
        return None
    if kind == "dot":
        return ["dot", [rng.choice([0.0, 1.0, -2.0, 0.5]) for _ in range(12)]]
    if kind == "decnsum":
        return ["decnsum", rng.choice([1.0, 0.0, 3.0])]
    if kind == "rec":
        return ["rec", rng.choice([1.0, -2.0, 0.5]), rng.choice([0.0, 1.0, -3.0]), rng.choice([None, 2.0, -1.0])]
    return [kind]


def _rand_ev(rng):
    ev = {}
    for part in ("obj", "ineq", "eq"):
        ts = _rand_tspec(rng, part)
        ws = _rand_wspec(rng)
        if part != "obj" and ts is None and rng.random() < 0.7:
            ws = None
        ev[part] = [ts, ws]
    return ev


def _rand_weights(rng, n):
    mode = rng.choice(["set", "set", "counts", "counts-small", "real", "one", "all", "bigcounts"])
    if mode == "set":
        k = rng.randint(1, n)
        chosen = set(rng.sample(range(n), k))
        return [1 if i in chosen else 0 for i in range(n)]
    if mode == "counts":
        w = [rng.choice([0, 0, 1, 2, 3]) for _ in range(n)]
    elif mode == "counts-small":           # small integer counts (integer / real encodings only when a count exceeds 1)
        w = [0] * n
        for _ in range(rng.randint(1, n)):
            w[rng.randrange(n)] += 1
    elif mode == "real":
        w = [rng.choice([0.0, rng.uniform(0.01, 1.0), rng.uniform(0.01, 1.0)]) for _ in range(n)]
    elif mode == "one":
        w = [0] * n
        w[rng.randrange(n)] = 1
    elif mode == "all":
        return [1] * n
    else:
        w = [rng.choice([0, 1, 5, 18]) for _ in range(n)]
    if sum(w) == 0:
        w[rng.randrange(n)] = 1
    return w


def gen_enc(rng, tier, fams=FOUR):
    reps = 200 if tier == "quick" else 2500
    for fam in fams:
        # fixed edge cases: one candidate, everybody, contributions below the 1e-10 guard
        yield dict(kind="enc", fam=fam, seed=rng.randrange(10 ** 6), n=1, t=1, weights=[1], scale=0.5)
        yield dict(kind="enc", fam=fam, seed=rng.randrange(10 ** 6), n=1, t=2, weights=[3], scale=2.0)
        yield dict(kind="enc", fam=fam, seed=rng.randrange(10 ** 6), n=4, t=2, weights=[1, 1, 1, 1], scale=1e-6, special="ties")
        for wts in ([3e-12, 0.0, 1e-12, 2e-12], [2e-11, 2e-11, 0.0, 5e-11]):
            yield dict(kind="enc", fam=fam, seed=rng.randrange(10 ** 6), n=4, t=2, weights=wts, scale=0.5, tiny=True)
        # just above the guard: must behave like any other vector
        yield dict(kind="enc", fam=fam, seed=rng.randrange(10 ** 6), n=3, t=1, weights=[6e-11, 5e-11, 0.0], scale=4.0)
        for _ in range(reps):
            n = rng.choice([1, 2, 3, 4, 5, 6, 8])
            case = dict(kind="enc", fam=fam, seed=rng.randrange(10 ** 6), n=n, t=rng.choice([1, 2, 3]), weights=_rand_weights(rng, n),
                        scale=rng.choice([0.5, 3.0, 1e-3, 1e6, 7.25, 1.0 / 3.0]), special=rng.choice([None, None, "ties", "zeros", "big"]))
            if rng.random() < 0.5:
                case["ev"] = _rand_ev(rng)
            yield case


def gen_sub(rng, tier):
    reps = 800 if tier == "quick" else 10000
    for fam in SUBSET_ONLY:
        yield dict(kind="sub", fam=fam, seed=rng.randrange(10 ** 6), n=1, t=1, sel=[0])
        for _ in range(reps):
            n = rng.choice([1, 2, 3, 4, 5, 7])
            k = rng.randint(1, n)
            case = dict(kind="sub", fam=fam, seed=rng.randrange(10 ** 6), n=n, t=rng.choice([1, 2, 3]), sel=rng.sample(range(n), k),
                        special=rng.choice([None, "ties", "zeros", "het-targets", "het-targets"] if fam in ("pau", "mogs") else [None, "ties", "zeros", "big"]))
            if rng.random() < 0.4:
                case["ev"] = _rand_ev(rng)
            yield case
    # selections whose size makes 1/(ploidy*k) * count round below 1 at a fixed locus (2k = 98, 103*2, ...)
    for fam in ("mogs", "pafd"):
        for k in (49, 98, 103, 7):
            yield dict(kind="sub", fam=fam, seed=1, n=k, t=1, sel=list(range(k)), cls_override="fixed-locus-frequency-reciprocal-rounding:%s" % fam,
                       override=dict(geno=[[2, 0, 1]] * k, mkrwt=[[1.0], [1.0], [1.0]], tfreq=[[0.0], [1.0], [0.5]]))


def gen_ev(rng, tier):
    reps = 40 if tier == "quick" else 500
    for fam, enc in all_classes():
        for _ in range(reps):
            n = rng.choice([1, 2, 3, 5])
            case = dict(kind="ev", fam=fam, enc=enc, seed=rng.randrange(10 ** 6), n=n, t=rng.choice([1, 2, 3]), ev=_rand_ev(rng),
                        scale=rng.choice([0.5, 3.0]))
            if fam in SUBSET_ONLY:
                case["sel"] = rng.sample(range(n), rng.randint(1, n))
            else:
                w = _rand_weights(rng, n)
                if enc in ("Subset", "Binary"):
                    w = [1 if v else 0 for v in w]
                elif enc == "Integer":
                    w = [int(math.ceil(v)) for v in w]
                case["weights"] = w
            yield case
    for _ in range(200 if tier == "quick" else 3000):
        yield dict(kind="trans", seed=rng.randrange(10 ** 6), l=rng.choice([1, 2, 3, 9, 40]), nd=rng.choice([1, 2, 5, 17]))


def gen_fac_bv(rng, tier):
    reps = 15 if tier == "quick" else 150
    for _ in range(reps):
        for fam in ("ebv", "gebv", "family"):
            for scaled in (True, False):
                for unscale in (True, False):
                    yield dict(kind="fac-bv", fam=fam, route="from_bvmat", seed=rng.randrange(10 ** 6), n=rng.choice([1, 2, 5, 7]), t=rng.choice([1, 2, 3]),
                               scaled=scaled, unscale=unscale)
        for phased in (True, False):
            for unscale in (True, False):
                yield dict(kind="fac-bv", fam="gebv", route="from_gmat_gpmod", seed=rng.randrange(10 ** 6), n=rng.choice([1, 2, 5, 7]), t=rng.choice([1, 2, 3]),
                           p=rng.choice([1, 3, 6, 11]), phased=phased, unscale=unscale, mode=rng.choice(["random", "fixed", "inbred"]))
        for fam in ("wgs", "gwgebv"):
            for route in ("from_numpy", "from_gmat_algpmod"):
                for mode in ("random", "fixed", "inbred", "fixed-inbred"):
                    for phased in ((False, True) if route == "from_gmat_algpmod" else (False,)):
                        yield dict(kind="fac-bv", fam=fam, route=route, seed=rng.randrange(10 ** 6), n=rng.choice([1, 2, 5, 7]), t=rng.choice([1, 2, 3]),
                                   p=rng.choice([1, 3, 6, 11]), mode=mode, phased=phased, alpha=rng.choice([0.0, 0.5, 1.0, 0.3]), zfloat=rng.random() < 0.5)
        yield dict(kind="fac-random", seed=rng.randrange(10 ** 6), n=rng.choice([1, 2, 5]), t=rng.choice([1, 2, 3]))
        for mode in ("random", "fixed", "inbred"):
            for phased in (True, False):
                yield dict(kind="wgebvmat", seed=rng.randrange(10 ** 6), n=rng.choice([2, 5, 7]), t=rng.choice([1, 2]), p=rng.choice([2, 6, 11]), mode=mode, phased=phased)


def gen_fac_kin(rng, tier):
    reps = 15 if tier == "quick" else 150
    for _ in range(reps):
        for fam in ("ocs", "mgr", "meh"):
            for cmat in ("stub", "molecular"):
                for phased in (True, False):
                    yield dict(kind="fac-kin", fam=fam, seed=rng.randrange(10 ** 6), n=rng.choice([1, 2, 4, 6]), t=rng.choice([1, 2]), p=rng.choice([1, 3, 8, 12]),
                               cmat=cmat, phased=phased, mode=rng.choice(["random", "inbred", "fixed"]), scaled=rng.random() < 0.5, unscale=rng.random() < 0.5)
        for cmat in ("stub", "weighted"):
            for t in (1, 2, 3):
                yield dict(kind="fac-l2", seed=rng.randrange(10 ** 6), n=rng.choice([2, 4, 5]), t=t, p=rng.choice([6, 9]), cmat=cmat, phased=rng.random() < 0.5)


def gen_fac_af(rng, tier):
    reps = 40 if tier == "quick" else 400
    for _ in range(reps):
        yield dict(kind="fac-l1", seed=rng.randrange(10 ** 6), n=rng.choice([1, 2, 5]), t=rng.choice([1, 2, 3]), p=rng.choice([1, 2, 6]), mode=rng.choice(["random", "fixed"]))
        for fam in ("pafd", "pau", "mogs"):
            for callable_ in (True, False):
                for phased in (True, False):
                    yield dict(kind="fac-af", fam=fam, seed=rng.randrange(10 ** 6), n=rng.choice([1, 3, 5]), t=rng.choice([1, 2]), p=rng.choice([1, 4, 7]),
                               callable=callable_, phased=phased, mode=rng.choice(["random", "fixed", "inbred"]), k=rng.choice([1, 2, 3]),
                               het_targets=(not callable_ and rng.random() < 0.6))


def gen_fac_x(rng, tier):
    reps = 15 if tier == "quick" else 150
    for _ in range(reps):
        for vmat in ("stub", "real"):
            for xmap in ("given", None):
                for unique in (True, False):
                    yield dict(kind="fac-uc", seed=rng.randrange(10 ** 6), n=rng.choice([2, 3, 4]), t=rng.choice([1, 2]), p=rng.choice([3, 6]), vmat=vmat, xmap=xmap,
                               unique=unique, q=rng.choice([0.05, 0.2, 0.5, 1.0]), ncross=rng.choice([1, 3]), nprogeny=rng.choice([5, 40]),
                               nself=rng.choice([0, 0, 2]) if vmat == "stub" else 0)
        # three-parent designs: the expected parental genome contributions are unequal (1/2, 1/4, 1/4)
        for xmap in ("given", None):
            yield dict(kind="fac-uc", seed=rng.randrange(10 ** 6), n=rng.choice([3, 4]), t=rng.choice([1, 2]), p=3, vmat="stub", xmap=xmap, npar=3,
                       unique=rng.choice([True, False]), q=rng.choice([0.05, 0.2, 0.5]), ncross=1, nprogeny=5, nself=rng.choice([0, 1]))
        for npar in (1, 2, 3):
            for unique in (True, False):
                yield dict(kind="fac-ohv", fam="ohv", seed=rng.randrange(10 ** 6), n=rng.choice([3, 4, 5]), t=rng.choice([1, 2]), p=rng.choice([6, 8, 10]),
                           nparent=npar, unique=unique, nhaploblk=rng.choice([1, 2, 3, 4]), nchr=rng.choice([1, 2]), mode=rng.choice(["random", "inbred"]))
        for _k in range(4):
            yield dict(kind="fac-ohv", fam="opv", seed=rng.randrange(10 ** 6), n=rng.choice([1, 3, 5]), t=rng.choice([1, 2]), p=rng.choice([6, 8]),
                       nhaploblk=rng.choice([1, 2, 3]), nchr=rng.choice([1, 2]))
        for nrep in (1, 2, 3):
            n_ = rng.choice([2, 3, 4])
            yield dict(kind="fac-embv", seed=rng.randrange(10 ** 6), n=n_, t=rng.choice([1, 2]), nparent=rng.choice([1, 2, 3][:n_]),
                       unique=rng.random() < 0.5, nrep=nrep, nmating=rng.choice([1, 2]), nprogeny=rng.choice([1, 4]))
        # the only shape on which the replicate loop cannot go wrong: one cross, one replicate
        yield dict(kind="fac-embv", seed=rng.randrange(10 ** 6), n=2, t=2, nparent=2, unique=True, nrep=1)
        for het in ("none", "one", "all"):
            # (a) scalar nrep / nprogeny (also handed over as constant per-taxon arrays)
            yield dict(kind="embvmat", seed=rng.randrange(10 ** 6), n=rng.choice([1, 3, 4]), t=rng.choice([1, 2]), het=het, arrays=rng.random() < 0.5,
                       nprogeny=rng.choice([1, 4]), nrep=rng.choice([1, 3]))
            # (b) per-taxon arrays with unequal entries, entries of 1 included, in increasing / decreasing / mixed order
            for form in ("both", "nrep", "nprogeny"):
                n_ = rng.choice([2, 3, 4, 5])
                def uneq(pool):
                    v = [rng.choice(pool) for _ in range(n_)]
                    v[rng.randrange(n_)] = 1
                    j = rng.randrange(n_)
                    v[j] = max(pool) if v[j] == 1 and n_ > 1 and all(z == 1 for z in v) else v[j]
                    if len(set(v)) == 1:
                        v[0] = max(pool) if v[0] != max(pool) else min(pool)
                    order = rng.choice(["up", "down", "mixed"])
                    return sorted(v) if order == "up" else sorted(v, reverse=True) if order == "down" else v
                yield dict(kind="embvmat", seed=rng.randrange(10 ** 6), n=n_, t=rng.choice([1, 2]), het=het, p=rng.choice([3, 6]),
                           nprogeny=uneq([1, 2, 3, 5]) if form != "nrep" else rng.choice([1, 3]),
                           nrep=uneq([1, 2, 3, 4]) if form != "nprogeny" else rng.choice([1, 2]))
    # more than 1024 crosses: the chunked computation of the optimal haploid values (45*46/2 = 1035)
    yield dict(kind="fac-ohv", fam="ohv", seed=rng.randrange(10 ** 6), n=45, t=1, p=5, nparent=2, unique=False, nhaploblk=2, nchr=1)
    if tier == "thorough":
        yield dict(kind="fac-ohv", fam="ohv", seed=rng.randrange(10 ** 6), n=47, t=2, p=7, nparent=2, unique=True, nhaploblk=3, nchr=1)
        yield dict(kind="fac-ohv", fam="ohv", seed=rng.randrange(10 ** 6), n=20, t=1, p=6, nparent=3, unique=True, nhaploblk=2, nchr=2)


# --------------------------------------------------------------------------
# units
# --------------------------------------------------------------------------
_T = lambda *names: ["pybrops/breed/prot/sel/prob/%s.py" % n for n in names]

U_ENC_A = "ring[latent = definition; subset/integer/binary/real agree; order & scale invariance: EBV GEBV wGEBV gwGEBV random UC OHV EMBV]"
U_ENC_B = "ring[latent = definition; subset/integer/binary/real agree; order & scale invariance: OCS MGR MEH L1 L2 family]"
U_SUB = "ring[subset-only criteria OPV PAFD PAU MOGS = definition, order invariance]"
U_EV = "ring[evalfn/_evaluate = declared weights x declared transformations, all 60 classes]"
U_FBV = "ring[factories hold population data in taxon order: EBV GEBV wGEBV gwGEBV family random, wGEBV matrix]"
U_FKIN = "ring[factories hold population data in taxon order: OCS MGR MEH L2 kinship factors]"
U_FAF = "ring[factories hold population data in taxon order: L1 PAFD PAU MOGS]"
U_FX = "ring[factories hold population data in taxon order: UC OHV OPV EMBV cross maps, EMBV matrix]"


@unit(P, U_ENC_A, "R", bounded=True,
      note="bounded: n<=8 candidates/crosses, t<=3 traits, counts<=18, seeded random data incl. ties/zeros/1e8 magnitudes; 206 (quick) / 2506 (thorough) cases per criterion")
def u_ring_enc_a(ctx):
    ctx.rule = ("per criterion: seeded data, a contribution vector (subset of distinct members, integer counts > 1 for the integer/real encodings, real shares, one, all, below/above the 1e-10 guard); "
                "every encoding of it is evaluated on the real class and compared with the definition computed by loops; distinct by data seed + contributions")
    _drive(ctx, gen_enc(ctx.rng, ctx.tier, ("ebv", "gebv", "wgs", "gwgebv", "random", "uc", "ohv", "embv")))


@unit(P, U_ENC_B, "R", bounded=True,
      note="bounded: n<=8 candidates, t<=3 traits, <=5 loci, random SPD kinships; 206 (quick) / 2506 (thorough) cases per criterion")
def u_ring_enc_b(ctx):
    ctx.rule = ("as the first unit for the kinship-norm, allele-frequency-distance and family criteria; kinship = random SPD matrix, "
                "problem gets its Cholesky factor, the oracle the matrix itself")
    _drive(ctx, gen_enc(ctx.rng, ctx.tier, ("ocs", "mgr", "meh", "l1", "l2", "family")))


@unit(P, U_SUB, "R", bounded=True,
      note="bounded: n<=7 taxa, <=6 loci, <=3 blocks, t<=3; 801 (quick) / 10001 (thorough) cases per criterion + 8 selection sizes 7..103 for rounding")
def u_ring_sub(ctx):
    ctx.rule = "seeded genotype/haplotype data, every selection listed in 3 orders; allele availability decided on integer counts; distinct by seed + selection"
    _drive(ctx, gen_sub(ctx.rng, ctx.tier))


@unit(P, U_EV, "R", bounded=True,
      note="bounded: 40 (quick) / 500 (thorough) random weight/transformation declarations per class x 60 classes; weights None/scalar/array incl. 0, negative, int")
def u_ring_ev(ctx):
    ctx.rule = ("for each of the 60 classes: random declared obj/ineqcv/eqcv weights and transformations (identity, sum, dot, empty, decision-sum, a recording "
                "function with kwargs); evalfn and _evaluate (1-D, 2-D) compared EXACTLY with weight_i * T_i(x, latent, **kwargs)")
    _drive(ctx, gen_ev(ctx.rng, ctx.tier))


@unit(P, U_FBV, "R", bounded=True, note="bounded: n<=7 taxa, <=11 loci, t<=3; 15 (quick) / 150 (thorough) rounds over all factory x option combinations (47 cases per round)")
def u_ring_fbv(ctx):
    ctx.rule = ("seeded populations with unsorted taxon names/groups, scaled and unscaled breeding value matrices, phased and unphased genotypes, fixed loci and zero effects; "
                "stored matrices compared per taxon with values computed by loops, then latent values in all encodings")
    _drive(ctx, gen_fac_bv(ctx.rng, ctx.tier))


@unit(P, U_FKIN, "R", bounded=True, note="bounded: n<=6 taxa, <=12 loci, t<=3; 15 (quick) / 150 (thorough) rounds of 18 cases; molecular kinship and a stub factory with a known matrix")
def u_ring_fkin(ctx):
    ctx.rule = "C upper triangular with C'C = independently computed kinship (taxon order), sqrt(c'Kc) in all encodings; MEH also against pool heterozygosity"
    _drive(ctx, gen_fac_kin(ctx.rng, ctx.tier))


@unit(P, U_FAF, "R", bounded=True, note="bounded: n<=5 taxa, <=7 loci, t<=3; 40 (quick) / 400 (thorough) rounds of 13 cases")
def u_ring_faf(ctx):
    ctx.rule = "stored genotype counts / weights / targets equal the population's and the declared functions of the marker effects; latent = definition"
    _drive(ctx, gen_fac_af(ctx.rng, ctx.tier))


@unit(P, U_FX, "R", bounded=True, note="bounded: n<=5 taxa (one case 45 taxa = 1035 crosses), <=10 loci, <=4 blocks, nparent<=3; 15 (quick) / 150 (thorough) rounds of 34 cases")
def u_ring_fx(ctx):
    ctx.rule = ("cross map = lexicographic parent combinations; UC through a stub variance factory with a known asymmetric variance array and through the real "
                "two-way DH factory; OHV/OPV from block values computed by loops; EMBV with a deterministic stand-in mating protocol; EMBV matrix from_gmod with scalar and unequal per-taxon nrep/nprogeny arrays, "
                "homozygous taxa = own GEBV, every taxon replayed from the definition with a twin of the global generator")
    _drive(ctx, gen_fac_x(ctx.rng, ctx.tier))


REPLAYERS = {name: _replay for name in (U_ENC_A, U_ENC_B, U_SUB, U_EV, U_FBV, U_FKIN, U_FAF, U_FX)}
