"""C11 native bounded rings (mode R): genetic maps and map functions.

Every oracle below is written from the property statement:
  * map functions: range [0, 0.5], monotone, 0 -> 0, inf -> 1/2, inverse pairs
    (reference values from python `math`, a formulation independent of the
    library's numpy expressions);
  * distances: symmetry, zero diagonal, +inf across chromosomes, additivity for
    ordered markers, sequential == pairwise on consecutive markers;
  * interpolation: own markers exact, linear between flanking markers (exact
    rational reference), order preserving for congruent maps, NaN on absent
    chromosomes, independence of the supplied row order;
  * crossover probabilities of a genotype matrix: 1/2 at chromosome starts,
    map function of consecutive interpolated distances elsewhere.
Floats that are not finite are stored in the case dicts as strings ("inf").
"""
import math
import warnings
from fractions import Fraction

from pyvc.unit import unit

P = "C11"
EPS = 2.0 ** -52


# --------------------------------------------------------------------------
# small helpers
# --------------------------------------------------------------------------
def _enc(x):
    x = float(x)
    if math.isinf(x) or math.isnan(x):
        return repr(x)
    return x


def _dec(x):
    return float(x)


def _key(case):
    return repr(sorted(case.items(), key=str))


def _mapfn_obj(name):
    if name == "haldane":
        from pybrops.popgen.gmap.HaldaneMapFunction import HaldaneMapFunction
        return HaldaneMapFunction()
    from pybrops.popgen.gmap.KosambiMapFunction import KosambiMapFunction
    return KosambiMapFunction()


def ref_mapfn(name, d):
    """reference recombination fraction for a distance d in [0, inf] (python math)"""
    if math.isnan(d):
        return float("nan")
    if d == float("inf"):
        return 0.5
    if name == "haldane":
        return -0.5 * math.expm1(-2.0 * d)
    # kosambi: (e^{4d}-1)/(e^{4d}+1)/2 = (1-e^{-4d})/(1+e^{-4d})/2
    t = math.expm1(-4.0 * d)          # e^{-4d} - 1  in [-1, 0]
    return 0.5 * (-t) / (2.0 + t)


def ref_invfn(name, r):
    """reference distance for a recombination fraction r in [0, 1/2]"""
    if r == 0.5:
        return float("inf")
    if name == "haldane":
        return -0.5 * math.log1p(-2.0 * r)
    return 0.25 * (math.log1p(2.0 * r) - math.log1p(-2.0 * r))


def _cond(name, d):
    """amplification of an absolute error in r when mapping back to d"""
    if name == "haldane":
        return math.exp(min(2.0 * d, 700.0))
    return math.cosh(min(2.0 * d, 350.0)) ** 2


# --------------------------------------------------------------------------
# ring 1: the two map functions
# --------------------------------------------------------------------------
D_GRID = [0.0, 5e-324, 1e-300, 1e-17, 1e-16, 2.3e-16, 1e-12, 1e-9, 1e-8, 1e-5, 1e-3, 0.01, 0.05, 0.1, 0.2, 0.25,
          0.3, 0.5, 0.75, 1.0, 1.5, 2.0, 3.0, 4.0, 5.0, 7.5, 9.0, 10.0, 15.0, 18.0, 18.5, 19.0, 20.0, 37.0, 50.0,
          345.0, 354.0, 355.0, 709.0, 710.0, 1e3, 1e10, 1e308, 1.7976931348623157e308, float("inf")]
R_GRID = [0.0, 5e-324, 1e-300, 1e-17, 1e-9, 1e-3, 0.01, 0.1, 0.2, 0.25, 0.3, 0.4, 0.45, 0.49, 0.499, 0.4999999,
          0.49999999999, 0.49999999999999994, 0.5]


def run_mapfn_case(case):
    import numpy
    name = case["fn"]
    fn = _mapfn_obj(name)
    vals = [_dec(v) for v in case["vals"]]
    shape = case.get("shape")
    msgs = []
    eps = 2.0 ** -23 if case.get("dtype") == "float32" else EPS
    with warnings.catch_warnings(), numpy.errstate(all="ignore"):
        warnings.simplefilter("ignore")
        if case["dir"] == "d":
            # ---- forward function on distances
            if shape == "pyfloat":
                outs = [fn.mapfn(v) for v in vals]
            elif shape == "np0d":
                outs = [fn.mapfn(numpy.float64(v)) for v in vals]
            else:
                arr = numpy.array(vals, dtype=case.get("dtype", "float64"))
                if shape == "2d":
                    arr = arr.reshape(len(vals) // 2, 2) if len(vals) % 2 == 0 else arr.reshape(1, len(vals))
                elif shape == "col":
                    arr = arr.reshape(len(vals), 1)
                keep = arr.copy()
                res = fn.mapfn(arr)
                if not isinstance(res, numpy.ndarray) or res.shape != arr.shape:
                    return True, "mapfn(%s): result shape %r differs from argument shape %r" % (
                        name, getattr(res, "shape", None), arr.shape)
                if not numpy.array_equal(arr, keep):
                    return True, "mapfn(%s) modified its argument" % name
                outs = [float(x) for x in res.ravel()]
                vals = [float(x) for x in arr.ravel()]       # dtype narrowing (float32 / int) applied to reference too
            outs = [float(x) for x in outs]
            for d, r in zip(vals, outs):
                if not (0.0 <= r <= 0.5):
                    msgs.append("mapfn(%s)(%r) = %r is outside [0, 1/2]" % (name, d, r))
                if d == 0.0 and r != 0.0:
                    msgs.append("mapfn(%s)(0) = %r, expected 0" % (name, r))
                if d == float("inf") and r != 0.5:
                    msgs.append("mapfn(%s)(inf) = %r, expected 1/2" % (name, r))
                ref = ref_mapfn(name, d)
                if not abs(r - ref) <= 4 * eps * 0.5 + 4 * eps * ref:
                    msgs.append("mapfn(%s)(%r) = %r, reference %r" % (name, d, r, ref))
            order = sorted(range(len(vals)), key=lambda i: vals[i])
            for a, b in zip(order, order[1:]):
                if vals[a] <= vals[b] and not outs[a] <= outs[b]:
                    msgs.append("mapfn(%s) not monotone: f(%r)=%r > f(%r)=%r" % (name, vals[a], outs[a], vals[b], outs[b]))
                if vals[a] == vals[b] and outs[a] != outs[b]:
                    msgs.append("mapfn(%s) not a function: f(%r) gave %r and %r" % (name, vals[a], outs[a], outs[b]))
            # ---- inverse undoes the forward function
            back = fn.invmapfn(numpy.array(outs, dtype=float))
            for d, r, b in zip(vals, outs, back):
                b = float(b)
                if d == float("inf"):
                    if b != float("inf"):
                        msgs.append("invmapfn(%s)(mapfn(inf)) = %r, expected inf" % (name, b))
                    continue
                if d == 0.0:
                    if b != 0.0:
                        msgs.append("invmapfn(%s)(mapfn(0)) = %r, expected 0" % (name, b))
                    continue
                amp = _cond(name, d)
                if amp * eps > 1e-4:
                    continue                       # 1/2 - r is below the rounding of r: d is not recoverable in binary64
                tol = 8 * eps * amp + 8 * eps * d
                if not abs(b - d) <= tol:
                    msgs.append("invmapfn(%s)(mapfn(%r)) = %r (tolerance %.3g)" % (name, d, b, tol))
        else:
            # ---- inverse function on recombination fractions, then forward
            arr = numpy.array(vals, dtype=float)
            keep = arr.copy()
            dd = fn.invmapfn(arr)
            if not isinstance(dd, numpy.ndarray) or dd.shape != arr.shape:
                return True, "invmapfn(%s): result shape differs from argument shape" % name
            if not numpy.array_equal(arr, keep):
                return True, "invmapfn(%s) modified its argument" % name
            rr = fn.mapfn(dd)
            prev = None
            for r, d, r2 in zip(vals, dd, rr):
                d, r2 = float(d), float(r2)
                if not d >= 0.0:
                    msgs.append("invmapfn(%s)(%r) = %r is negative or NaN" % (name, r, d))
                if r == 0.0 and d != 0.0:
                    msgs.append("invmapfn(%s)(0) = %r, expected 0" % (name, d))
                if r == 0.5 and d != float("inf"):
                    msgs.append("invmapfn(%s)(1/2) = %r, expected inf" % (name, d))
                ref = ref_invfn(name, r)
                if r < 0.5:
                    # an error of one rounding of (1-2r) is amplified by 1/(1-2r) (Haldane) / 1/(1-4r^2) (Kosambi)
                    amp = 1.0 / (1.0 - 2.0 * r)
                    if not abs(d - ref) <= 8 * EPS * amp + 8 * EPS * ref:
                        msgs.append("invmapfn(%s)(%r) = %r, reference %r" % (name, r, d, ref))
                if not abs(r2 - r) <= 8 * EPS * 0.5:
                    msgs.append("mapfn(%s)(invmapfn(%r)) = %r" % (name, r, r2))
            srt = sorted(zip(vals, [float(x) for x in dd]))
            for (ra, da), (rb, db) in zip(srt, srt[1:]):
                if not da <= db:
                    msgs.append("invmapfn(%s) not monotone: g(%r)=%r > g(%r)=%r" % (name, ra, da, rb, db))
    if msgs:
        return True, "; ".join(msgs[:4])
    return False, "ok"


def gen_mapfn_cases(rng, tier):
    cases = []
    for name in ("haldane", "kosambi"):
        cases.append(dict(kind="mapfn", fn=name, dir="d", shape="1d", vals=[_enc(v) for v in D_GRID]))
        cases.append(dict(kind="mapfn", fn=name, dir="d", shape="pyfloat", vals=[_enc(v) for v in D_GRID]))
        cases.append(dict(kind="mapfn", fn=name, dir="d", shape="np0d", vals=[_enc(v) for v in D_GRID]))
        cases.append(dict(kind="mapfn", fn=name, dir="d", shape="2d", vals=[_enc(v) for v in D_GRID[:44]]))
        cases.append(dict(kind="mapfn", fn=name, dir="d", shape="col", vals=[_enc(v) for v in D_GRID]))
        cases.append(dict(kind="mapfn", fn=name, dir="d", shape="1d", vals=[]))
        cases.append(dict(kind="mapfn", fn=name, dir="d", shape="1d", dtype="float32",
                          vals=[0.0, 0.125, 0.5, 1.0, 2.0, 8.0, 64.0, "inf"]))
        cases.append(dict(kind="mapfn", fn=name, dir="d", shape="1d", dtype="int64", vals=[0, 1, 2, 3, 10, 100, 1000]))
        cases.append(dict(kind="mapfn", fn=name, dir="r", vals=[_enc(v) for v in R_GRID]))
        cases.append(dict(kind="mapfn", fn=name, dir="r", vals=[]))
        # dense regular grids (monotonicity between neighbours)
        cases.append(dict(kind="mapfn", fn=name, dir="d", shape="1d", vals=[i / 64.0 for i in range(0, 1400)]))
        cases.append(dict(kind="mapfn", fn=name, dir="d", shape="1d", vals=[i * 1e-4 for i in range(0, 1000)]))
        cases.append(dict(kind="mapfn", fn=name, dir="r", vals=[i / 2048.0 for i in range(0, 1025)]))
        n = 60 if tier == "quick" else 1500
        for c in range(n):
            m = rng.choice([1, 2, 7, 40])
            mode = rng.random()
            vals = []
            for _ in range(m):
                u = rng.random()
                if u < 0.45:
                    vals.append(rng.uniform(0.0, 3.0))
                elif u < 0.8:
                    vals.append(10.0 ** rng.uniform(-18, 3))
                elif u < 0.9:
                    vals.append(rng.uniform(0.0, 25.0))
                else:
                    vals.append(rng.choice([0.0, float("inf"), 5e-324, 1e308]))
            if mode < 0.75:
                cases.append(dict(kind="mapfn", fn=name, dir="d", shape=rng.choice(["1d", "1d", "2d", "col", "pyfloat"]),
                                  vals=[_enc(v) for v in vals]))
            else:
                rv = []
                for _ in range(m):
                    u = rng.random()
                    rv.append(rng.uniform(0, 0.5) if u < 0.6 else (0.5 - 10.0 ** rng.uniform(-15, -1)) if u < 0.8
                              else 10.0 ** rng.uniform(-300, -1) if u < 0.95 else rng.choice([0.0, 0.5]))
                cases.append(dict(kind="mapfn", fn=name, dir="r", vals=[_enc(max(0.0, min(0.5, v))) for v in rv]))
    return cases


def _drive(ctx, cases, runner, obligation, default_cls, nontrivial=lambda c: True, sample=lambda c: None, cap=3):
    seen = {}
    for case in cases:
        try:
            out = runner(case)
        except Exception as e:
            out = (True, "exception %s: %s" % (type(e).__name__, e))
        bad, msg = out[0], out[1]
        cls = out[2] if len(out) > 2 and out[2] else default_cls
        ctx.case(_key(case), nontrivial=nontrivial(case), sample=sample(case))
        if bad:
            if msg.startswith("exception"):
                cls = cls + ":exception"
            seen[cls] = seen.get(cls, 0) + 1
            if seen[cls] <= cap:
                ctx.fail_input("%s:%s" % (obligation, cls), case, cls=cls, message=msg)
            if len(ctx.failures) >= 9:
                break


def _replayer(runner):
    def rep(case):
        try:
            out = runner(case)
            return out[0], out[1]
        except Exception as e:
            return True, "exception %s: %s" % (type(e).__name__, e)
    return rep


U_MAPFN = "ring[Haldane and Kosambi map functions]"


@unit(P, U_MAPFN, "R", bounded=True,
      note="bounded: fixed grids of 45 distances / 19 fractions incl. 0, denormal, 1e308, inf; dense grids to d=21.9; "
           "60 (quick) / 1500 (thorough) seeded random vectors per function; float64 (+ one float32, one int64 vector)")
def u_ring_mapfn(ctx):
    ctx.rule = ("grids and seeded random vectors of distances in [0, inf] (scalar, 0-d, 1-d, 2-d, column, empty) and of "
                "recombination fractions in [0, 1/2]; non-trivial if at least one value; distinct by input vector")
    _drive(ctx, gen_mapfn_cases(ctx.rng, ctx.tier), run_mapfn_case, "ring:mapfn", "mapfn-law",
           nontrivial=lambda c: len(c["vals"]) > 0,
           sample=lambda c: dict(fn=c["fn"], dir=c["dir"], vals=c["vals"][:5]))


REPLAYERS = {U_MAPFN: _replayer(run_mapfn_case)}


# --------------------------------------------------------------------------
# building maps from a case
# --------------------------------------------------------------------------
def build_map(cls_name, rows, opts=None):
    """rows: list of [chr, phypos, genpos(in the given units)] in the order in
    which they are to be supplied.  opts: units, auto_group, auto_build_spline,
    route (ctor|pandas|copy|deepcopy), names, fncode."""
    import numpy
    opts = opts or {}
    units = opts.get("units", "M")
    ag = opts.get("auto_group", True)
    ab = opts.get("auto_build_spline", True)
    route = opts.get("route", "ctor")
    chrgrp = numpy.array([r[0] for r in rows], dtype="int64")
    phypos = numpy.array([r[1] for r in rows], dtype="int64")
    genpos = numpy.array([r[2] for r in rows], dtype="float64")
    stop = phypos + numpy.array([(7 * i) % 5 for i in range(len(rows))], dtype="int64")
    name = numpy.array(["m_%d_%d" % (r[0], r[1]) for r in rows], dtype=object) if opts.get("names") else None
    fncode = numpy.array(["HKU"[(r[0] + r[1]) % 3] for r in rows], dtype=object) if opts.get("fncode") else None
    if cls_name == "standard":
        from pybrops.popgen.gmap.StandardGeneticMap import StandardGeneticMap as C
        if route == "pandas":
            import pandas
            df = pandas.DataFrame({"chr": chrgrp, "pos": phypos, "cM": genpos})
            m = C.from_pandas(df, vrnt_chrgrp_col="chr", vrnt_phypos_col="pos", vrnt_genpos_col="cM",
                              vrnt_genpos_units=units, auto_group=ag, auto_build_spline=ab)
        else:
            m = C(vrnt_chrgrp=chrgrp, vrnt_phypos=phypos, vrnt_genpos=genpos, vrnt_genpos_units=units,
                  auto_group=ag, auto_build_spline=ab)
    else:
        from pybrops.popgen.gmap.ExtendedGeneticMap import ExtendedGeneticMap as C
        if route == "pandas":
            import pandas
            d = {"chr": chrgrp, "pos": phypos, "stop": stop, "cM": genpos}
            kw = {}
            if name is not None:
                d["name"] = name
                kw["vrnt_name_col"] = "name"
            if fncode is not None:
                d["fncode"] = fncode
                kw["vrnt_fncode_col"] = "fncode"
            df = pandas.DataFrame(d)
            m = C.from_pandas(df, vrnt_chrgrp_col="chr", vrnt_phypos_col="pos", vrnt_stop_col="stop",
                              vrnt_genpos_col="cM", vrnt_genpos_units=units, auto_group=ag, auto_build_spline=ab, **kw)
        else:
            m = C(vrnt_chrgrp=chrgrp, vrnt_phypos=phypos, vrnt_stop=stop, vrnt_genpos=genpos, vrnt_name=name,
                  vrnt_fncode=fncode, vrnt_genpos_units=units, auto_group=ag, auto_build_spline=ab)
    if not ab:
        m.build_spline()
    if route == "copy":
        m = m.copy()
    elif route == "deepcopy":
        m = m.deepcopy()
    return m


def gen_map_rows(rng, flat=False, congruent=True, maxchr=4, maxmk=6):
    """canonical rows sorted by (chr, phypos); genpos in Morgans.  Gaps between
    consecutive genetic positions are 0 (ties) or >= 1e-3."""
    nchr = rng.choice([1, 1, 2, 2, 3, maxchr])
    labels = rng.sample(rng.choice([[1, 2, 3, 4, 5, 6], [0, 3, 7, 11, 40, 1000], [-2, -1, 0, 1, 5, 9],
                                    [10 ** 9, 2 ** 40, 5, 6, 7, 8]]), nchr)
    rows = []
    for c in sorted(labels):
        k = rng.choice([2, 2, 3, 3, 4, 5, maxmk])
        scale = rng.choice([20, 200, 10 ** 4, 10 ** 6, 10 ** 6, 2 * 10 ** 9])
        phys = sorted(rng.sample(range(1, scale + 1), k)) if scale >= k else list(range(1, k + 1))
        if rng.random() < 0.2:                       # adjacent base pairs
            base = rng.randrange(1, scale)
            phys = [base + i for i in range(k)]
        g = rng.choice([0.0, 0.0, 0.25, rng.uniform(0, 1)])
        gens = []
        dyadic = rng.random() < 0.3
        for i in range(k):
            if i > 0:
                u = rng.random()
                if flat and (u < 0.6 or i == k - 1):
                    step = 0.0
                elif u < 0.15:
                    step = 0.0
                elif dyadic:
                    step = rng.randrange(1, 200) / 128.0
                else:
                    step = rng.choice([rng.uniform(1e-3, 0.05), rng.uniform(0.01, 0.6), rng.uniform(0.2, 1.5)])
                g = g + step
            gens.append(g)
        if not congruent and k >= 2:
            i, j = rng.sample(range(k), 2)
            gens[i], gens[j] = gens[j], gens[i]
            if gens == sorted(gens):
                gens[0], gens[-1] = gens[-1] + 0.5, gens[0]
        for p_, g_ in zip(phys, gens):
            rows.append([c, p_, g_])
    return rows


def rows_congruent(rows):
    """rows sorted by (chr, phypos): genetic positions never decrease within a chromosome"""
    for a, b in zip(rows, rows[1:]):
        if a[0] == b[0] and b[2] < a[2]:
            return False
    return True


# --------------------------------------------------------------------------
# ring 2: genetic distances (gdist1g, gdist2g, gdist1p, gdist2p, rprob*)
# --------------------------------------------------------------------------
MAP_ROWS_SMALL = [[1, 10, 0.0], [1, 20, 0.5], [1, 40, 0.75], [3, 5, 0.125], [3, 9, 1.0]]


def run_gdist_case(case):
    import numpy
    chrs = [int(c) for c in case["chr"]]
    gens = [_dec(g) for g in case["gen"]]
    n = len(chrs)
    ordered = all(not (chrs[i] == chrs[i + 1] and gens[i + 1] < gens[i]) for i in range(n - 1))
    m = build_map(case["cls"], MAP_ROWS_SMALL, dict(auto_group=case.get("auto_group", True)))
    vc = numpy.array(chrs, dtype=case.get("cdtype", "int64"))
    vg = numpy.array(gens, dtype="float64")
    kc, kg = vc.copy(), vg.copy()
    msgs = []
    with warnings.catch_warnings(), numpy.errstate(all="ignore"):
        warnings.simplefilter("ignore")
        D = m.gdist2g(vc, vg)
        S = m.gdist1g(vc, vg)
        if not (numpy.array_equal(vc, kc) and numpy.array_equal(vg, kg)):
            return True, "gdist modified its arguments", "gdist-mutates-args"
        if D.shape != (n, n):
            return True, "gdist2g shape %r for %d markers" % (D.shape, n), "gdist2g-shape"
        if S.shape != (n,):
            return True, "gdist1g shape %r for %d markers" % (S.shape, n), "gdist1g-shape"
        gmax = max([abs(g) for g in gens] + [0.0])
        for i in range(n):
            if D[i, i] != 0.0:
                msgs.append("D[%d,%d] = %r, expected 0" % (i, i, D[i, i]))
            for j in range(n):
                dij = float(D[i, j])
                if dij != float(D[j, i]):
                    msgs.append("D[%d,%d] = %r but D[%d,%d] = %r" % (i, j, dij, j, i, float(D[j, i])))
                if chrs[i] != chrs[j]:
                    if dij != float("inf"):
                        msgs.append("D[%d,%d] = %r between chromosomes %d and %d, expected inf" % (i, j, dij, chrs[i], chrs[j]))
                else:
                    if dij != abs(gens[i] - gens[j]):
                        msgs.append("D[%d,%d] = %r, positions %r and %r" % (i, j, dij, gens[i], gens[j]))
                    if not (dij >= 0.0 and dij < float("inf")):
                        msgs.append("D[%d,%d] = %r on one chromosome" % (i, j, dij))
        if ordered:
            for i in range(n):
                for j in range(i, n):
                    if chrs[j] != chrs[i]:
                        break
                    for k in range(j, n):
                        if chrs[k] != chrs[i]:
                            break
                        lhs, rhs = float(D[i, k]), float(D[i, j]) + float(D[j, k])
                        if not abs(lhs - rhs) <= 4 * EPS * gmax:
                            msgs.append("not additive: D[%d,%d]=%r, D[%d,%d]+D[%d,%d]=%r" % (i, k, lhs, i, j, j, k, rhs))
        for i in range(n):
            start = (i == 0) or chrs[i] != chrs[i - 1]
            if start:
                if float(S[i]) != float("inf"):
                    msgs.append("sequential[%d] = %r at a chromosome start, expected inf" % (i, float(S[i])))
            elif ordered:
                if float(S[i]) != float(D[i - 1, i]):
                    msgs.append("sequential[%d] = %r but pairwise D[%d,%d] = %r" % (i, float(S[i]), i - 1, i, float(D[i - 1, i])))
            else:
                if abs(float(S[i])) != float(D[i - 1, i]):
                    msgs.append("|sequential[%d]| = %r but pairwise D[%d,%d] = %r" % (i, float(S[i]), i - 1, i, float(D[i - 1, i])))
        if msgs:
            return True, "; ".join(msgs[:4]), "gdist-law"
        # ---- windows: rows/columns rst:rsp, cst:csp and sequential ast:asp
        for (a, b, c_, d_) in case.get("win", []):
            W = m.gdist2g(vc, vg, a, b, c_, d_)
            if not numpy.array_equal(W, D[a:b, c_:d_]):
                return True, "gdist2g window rows %r:%r cols %r:%r differs from the full matrix" % (a, b, c_, d_), "gdist2g-window"
            W1 = m.gdist1g(vc, vg, a, b)
            sub_c, sub_g = chrs[a:b], gens[a:b]
            if W1.shape != (len(sub_c),):
                return True, "gdist1g window %r:%r has shape %r" % (a, b, W1.shape), "gdist1g-window"
            for i in range(len(sub_c)):
                if i == 0 or sub_c[i] != sub_c[i - 1]:
                    ok = float(W1[i]) == float("inf")
                else:
                    ok = float(W1[i]) == sub_g[i] - sub_g[i - 1]
                if not ok:
                    return True, "gdist1g window %r:%r element %d = %r" % (a, b, i, float(W1[i])), "gdist1g-window"
        # ---- recombination fractions from distances
        for fname in ("haldane", "kosambi"):
            f = _mapfn_obj(fname)
            R2 = f.rprob2g(m, vc, vg)
            R1 = f.rprob1g(m, vc, vg)
            for i in range(n):
                if ordered or i == 0 or chrs[i] != chrs[i - 1]:
                    ref = ref_mapfn(fname, float(S[i]))
                    if not abs(float(R1[i]) - ref) <= 4 * EPS:
                        return True, "rprob1g(%s)[%d] = %r, map function of %r is %r" % (fname, i, float(R1[i]), float(S[i]), ref), "rprob-g"
                for j in range(n):
                    ref = ref_mapfn(fname, float(D[i, j]))
                    if not abs(float(R2[i, j]) - ref) <= 4 * EPS:
                        return True, "rprob2g(%s)[%d,%d] = %r, map function of %r is %r" % (fname, i, j, float(R2[i, j]), float(D[i, j]), ref), "rprob-g"
    return False, "ok", None


def gen_gdist_cases(rng, tier):
    cases = []
    fixed = [([], []), ([5], [0.25]), ([1, 1], [0.0, 0.0]), ([1, 2], [0.5, 0.5]), ([1, 1, 2], [0.0, 1.0, 0.0]),
             ([1, 2, 2, 3], [3.0, 0.0, 0.5, 0.25]), ([7, 7, 7, 7], [0.0, 0.25, 0.25, 2.0]),
             ([1, 1, 1], [0.1, 0.2, 0.30000000000000004]), ([-3, -3, 0, 0, 9], [1.0, 1.5, 0.0, 1e-9, 4.0])]
    for cls in ("standard", "extended"):
        for c, g in fixed:
            n = len(c)
            cases.append(dict(kind="gdist", cls=cls, chr=c, gen=g,
                              win=[[None, None, None, None], [0, n, 0, n], [1, None, None, 2], [0, 1, 1, n], [2, 4, 0, 3]]))
    N = 150 if tier == "quick" else 4000
    for c in range(N):
        nchr = rng.choice([1, 2, 3, 4])
        labels = sorted(rng.sample([-5, 0, 1, 2, 3, 4, 8, 300, 2 ** 31 + 5], nchr))
        chrs, gens = [], []
        ordered = rng.random() < 0.85
        dyadic = rng.random() < 0.4
        for lab in labels:
            k = rng.choice([1, 1, 2, 3, 4, 6])
            g = rng.choice([0.0, rng.uniform(0, 2)])
            if dyadic:
                g = round(g * 64) / 64.0
            gs = []
            for i in range(k):
                if i:
                    g += 0.0 if rng.random() < 0.2 else (rng.randrange(1, 300) / 256.0 if dyadic else rng.uniform(1e-6, 1.0))
                gs.append(g)
            if not ordered:
                rng.shuffle(gs)
            chrs += [lab] * k
            gens += gs
        n = len(chrs)
        win = [[None, None, None, None]]
        for _ in range(3):
            a, b = sorted([rng.randrange(0, n + 1), rng.randrange(0, n + 1)])
            c_, d_ = sorted([rng.randrange(0, n + 1), rng.randrange(0, n + 1)])
            win.append([rng.choice([a, a, None]), rng.choice([b, b, None]), rng.choice([c_, c_, None]), rng.choice([d_, d_, None])])
        cdt = "int64" if max(abs(x) for x in chrs) >= 2 ** 31 else rng.choice(["int64", "int64", "int32"])
        cases.append(dict(kind="gdist", cls=rng.choice(["standard", "extended"]), chr=chrs, gen=gens, win=win,
                          cdtype=cdt, auto_group=rng.random() < 0.8))
    return cases


U_GDIST = "ring[pairwise and sequential genetic distances]"


@unit(P, U_GDIST, "R", bounded=True,
      note="bounded: <=4 chromosomes x <=6 query markers, 18 fixed + 150 (quick) / 4000 (thorough) seeded cases, "
           "both map classes, windows ast/asp/rst/rsp/cst/csp, both map functions via rprob1g/rprob2g")
def u_ring_gdist(ctx):
    ctx.rule = ("marker sets sorted by chromosome (ordered and, for the order-free laws, unordered positions; ties; "
                "single-marker chromosomes; empty set) on a StandardGeneticMap / ExtendedGeneticMap instance; "
                "non-trivial if >= 2 markers; distinct by input")
    _drive(ctx, gen_gdist_cases(ctx.rng, ctx.tier), run_gdist_case, "ring:gdist", "gdist-law",
           nontrivial=lambda c: len(c["chr"]) >= 2,
           sample=lambda c: dict(cls=c["cls"], chr=c["chr"], gen=c["gen"]))


REPLAYERS[U_GDIST] = _replayer(run_gdist_case)


# --------------------------------------------------------------------------
# ring 3: interpolation (both map classes, constructor options, row order)
# --------------------------------------------------------------------------
def _stored_rows(m, has_names, has_fncode, extended):
    """rows as held by the map: (chr, phy) -> list of (gen, stop, name, fncode)"""
    out = {}
    n = len(m.vrnt_chrgrp)
    for i in range(n):
        k = (int(m.vrnt_chrgrp[i]), int(m.vrnt_phypos[i]))
        rec = [float(m.vrnt_genpos[i]),
               int(m.vrnt_stop[i]) if extended else None,
               m.vrnt_name[i] if (extended and has_names and m.vrnt_name is not None) else None,
               m.vrnt_fncode[i] if (extended and has_fncode and m.vrnt_fncode is not None) else None]
        out.setdefault(k, []).append(rec)
    return out


def _bits_equal(a, b):
    import numpy
    a, b = numpy.asarray(a, dtype=float), numpy.asarray(b, dtype=float)
    return a.shape == b.shape and bool(numpy.array_equal(a, b, equal_nan=True))


def run_interp_case(case):
    import numpy
    cls_name = case["cls"]
    extended = cls_name == "extended"
    opts = dict(case.get("opts") or {})
    units = opts.get("units", "M")
    rows = [[int(r[0]), int(r[1]), _dec(r[2])] for r in case["rows"]]          # canonical: sorted by (chr, phy)
    perm = case.get("perm") or list(range(len(rows)))
    supplied = [rows[i] for i in perm]
    exact_order = bool(case.get("exact_order"))
    with warnings.catch_warnings(), numpy.errstate(all="ignore"):
        warnings.simplefilter("ignore")
        B = build_map(cls_name, supplied, opts)
        A = build_map(cls_name, rows, dict(units=units, names=opts.get("names"), fncode=opts.get("fncode")))

        # ---- 1. the map holds exactly the supplied rows (each row intact), sorted and grouped when requested
        st = _stored_rows(B, opts.get("names"), opts.get("fncode"), extended)
        if sum(len(v) for v in st.values()) != len(rows) or any(len(v) != 1 for v in st.values()):
            return True, "map holds %d rows for %d supplied distinct markers" % (sum(len(v) for v in st.values()), len(rows)), "map-row-alignment"
        stored = {}
        for idx, (c, p_, g) in zip(perm, supplied):
            rec = st.get((c, p_))
            if rec is None:
                return True, "marker chr %d pos %d is missing from the map" % (c, p_), "map-row-alignment"
            sg = rec[0][0]
            if units in ("M", "Morgans"):
                okg = sg == g
            else:
                okg = abs(Fraction(sg) - Fraction(g) / 100) <= Fraction(abs(g)) / 100 * Fraction(2 * EPS)
            if not okg:
                return True, "marker chr %d pos %d: stored genetic position %r for supplied %r %s" % (c, p_, sg, g, units), "map-row-alignment"
            if extended:
                pos_in_supplied = perm.index(idx)
                if rec[0][1] != p_ + (7 * pos_in_supplied) % 5:
                    return True, "marker chr %d pos %d: stop position %r does not belong to this row" % (c, p_, rec[0][1]), "map-row-alignment"
                if opts.get("names") and rec[0][2] != "m_%d_%d" % (c, p_):
                    return True, "marker chr %d pos %d carries name %r" % (c, p_, rec[0][2]), "map-row-alignment"
                if opts.get("fncode") and rec[0][3] != "HKU"[(c + p_) % 3]:
                    return True, "marker chr %d pos %d carries fncode %r" % (c, p_, rec[0][3]), "map-row-alignment"
            stored[(c, p_)] = sg
        grouped_now = opts.get("auto_group", True) and opts.get("route", "ctor") in ("ctor", "pandas", "copy", "deepcopy")
        if grouped_now:
            got = [(int(a), int(b)) for a, b in zip(B.vrnt_chrgrp, B.vrnt_phypos)]
            if got != [(r[0], r[1]) for r in rows]:
                return True, "auto_group map is not sorted by (chromosome, physical position): %r" % (got[:8],), "map-grouping"
            if not B.is_grouped():
                return True, "auto_group map reports is_grouped() False", "map-grouping"
            labs = sorted(set(r[0] for r in rows))
            stix = [min(i for i, r in enumerate(rows) if r[0] == l) for l in labs]
            spix = [max(i for i, r in enumerate(rows) if r[0] == l) + 1 for l in labs]
            if ([int(x) for x in B.vrnt_chrgrp_name] != labs or [int(x) for x in B.vrnt_chrgrp_stix] != stix
                    or [int(x) for x in B.vrnt_chrgrp_spix] != spix
                    or [int(x) for x in B.vrnt_chrgrp_len] != [b - a for a, b in zip(stix, spix)]):
                return True, "chromosome group index arrays do not describe the sorted map", "map-grouping"

        # ---- 2. own markers
        for order_name, rr in (("sorted", rows), ("supplied", supplied)):
            oc = numpy.array([r[0] for r in rr], dtype="int64")
            op = numpy.array([r[1] for r in rr], dtype="int64")
            og = B.interp_genpos(oc, op)
            if og.shape != (len(rr),) or og.dtype != numpy.float64:
                return True, "interp_genpos result shape %r dtype %s" % (og.shape, og.dtype), "interp-shape"
            for r, v in zip(rr, og):
                if float(v) != stored[(r[0], r[1])]:
                    return True, "own marker chr %d pos %d (%s order): interpolated %r, stored %r" % (
                        r[0], r[1], order_name, float(v), stored[(r[0], r[1])]), "interp-own-marker"

        # ---- 3. queries
        q = [[int(a), int(b)] for a, b in case.get("q", [])]
        qc = numpy.array([a for a, b in q], dtype=case.get("qdtype", "int64"))
        qp = numpy.array([b for a, b in q], dtype=case.get("qdtype", "int64"))
        kc, kp = qc.copy(), qp.copy()
        out = B.interp_genpos(qc, qp)
        if not (numpy.array_equal(qc, kc) and numpy.array_equal(qp, kp)):
            return True, "interp_genpos modified its arguments", "interp-mutates-args"
        if out.shape != (len(q),):
            return True, "interp_genpos result shape %r for %d queries" % (out.shape, len(q)), "interp-shape"
        bychr = {}
        for (c, p_, g) in rows:
            bychr.setdefault(c, []).append((p_, stored[(c, p_)]))
        inside = []
        for i, (c, p_) in enumerate(q):
            v = float(out[i])
            if c not in bychr:
                if not math.isnan(v):
                    return True, "query chr %d pos %d: chromosome absent from the map but result is %r (expected NaN)" % (c, p_, v), "interp-absent-chromosome"
                continue
            if math.isnan(v) or math.isinf(v):
                return True, "query chr %d pos %d: result %r on a mapped chromosome" % (c, p_, v), "interp-finite"
            mk = bychr[c]
            if mk[0][0] <= p_ <= mk[-1][0]:
                lo = max(x for x in mk if x[0] <= p_)
                hi = min(x for x in mk if x[0] >= p_)
                if lo[0] == hi[0]:
                    if v != lo[1]:
                        return True, "query chr %d pos %d is a marker: interpolated %r, stored %r" % (c, p_, v, lo[1]), "interp-own-marker"
                else:
                    ex = Fraction(lo[1]) + (Fraction(hi[1]) - Fraction(lo[1])) * Fraction(p_ - lo[0], hi[0] - lo[0])
                    tol = Fraction(4 * EPS) * Fraction(max(abs(lo[1]), abs(hi[1])))
                    if abs(Fraction(v) - ex) > tol:
                        return True, "query chr %d pos %d between markers (%d, %r) and (%d, %r): interpolated %r, linear value %r" % (
                            c, p_, lo[0], lo[1], hi[0], hi[1], v, float(ex)), "interp-linear"
                inside.append((c, p_, v))

        # ---- 4. independence of the supplied row order (reference: same rows supplied sorted, default options)
        ref = A.interp_genpos(qc, qp)
        if not _bits_equal(ref, out):
            bad = [i for i in range(len(q)) if not _bits_equal(ref[i], out[i])]
            return True, "query %r: %r from rows as supplied, %r from the same rows supplied sorted" % (
                q[bad[0]], float(out[bad[0]]), float(ref[bad[0]])), "interp-row-order"
        for i in range(min(len(q), 6)):
            one = B.interp_genpos(qc[i:i + 1], qp[i:i + 1])
            if not _bits_equal(one, out[i:i + 1]):
                return True, "query %r alone gives %r, inside a query vector %r" % (q[i], float(one[0]), float(out[i])), "interp-elementwise"
        if case.get("gdistp") and all(c in bychr for c, _ in q):
            srt = sorted(q)
            sc = numpy.array([a for a, b in srt], dtype="int64")
            sp = numpy.array([b for a, b in srt], dtype="int64")
            sg = B.interp_genpos(sc, sp)
            if not _bits_equal(B.gdist1p(sc, sp), B.gdist1g(sc, sg)):
                return True, "gdist1p differs from gdist1g of the interpolated positions", "gdist-p"
            if not _bits_equal(B.gdist2p(sc, sp), B.gdist2g(sc, sg)):
                return True, "gdist2p differs from gdist2g of the interpolated positions", "gdist-p"
            if not _bits_equal(B.gdist2p(sc, sp), A.gdist2p(sc, sp)):
                return True, "gdist2p depends on the supplied row order", "interp-row-order"
            # windowed forms: the window selects among the distances of ALL markers, exactly as in the genetic-position form
            nq = len(sc)
            for lo, hi in ((1, None), (None, nq - 1), (1, nq - 1), (nq // 2, nq)) if nq >= 3 else ():
                try:
                    g1 = B.gdist1g(sc, sg, lo, hi)
                    g2 = B.gdist2g(sc, sg, lo, hi, 0, nq - 1)
                except Exception:
                    continue
                if not _bits_equal(B.gdist1p(sc, sp, lo, hi), g1):
                    return True, "gdist1p(window %r:%r) differs from gdist1g of the interpolated positions with the same window" % (lo, hi), "gdist-p"
                if not _bits_equal(B.gdist2p(sc, sp, lo, hi, 0, nq - 1), g2):
                    return True, "gdist2p(rows %r:%r) differs from gdist2g of the interpolated positions with the same window" % (lo, hi), "gdist-p"
        if case.get("igmap") and len(q) > 0:
            if extended:
                new = B.interp_gmap(qc.astype("int64"), qp.astype("int64"), qp.astype("int64"))
            else:
                new = B.interp_gmap(qc.astype("int64"), qp.astype("int64"))
            if not _bits_equal(new.vrnt_genpos, out):
                return True, "interp_gmap positions differ from interp_genpos", "interp-gmap"

        # ---- 5. order preservation for congruent maps (between flanking markers)
        if rows_congruent([[c, p_, stored[(c, p_)]] for c, p_, g in rows]):
            inside.sort(key=lambda t: (t[0], t[1]))
            for a, b in zip(inside, inside[1:]):
                if a[0] != b[0]:
                    continue
                if a[1] == b[1]:
                    if a[2] != b[2]:
                        return True, "chr %d pos %d interpolated to both %r and %r" % (a[0], a[1], a[2], b[2]), "interp-order"
                    continue
                gmax = max(abs(x[1]) for x in bychr[a[0]])
                tol = 0.0 if exact_order else 4 * EPS * gmax
                if not a[2] <= b[2] + tol:
                    return True, "congruent map, chr %d: pos %d -> %r but pos %d -> %r (decrease of %.3g)" % (
                        a[0], a[1], a[2], b[1], b[2], a[2] - b[2]), ("interp-order-ulp-tied-positions" if exact_order else "interp-order")
    return False, "ok", None


def gen_queries(rng, rows, nabsent=True, dense=False):
    bychr = {}
    for c, p_, g in rows:
        bychr.setdefault(c, []).append(p_)
    q = []
    for c, ps in bychr.items():
        lo, hi = ps[0], ps[-1]
        for p_ in ps:
            if rng.random() < 0.5:
                q.append([c, p_])
        for a, b in zip(ps, ps[1:]):
            if b - a >= 2:
                q.append([c, (a + b) // 2])
                for _ in range(3 if dense else 1):
                    q.append([c, rng.randrange(a + 1, b)])
                if rng.random() < 0.3:
                    q.append([c, a + 1])
                    q.append([c, b - 1])
        if rng.random() < 0.6:
            q.append([c, lo - rng.choice([1, 2, 10, 1000])])
            q.append([c, hi + rng.choice([1, 2, 10, 10 ** 6])])
        if rng.random() < 0.3 and q:
            q.append(list(rng.choice(q)))               # duplicate query
    if nabsent:
        present = set(bychr)
        for _ in range(rng.choice([0, 1, 2])):
            lab = rng.choice([-7, 99, 12345, 2 ** 33])
            if lab not in present:
                q.append([lab, rng.choice([1, 5, rows[0][1], 10 ** 6])])
    rng.shuffle(q)
    return q[:40]


def gen_interp_cases(rng, tier):
    cases = []
    fixed_rows = [[1, 10, 0.0], [1, 20, 0.5], [1, 40, 0.75], [3, 5, 0.125], [3, 9, 1.0]]
    fixed_q = [[1, 10], [1, 15], [1, 20], [1, 30], [1, 40], [1, 5], [1, 50], [3, 5], [3, 7], [3, 9], [2, 7], [4, 1], [1, 15]]
    for cls in ("standard", "extended"):
        for ag in (True, False):
            for ab in (True, False):
                for perm in ([0, 1, 2, 3, 4], [4, 2, 0, 3, 1], [3, 1, 4, 0, 2]):
                    cases.append(dict(kind="interp", cls=cls, rows=fixed_rows, perm=perm, q=fixed_q, gdistp=True, igmap=True,
                                      opts=dict(auto_group=ag, auto_build_spline=ab, names=True, fncode=ab)))
        cases.append(dict(kind="interp", cls=cls, rows=fixed_rows, perm=[1, 0, 4, 3, 2], q=[], opts=dict()))
    N = 220 if tier == "quick" else 5000
    for c in range(N):
        congruent = rng.random() < 0.8
        rows = gen_map_rows(rng, flat=False, congruent=congruent)
        units = rng.choice(["M", "M", "Morgans", "cM", "centiMorgans"])
        if units in ("cM", "centiMorgans"):
            rows = [[a, b, g * 100.0] for a, b, g in rows]
        perm = list(range(len(rows)))
        u = rng.random()
        if u < 0.7:
            rng.shuffle(perm)
        elif u < 0.8:
            perm.reverse()
        qrows = [[a, b, g] for a, b, g in rows]
        q = gen_queries(rng, qrows)
        big = max(abs(v) for pair in q for v in pair) if q else 0
        cases.append(dict(kind="interp", cls=rng.choice(["standard", "extended"]), rows=rows, perm=perm, q=q,
                          qdtype="int64" if big >= 2 ** 31 else rng.choice(["int64", "int64", "int32"]),
                          gdistp=rng.random() < 0.5, igmap=rng.random() < 0.2,
                          opts=dict(units=units, auto_group=rng.random() < 0.6, auto_build_spline=rng.random() < 0.6,
                                    route=rng.choice(["ctor", "ctor", "ctor", "pandas", "copy", "deepcopy"]),
                                    names=rng.random() < 0.5, fncode=rng.random() < 0.5)))
    return cases


U_INTERP = "ring[interpolation, constructor options, row order]"


@unit(P, U_INTERP, "R", bounded=True,
      note="bounded: <=4 chromosomes x 2..6 markers, physical positions up to 2e9, <=40 queries; 50 fixed + 220 (quick) / "
           "5000 (thorough) seeded maps; both classes, auto_group/auto_build_spline T/F, units M/cM, routes "
           "constructor/from_pandas/copy/deepcopy; order check to 4 ulp here (exact in the tied-positions ring)")
def u_ring_interp(ctx):
    ctx.rule = ("seeded random maps (congruent and not, ties in genetic position, arbitrary chromosome labels) supplied in "
                "a stored row permutation; queries at own markers, between flanking markers, outside the flanks, on absent "
                "chromosomes, duplicated; non-trivial if >= 1 query between flanking markers; distinct by input")
    _drive(ctx, gen_interp_cases(ctx.rng, ctx.tier), run_interp_case, "ring:interp", "interp-law",
           nontrivial=lambda c: len(c["q"]) > 0,
           sample=lambda c: dict(cls=c["cls"], rows=c["rows"][:4], perm=c["perm"][:6], opts=c["opts"]))


REPLAYERS[U_INTERP] = _replayer(run_interp_case)


# --------------------------------------------------------------------------
# ring 3b: order preservation compared exactly on maps with tied genetic positions
# --------------------------------------------------------------------------
def gen_tied_cases(rng, tier):
    cases = [dict(kind="interp", cls="standard", exact_order=True, perm=[0, 1, 2], opts=dict(),
                  rows=[[1, 10, 0.1], [1, 13, 0.3], [1, 20, 0.3]], q=[[1, p_] for p_ in range(10, 21)])]
    N = 60 if tier == "quick" else 1500
    for c in range(N):
        rows = gen_map_rows(rng, flat=True, congruent=True, maxchr=2, maxmk=5)
        perm = list(range(len(rows)))
        rng.shuffle(perm)
        cases.append(dict(kind="interp", cls=rng.choice(["standard", "extended"]), rows=rows, perm=perm, exact_order=True,
                          q=gen_queries(rng, rows, nabsent=False, dense=True), opts=dict()))
    return cases


U_TIED = "ring[interpolation order, tied genetic positions, exact]"


@unit(P, U_TIED, "R", bounded=True,
      note="bounded: <=2 chromosomes x 2..5 markers with tied consecutive genetic positions, 1 fixed + 60 (quick) / 1500 "
           "(thorough) seeded maps, <=40 queries; order compared with no tolerance")
def u_ring_tied(ctx):
    ctx.rule = ("congruent maps in which consecutive markers share a genetic position (co-segregating markers); queries "
                "strictly between them; physical order must never map to a decreasing genetic position; distinct by input")
    _drive(ctx, gen_tied_cases(ctx.rng, ctx.tier), run_interp_case, "ring:interp-tied", "interp-law",
           nontrivial=lambda c: len(c["q"]) > 1,
           sample=lambda c: dict(cls=c["cls"], rows=c["rows"][:4]))


REPLAYERS[U_TIED] = _replayer(run_interp_case)


# --------------------------------------------------------------------------
# ring 4: crossover probabilities assigned to a genotype matrix
# --------------------------------------------------------------------------
def run_xoprob_case(case):
    import numpy
    rows = [[int(r[0]), int(r[1]), _dec(r[2])] for r in case["rows"]]
    perm = case.get("perm") or list(range(len(rows)))
    supplied = [rows[i] for i in perm]
    fname = case["fn"]
    mk = [[int(a), int(b)] for a, b in case["markers"]]          # matrix markers in the order supplied to the matrix
    p = len(mk)
    ntaxa = int(case.get("ntaxa", 2))
    seed = int(case.get("seed", 0))
    with warnings.catch_warnings(), numpy.errstate(all="ignore"):
        warnings.simplefilter("ignore")
        gmap = build_map(case["cls"], supplied, case.get("opts"))
        fn = _mapfn_obj(fname)
        rs = numpy.random.RandomState(seed)
        kw = dict(vrnt_chrgrp=numpy.array([a for a, b in mk], dtype="int64"),
                  vrnt_phypos=numpy.array([b for a, b in mk], dtype="int64"))
        if case.get("vrnt_name"):
            kw["vrnt_name"] = numpy.array(["v%d_%d" % (a, b) for a, b in mk], dtype=object)
        if case.get("stale"):
            kw["vrnt_genpos"] = rs.uniform(5.0, 9.0, p)
            kw["vrnt_xoprob"] = rs.uniform(0.0, 0.5, p)
        if case["gmat"] == "phased":
            from pybrops.popgen.gmat.DensePhasedGenotypeMatrix import DensePhasedGenotypeMatrix as G
            mat = rs.randint(0, 2, (2, ntaxa, p)).astype("int8")
        else:
            from pybrops.popgen.gmat.DenseGenotypeMatrix import DenseGenotypeMatrix as G
            mat = rs.randint(0, 3, (ntaxa, p)).astype("int8")
        gm = G(mat=mat, **kw)
        gm.group_vrnt()
        # matrix marker order after grouping: sorted by (chromosome, physical position)
        gc = [int(x) for x in gm.vrnt_chrgrp]
        gp = [int(x) for x in gm.vrnt_phypos]
        if sorted(zip(gc, gp)) != sorted((a, b) for a, b in mk) or list(zip(gc, gp)) != sorted(zip(gc, gp)):
            return True, "precondition: group_vrnt() did not sort the matrix markers", "xoprob-precondition"
        if case.get("only_genpos"):
            gm.interp_genpos(gmap)
        else:
            gm.interp_xoprob(gmap, fn)
        if [int(x) for x in gm.vrnt_chrgrp] != gc or [int(x) for x in gm.vrnt_phypos] != gp:
            return True, "interp_xoprob changed the marker coordinates of the matrix", "xoprob-mutates-markers"
        gen = gm.vrnt_genpos
        if gen is None or gen.shape != (p,):
            return True, "vrnt_genpos after interpolation: %r" % (None if gen is None else gen.shape,), "xoprob-genpos"
        # positions: what the map interpolates for each marker on its own, and the statement's laws
        mapped = {}
        for c, p_, g in rows:
            mapped.setdefault(c, []).append((p_, g))
        units = (case.get("opts") or {}).get("units", "M")
        for i in range(p):
            one = gmap.interp_genpos(numpy.array([gc[i]], dtype="int64"), numpy.array([gp[i]], dtype="int64"))
            v = float(gen[i])
            if not _bits_equal(one[0], v):
                return True, "marker %d (chr %d pos %d): matrix position %r, map interpolates %r" % (i, gc[i], gp[i], v, float(one[0])), "xoprob-genpos"
            if gc[i] not in mapped:
                if not math.isnan(v):
                    return True, "marker %d on absent chromosome %d got position %r" % (i, gc[i], v), "xoprob-genpos"
            elif units == "M":
                mm = mapped[gc[i]]
                if mm[0][0] <= gp[i] <= mm[-1][0]:
                    lo = max(x for x in mm if x[0] <= gp[i])
                    hi = min(x for x in mm if x[0] >= gp[i])
                    ex = Fraction(lo[1]) if lo[0] == hi[0] else (
                        Fraction(lo[1]) + (Fraction(hi[1]) - Fraction(lo[1])) * Fraction(gp[i] - lo[0], hi[0] - lo[0]))
                    if abs(Fraction(v) - ex) > Fraction(4 * EPS) * Fraction(max(abs(lo[1]), abs(hi[1]))):
                        return True, "marker %d (chr %d pos %d): position %r, linear value %r" % (i, gc[i], gp[i], v, float(ex)), "xoprob-genpos"
        if case.get("only_genpos"):
            return False, "ok", None
        xo = gm.vrnt_xoprob
        if xo is None or xo.shape != (p,):
            return True, "vrnt_xoprob after interpolation: %r" % (None if xo is None else xo.shape,), "xoprob-shape"
        for i in range(p):
            x = float(xo[i])
            if i == 0 or gc[i] != gc[i - 1]:
                if x != 0.5:
                    return True, "marker %d starts chromosome %d but has crossover probability %r (expected 1/2)" % (i, gc[i], x), "xoprob-chromosome-start"
                continue
            d = float(gen[i]) - float(gen[i - 1])
            if math.isnan(d):
                if not math.isnan(x):
                    return True, "marker %d: distance undefined (absent chromosome) but probability %r" % (i, x), "xoprob-value"
                continue
            lib = float(fn.mapfn(numpy.float64(d)))
            if not (x == lib or abs(x - lib) <= 2 * EPS):
                return True, "marker %d: probability %r, map function (%s) of consecutive distance %r is %r" % (i, x, fname, d, lib), "xoprob-value"
            if d >= 0.0:
                ref = ref_mapfn(fname, d)
                if not abs(x - ref) <= 4 * EPS:
                    return True, "marker %d: probability %r, reference %s(%r) = %r" % (i, x, fname, d, ref), "xoprob-value"
    return False, "ok", None


def gen_xoprob_cases(rng, tier):
    cases = []
    fixed_rows = [[1, 10, 0.0], [1, 20, 0.5], [1, 40, 0.75], [3, 5, 0.125], [3, 9, 1.0]]
    fixed_mk = [[3, 9], [1, 15], [1, 10], [3, 7], [1, 40], [1, 30], [2, 4], [2, 8], [3, 5], [1, 30]]
    for cls in ("standard", "extended"):
        for fn in ("haldane", "kosambi"):
            for gmat in ("unphased", "phased"):
                for stale in (False, True):
                    cases.append(dict(kind="xoprob", cls=cls, fn=fn, gmat=gmat, rows=fixed_rows, perm=[4, 2, 0, 3, 1],
                                      markers=fixed_mk, stale=stale, ntaxa=2, seed=1, opts=dict()))
                cases.append(dict(kind="xoprob", cls=cls, fn=fn, gmat=gmat, rows=fixed_rows, perm=[0, 1, 2, 3, 4],
                                  markers=[[1, 12]], ntaxa=1, seed=2, opts=dict()))
                cases.append(dict(kind="xoprob", cls=cls, fn=fn, gmat=gmat, rows=fixed_rows, perm=[0, 1, 2, 3, 4],
                                  markers=[], ntaxa=1, seed=2, opts=dict()))
    N = 160 if tier == "quick" else 4000
    for c in range(N):
        rows = gen_map_rows(rng, flat=False, congruent=rng.random() < 0.9)
        perm = list(range(len(rows)))
        rng.shuffle(perm)
        mk = gen_queries(rng, rows, nabsent=rng.random() < 0.4)
        cases.append(dict(kind="xoprob", cls=rng.choice(["standard", "extended"]), fn=rng.choice(["haldane", "kosambi"]),
                          gmat=rng.choice(["unphased", "phased"]), rows=rows, perm=perm, markers=mk,
                          stale=rng.random() < 0.5, vrnt_name=rng.random() < 0.5, only_genpos=rng.random() < 0.1,
                          ntaxa=rng.choice([0, 1, 3]), seed=rng.randrange(10 ** 6),
                          opts=dict(auto_group=rng.random() < 0.7, auto_build_spline=rng.random() < 0.7,
                                    route=rng.choice(["ctor", "ctor", "pandas", "copy"]))))
    return cases


U_XO = "ring[crossover probabilities of a genotype matrix]"


@unit(P, U_XO, "R", bounded=True,
      note="bounded: maps of <=4 chromosomes x 2..6 markers, genotype matrices of <=3 taxa x <=40 markers, 32 fixed + 160 "
           "(quick) / 4000 (thorough) seeded cases; DenseGenotypeMatrix and DensePhasedGenotypeMatrix x both map classes x "
           "both map functions")
def u_ring_xo(ctx):
    ctx.rule = ("genotype matrices whose markers are supplied unsorted (then group_vrnt()), with markers at, between and "
                "outside map markers, duplicated, on absent chromosomes, optionally with stale vrnt_genpos/vrnt_xoprob; "
                "non-trivial if >= 2 markers on one chromosome; distinct by input")
    def nontriv(c):
        cs = [a for a, b in c["markers"]]
        return len(cs) != len(set(cs))
    _drive(ctx, gen_xoprob_cases(ctx.rng, ctx.tier), run_xoprob_case, "ring:xoprob", "xoprob-law", nontrivial=nontriv,
           sample=lambda c: dict(cls=c["cls"], fn=c["fn"], gmat=c["gmat"], markers=c["markers"][:5]))


REPLAYERS[U_XO] = _replayer(run_xoprob_case)
