"""C04 -- native bounded rings (mode R) for
"Genomic-model predictions are linear, label-preserving and self-consistent".

Everything here runs the REAL pybrops code imported from $PYBROPS_REPO.  The
oracles are written from the property statement with plain Python loops over
nested lists (no numpy look-alikes of the library formulas):

* value of a taxon      = intercept + sum_j dosage_ij * u_a[j]  (+ sum_j het_ij * u_d[j])
  intercept             = beta[0] + (1/q) * sum_{k>=1} beta[k]        (Xstar = [1, 1/q, ...])
  dosage_ij             = number of phases of taxon i carrying allele 1 at marker j
  het_ij                = 1 iff 0 < dosage_ij < ploidy
* var_A / var_G         = population variance (divisor n) over taxa of GEBV / GEGV
* var_a                 = ploidy^2 * sum_j u_a[j]^2 p_j (1 - p_j),  p_j = count_j / (ploidy n)
* bulmer                = var_A / var_a   (NaN where var_a == 0)
* R^2                   = 1 - SSE/SST with Yhat = X beta + Z u
* favourable count      = count_j if u > 0, ploidy n - count_j if u < 0, 0 if u == 0
  deleterious count     = count_j if u < 0, ploidy n - count_j if u > 0, 0 if u == 0
  freq = count/(ploidy n); avail = count > 0; fixed = count == ploidy n; poly = 0 < count < ploidy n
  neutral fixed / poly  = u == 0 and marker monomorphic / polymorphic
* rrBLUP                = intercept is the training mean; monomorphic markers get exactly 0;
                          ||yc - Zu||^2 + ridge ||u||^2 <= ||yc||^2; (Z'Z + ridge I) u = Z'yc when n > p

Deliberately outside the rings (see the final report of the ring author):
raw dosage arrays of ploidy != 2 for the *dominance* design (a raw array carries
no ploidy; the library documents {0,1,2} coding for it), float32 raw arrays
(results are then float32-accurate by numpy semantics), empty populations (n=0,
frequencies undefined), selection limits usl/lsl (property C10).

A case is a small JSON dict (sizes, modes, one seed); all data are regenerated
from it deterministically, or taken verbatim from explicit "geno"/"u_a" keys
(exhaustive small scopes).
"""
import math
import random

from pyvc.unit import unit

P = "C04"

# --------------------------------------------------------------------------
# helpers
# --------------------------------------------------------------------------


def _recip_bad(d):
    """True when the float reciprocal of d does not multiply back to one:
    (1/d)*d != 1.  This is the input class of the reciprocal-rounding findings
    (49, 98, 103, 107, 161, ...)."""
    return d > 0 and (1.0 / d) * d != 1.0


def _isnan(x):
    return isinstance(x, float) and x != x


def _cmp_mat(errs, cls, what, got, exp, tol, exact=False):
    """got: numpy array; exp: list of rows (2-D, possibly empty) or flat list (1-D)."""
    import numpy
    got = numpy.asarray(got)
    two_d = len(exp) == 0 or isinstance(exp[0], list)
    if two_d:
        ok = got.ndim == 2 and got.shape[0] == len(exp) and (len(exp) == 0 or got.shape[1] == len(exp[0]))
        eshape = (len(exp), len(exp[0]) if len(exp) else "t")
    else:
        ok = got.shape == (len(exp),)
        eshape = (len(exp),)
    if not ok:
        errs.append((cls, "%s: shape %s, expected %s" % (what, got.shape, eshape)))
        return False
    g = got.tolist()
    e = exp
    if not two_d:
        g, e = [g], [exp]
    for i in range(len(e)):
        for j in range(len(e[i])):
            a, b = g[i][j], e[i][j]
            if isinstance(b, float) and b != b:
                ok = isinstance(a, float) and a != a
            elif exact:
                ok = (a == b) and not _isnan(a)
            else:
                ok = (not _isnan(a)) and abs(a - b) <= tol
            if not ok:
                errs.append((cls, "%s: element [%d,%d] is %r, definition gives %r (tol %.3g)" % (what, i, j, a, b, 0.0 if exact else tol)))
                return False
    return True


def _labels_equal(got, exp):
    """exact comparison of a label array with the expected python list (or None)"""
    if exp is None:
        return got is None
    if got is None:
        return False
    got = list(got.tolist()) if hasattr(got, "tolist") else list(got)
    return got == list(exp)


# --------------------------------------------------------------------------
# data of a case (pure python)
# --------------------------------------------------------------------------

_EFF_FIXED = [1.0, -1.0, 0.5, -2.5, 3.0, -0.125, 7.0, -4.0]


def _effect(rnd, mode):
    if mode == "allzero":
        return rnd.choice([0.0, 0.0, -0.0])
    if mode == "allpos":
        return rnd.choice([1.0, 0.5, 3.0, 0.001])
    if mode == "allneg":
        return rnd.choice([-1.0, -0.5, -3.0, -0.001])
    if mode == "nonzero":
        v = round(rnd.gauss(0.0, 2.0), 3)
        return v if v != 0.0 else 1.0
    r = rnd.random()       # mixed
    if r < 0.22:
        return 0.0
    if r < 0.27:
        return -0.0
    if r < 0.62:
        return rnd.choice(_EFF_FIXED)
    return round(rnd.gauss(0.0, 2.0), 3)


def _data(case):
    """regenerate every array of a case as nested python lists"""
    rnd = random.Random(case["seed"])
    ploidy, n, p, t = case["ploidy"], case["n"], case["p"], case["t"]
    q, pm = case.get("q", 1), case.get("pm", 0)
    D = dict(ploidy=ploidy, n=n, p=p, t=t, q=q, pm=pm)
    # genotypes [phase][taxon][marker] in {0,1}
    if "geno" in case:
        geno = [[list(r) for r in ph] for ph in case["geno"]]
    else:
        gm = case.get("gmodes", "mix")
        geno = [[[0] * p for _ in range(n)] for _ in range(ploidy)]
        for j in range(p):
            if gm == "mix":
                mode = rnd.choice(["rand", "rand", "rand", "fix0", "fix1", "lo", "hi", "het", "one"])
            elif gm == "fixed":
                mode = rnd.choice(["fix0", "fix1"])
            elif gm == "allone":
                mode = "fix1"
            else:
                mode = gm
            who = rnd.randrange(n) if n else 0
            for i in range(n):
                for m in range(ploidy):
                    if mode == "fix0":
                        a = 0
                    elif mode == "fix1":
                        a = 1
                    elif mode == "rand":
                        a = rnd.randint(0, 1)
                    elif mode == "lo":
                        a = 1 if rnd.random() < 0.15 else 0
                    elif mode == "hi":
                        a = 0 if rnd.random() < 0.15 else 1
                    elif mode == "het":
                        a = m % 2
                    else:  # "one": a single copy of allele 1 in the whole population
                        a = 1 if (i == who and m == 0) else 0
                    geno[m][i][j] = a
    D["geno"] = geno
    em = case.get("eff", "mixed")
    D["u_a"] = [list(map(float, r)) for r in case["u_a"]] if "u_a" in case else [[_effect(rnd, em) for _ in range(t)] for _ in range(p)]
    udm = case.get("ud", em)
    if udm == "none":
        D["u_d"], D["u_d_none"] = [[0.0] * t for _ in range(p)], True
    else:
        D["u_d"], D["u_d_none"] = [[_effect(rnd, udm) for _ in range(t)] for _ in range(p)], False
    D["u_misc"] = [[round(rnd.gauss(0.0, 1.5), 3) for _ in range(t)] for _ in range(pm)]
    D["beta"] = [[rnd.choice([0.0, 1.5, -3.0, 10.0, 100.0, round(rnd.gauss(0.0, 5.0), 3)]) for _ in range(t)] for _ in range(q)]
    lab = case.get("labels", "both")
    if lab in ("both", "taxa", "dups"):
        if lab == "dups":
            D["taxa"] = ["T%02d" % rnd.randrange(max(1, n // 2)) for _ in range(n)]
        else:
            ids = list(range(n))
            rnd.shuffle(ids)
            D["taxa"] = ["T%03d" % k for k in ids]
    else:
        D["taxa"] = None
    D["taxa_grp"] = [rnd.randrange(0, 4) for _ in range(n)] if lab in ("both", "grp", "dups") else None
    D["trait"] = ["trait%d" % k for k in range(t)] if case.get("trait", True) else None
    D["X"] = [[1.0 if k == 0 else float(rnd.randint(0, 1)) if rnd.random() < 0.5 else round(rnd.gauss(0, 1), 3) for k in range(q)] for _ in range(n)]
    D["Zmisc"] = [[round(rnd.gauss(0, 1), 3) for _ in range(pm)] for _ in range(n)]
    D["Y"] = [[round(rnd.gauss(0.0, 3.0), 3) for _ in range(t)] for _ in range(n)]
    perm = list(range(n))
    rnd.shuffle(perm)
    D["perm"] = perm
    k = rnd.choice([1, 2, 2, 3])
    parts = [[] for _ in range(k)]
    for j in range(p):
        parts[rnd.randrange(k)].append(j)
    for part in parts:
        if rnd.random() < 0.5:
            rnd.shuffle(part)
    D["parts"] = parts
    # derived (definitions)
    D["dos"] = [[sum(geno[m][i][j] for m in range(ploidy)) for j in range(p)] for i in range(n)]
    D["het"] = [[1 if 0 < D["dos"][i][j] < ploidy else 0 for j in range(p)] for i in range(n)]
    D["cnt"] = [sum(D["dos"][i][j] for i in range(n)) for j in range(p)]
    return D


# ---- oracles -------------------------------------------------------------

def _intercept(D):
    q = D["q"]
    return [D["beta"][0][tt] + sum(D["beta"][k][tt] for k in range(1, q)) / q for tt in range(D["t"])]


def _additive(D, rows=None):
    """sum_j dosage * u_a, plus magnitude (sum of absolute terms) for tolerances"""
    out, mag = [], 0.0
    for i in (range(D["n"]) if rows is None else rows):
        r = []
        for tt in range(D["t"]):
            s, a = 0.0, 0.0
            for j in range(D["p"]):
                term = D["dos"][i][j] * D["u_a"][j][tt]
                s += term
                a += abs(term)
            r.append(s)
            mag = max(mag, a)
        out.append(r)
    return out, mag


def _dominance(D):
    out, mag = [], 0.0
    for i in range(D["n"]):
        r = []
        for tt in range(D["t"]):
            s, a = 0.0, 0.0
            for j in range(D["p"]):
                term = D["het"][i][j] * D["u_d"][j][tt]
                s += term
                a += abs(term)
            r.append(s)
            mag = max(mag, a)
        out.append(r)
    return out, mag


def _variance(cols_rows, n, t):
    out = []
    for tt in range(t):
        if n == 0:
            out.append(float("nan"))
            continue
        mu = sum(cols_rows[i][tt] for i in range(n)) / n
        out.append(sum((cols_rows[i][tt] - mu) ** 2 for i in range(n)) / n)
    return out


# --------------------------------------------------------------------------
# real objects
# --------------------------------------------------------------------------

def _objects(case, D, u_a=None, u_d=None, beta=None, cols=None, rows=None, kind=None):
    """build the real model and the three input forms (phased, unphased, raw)
    optionally restricted to marker columns `cols` / taxon order `rows`."""
    import numpy
    from pybrops.popgen.gmat.DensePhasedGenotypeMatrix import DensePhasedGenotypeMatrix
    from pybrops.popgen.gmat.DenseGenotypeMatrix import DenseGenotypeMatrix
    kind = kind or case["kind"]
    t, ploidy = D["t"], D["ploidy"]
    cols = list(range(D["p"])) if cols is None else cols
    rows = list(range(D["n"])) if rows is None else rows
    ua = [D["u_a"][j] for j in cols] if u_a is None else u_a
    ud = [D["u_d"][j] for j in cols] if u_d is None else u_d
    be = D["beta"] if beta is None else beta
    f2 = lambda x, ncol: numpy.array(x, dtype="float64").reshape(len(x), ncol)
    trait = None if D["trait"] is None else numpy.array(D["trait"], dtype=object)
    umisc = f2(D["u_misc"], t) if D["pm"] > 0 else None
    if kind == "add":
        from pybrops.model.gmod.DenseAdditiveLinearGenomicModel import DenseAdditiveLinearGenomicModel
        model = DenseAdditiveLinearGenomicModel(beta=f2(be, t), u_misc=umisc, u_a=f2(ua, t), trait=trait,
                                                model_name="ring", hyperparams=None)
    elif kind == "rr":
        from pybrops.model.gmod.rrBLUPModel0 import rrBLUPModel0
        model = rrBLUPModel0(beta=f2(be, t), u_misc=umisc, u_a=f2(ua, t), trait=trait)
    elif kind == "dom":
        from pybrops.model.gmod.DenseAdditiveDominanceLinearGenomicModel import DenseAdditiveDominanceLinearGenomicModel
        model = DenseAdditiveDominanceLinearGenomicModel(beta=f2(be, t), u_misc=umisc, u_a=f2(ua, t),
                                                         u_d=None if D["u_d_none"] else f2(ud, t), trait=trait)
    elif kind == "base":
        model = _stub_class()(beta=f2(be, t), u=f2(ua, t), trait=trait)
    else:
        raise ValueError(kind)
    mat = numpy.zeros((ploidy, len(rows), len(cols)), dtype="int8")
    for m in range(ploidy):
        for a, i in enumerate(rows):
            for b, j in enumerate(cols):
                mat[m, a, b] = D["geno"][m][i][j]
    dos = numpy.zeros((len(rows), len(cols)), dtype="int8")
    for a, i in enumerate(rows):
        for b, j in enumerate(cols):
            dos[a, b] = D["dos"][i][j]
    taxa = None if D["taxa"] is None else numpy.array([D["taxa"][i] for i in rows], dtype=object)
    grp = None if D["taxa_grp"] is None else numpy.array([D["taxa_grp"][i] for i in rows], dtype="int64")
    vname = numpy.array(["m%d" % j for j in cols], dtype=object)
    pg = DensePhasedGenotypeMatrix(mat=mat, taxa=taxa, taxa_grp=grp, vrnt_name=vname)
    ug = DenseGenotypeMatrix(mat=dos.copy(), taxa=None if taxa is None else taxa.copy(),
                             taxa_grp=None if grp is None else grp.copy(), vrnt_name=vname.copy(), ploidy=ploidy)
    raw8 = dos.copy()
    rawx = dos.astype(case.get("rawdtype", "float64"))
    return model, dict(phased=pg, unphased=ug, raw_int8=raw8, raw_other=rawx)


_STUB = []


def _stub_class():
    """minimal concrete subclass of the (abstract) DenseLinearGenomicModel: nothing
    is overridden, the abstract-method guard alone is lifted, so every method
    exercised is the library's own."""
    if not _STUB:
        from pybrops.model.gmod.DenseLinearGenomicModel import DenseLinearGenomicModel
        cls = type("RingConcreteDenseLinearGenomicModel", (DenseLinearGenomicModel,), {})
        cls.__abstractmethods__ = frozenset()
        _STUB.append(cls)
    return _STUB[0]


def _snap(model, forms):
    import numpy
    out = {}
    for nm in ("_beta", "_u", "_u_a", "_u_d", "_u_misc"):
        v = getattr(model, nm, None)
        if v is not None:
            out["model." + nm] = (v, numpy.array(v, copy=True))
    for k, f in forms.items():
        arr = f if isinstance(f, numpy.ndarray) else f._mat
        out["input." + k] = (arr, numpy.array(arr, copy=True))
        if not isinstance(f, numpy.ndarray):
            for a in ("_taxa", "_taxa_grp"):
                v = getattr(f, a, None)
                if v is not None:
                    out["input.%s.%s" % (k, a)] = (v, numpy.array(v, copy=True))
    return out


def _check_snap(errs, snap, cls):
    import numpy
    for k, (live, old) in snap.items():
        if live.shape != old.shape or not numpy.array_equal(live, old):
            errs.append((cls, "%s was modified by the calls" % k))


def _forms_for(case, D, value_kind):
    """input forms valid for a clause.  Raw dosage arrays carry no ploidy, so the
    dominance design of a raw array is documented as {0,1,2} (diploid) only."""
    names = ["phased", "unphased", "raw_int8", "raw_other"]
    if value_kind == "dom" and D["ploidy"] != 2:
        names = ["phased", "unphased"]
    return names


# --------------------------------------------------------------------------
# ring 1: predictions (GEBV / GEGV / predict), labels, permutation, partition
# --------------------------------------------------------------------------

def _check_bvmat(errs, tag, kind, bv, exp, tol, D, form, rows=None):
    from pybrops.popgen.bvmat.DenseGenomicEstimatedBreedingValueMatrix import DenseGenomicEstimatedBreedingValueMatrix
    if not isinstance(bv, DenseGenomicEstimatedBreedingValueMatrix):
        errs.append(("%s-type:%s" % (tag, kind), "%s(%s) returned %s" % (tag, form, type(bv).__name__)))
        return
    _cmp_mat(errs, "%s-value:%s:%s" % (tag, kind, form.split("_")[0]), "%s(%s) unscaled values" % (tag, form), bv.unscale(), exp, tol)
    rows = list(range(D["n"])) if rows is None else rows
    if form.startswith("raw"):
        etaxa, egrp = None, None
    else:
        etaxa = None if D["taxa"] is None else [D["taxa"][i] for i in rows]
        egrp = None if D["taxa_grp"] is None else [D["taxa_grp"][i] for i in rows]
    if not _labels_equal(bv.taxa, etaxa):
        errs.append(("%s-taxa-labels:%s" % (tag, kind), "%s(%s): taxa %r, input has %r" % (tag, form, bv.taxa, etaxa)))
    if not _labels_equal(bv.taxa_grp, egrp):
        errs.append(("%s-taxa_grp-labels:%s" % (tag, kind), "%s(%s): taxa_grp %r, input has %r" % (tag, form, bv.taxa_grp, egrp)))
    if not _labels_equal(bv.trait, D["trait"]):
        errs.append(("%s-trait-labels:%s" % (tag, kind), "%s(%s): trait %r, model has %r" % (tag, form, bv.trait, D["trait"])))


def _run_lin(case):
    import numpy
    errs = []
    D = _data(case)
    kind = case["kind"]
    n, p, t, q, pm, ploidy = D["n"], D["p"], D["t"], D["q"], D["pm"], D["ploidy"]
    model, forms = _objects(case, D)
    snap = _snap(model, forms)
    icpt = _intercept(D)
    add, amag = _additive(D)
    dom, dmag = _dominance(D) if kind == "dom" else ([[0.0] * t for _ in range(n)], 0.0)
    imag = max([abs(x) for x in icpt] + [sum(abs(D["beta"][k][tt]) for k in range(q)) for tt in range(t)] + [0.0])
    tol = 1e-10 * (1.0 + imag + amag + dmag)
    gebv = [[icpt[tt] + add[i][tt] for tt in range(t)] for i in range(n)]
    gegv = [[icpt[tt] + add[i][tt] + dom[i][tt] for tt in range(t)] for i in range(n)]

    # --- gebv / gegv on every input form, labels
    for form in _forms_for(case, D, "add"):
        _check_bvmat(errs, "gebv", kind, model.gebv(forms[form]), gebv, tol, D, form)
    for form in _forms_for(case, D, kind):
        _check_bvmat(errs, "gegv", kind, model.gegv(forms[form]), gegv, tol, D, form)
    # --- true breeding value protocol
    from pybrops.breed.prot.bv.TrueBreedingValue import TrueBreedingValue
    tbv = TrueBreedingValue(model)
    for form in ("phased", "raw_int8"):
        _check_bvmat(errs, "tbv-estimate", kind, tbv.estimate(None, forms[form]), gebv, tol, D, form)
    # --- numpy level
    A8, Ax = forms["raw_int8"], forms["raw_other"]
    for nm, A in (("int8", A8), (str(Ax.dtype), Ax)):
        _cmp_mat(errs, "gebv_numpy:%s" % kind, "gebv_numpy(%s dosage)" % nm, model.gebv_numpy(A), add, tol)
        if kind == "dom":
            Dm = numpy.array(D["het"], dtype=A.dtype).reshape(n, p)
            Z = numpy.concatenate([A, Dm], axis=1)
            exp = [[add[i][tt] + dom[i][tt] for tt in range(t)] for i in range(n)]
            _cmp_mat(errs, "gegv_numpy:%s" % kind, "gegv_numpy([A,D] %s)" % nm, model.gegv_numpy(Z), exp, tol)
        else:
            _cmp_mat(errs, "gegv_numpy:%s" % kind, "gegv_numpy(%s dosage)" % nm, model.gegv_numpy(A), add, tol)
    # --- predict_numpy with fixed and miscellaneous effects: Y = X beta + Z u
    X = numpy.array(D["X"], dtype="float64").reshape(n, q)
    fix = [[sum(D["X"][i][k] * D["beta"][k][tt] for k in range(q)) for tt in range(t)] for i in range(n)]
    fmag = max([sum(abs(D["X"][i][k] * D["beta"][k][tt]) for k in range(q)) for tt in range(t) for i in range(n)] + [0.0])
    misc = [[sum(D["Zmisc"][i][k] * D["u_misc"][k][tt] for k in range(pm)) for tt in range(t)] for i in range(n)]
    mmag = max([sum(abs(D["Zmisc"][i][k] * D["u_misc"][k][tt]) for k in range(pm)) for tt in range(t) for i in range(n)] + [0.0])
    ptol = 1e-10 * (1.0 + fmag + mmag + amag + dmag)
    pred = [[fix[i][tt] + misc[i][tt] + add[i][tt] + dom[i][tt] for tt in range(t)] for i in range(n)]
    Zm = numpy.array(D["Zmisc"], dtype="float64").reshape(n, pm)
    blocks = [Zm, Ax.astype("float64")]
    if kind == "dom":
        blocks.append(numpy.array(D["het"], dtype="float64").reshape(n, p))
    _cmp_mat(errs, "predict_numpy:%s" % kind, "predict_numpy(X,[Zmisc,A%s])" % (",D" if kind == "dom" else ""),
             model.predict_numpy(X, numpy.concatenate(blocks, axis=1)), pred, ptol)
    if pm == 0:
        for form in _forms_for(case, D, kind):
            _check_bvmat(errs, "predict", kind, model.predict(X, forms[form]), pred, ptol, D, form)
    # --- taxon permutation: every taxon keeps its value and its label
    perm = D["perm"]
    _, pforms = _objects(case, D, rows=perm)
    for form in ("phased", "unphased", "raw_int8"):
        _check_bvmat(errs, "perm-gebv", kind, model.gebv(pforms[form]), [gebv[i] for i in perm], tol, D, form, rows=perm)
    for form in [f for f in _forms_for(case, D, kind) if f != "raw_other"]:
        _check_bvmat(errs, "perm-gegv", kind, model.gegv(pforms[form]), [gegv[i] for i in perm], tol, D, form, rows=perm)
    # --- marker partition: values are the sum over the parts
    tot_b = numpy.zeros((n, t))
    tot_g = numpy.zeros((n, t))
    zero_beta = [[0.0] * t for _ in range(q)]
    for c, part in enumerate(D["parts"]):
        sub, sforms = _objects(case, D, cols=part, beta=D["beta"] if c == 0 else zero_beta)
        tot_b = tot_b + sub.gebv(sforms["phased" if c % 2 == 0 else "unphased"]).unscale()
        tot_g = tot_g + sub.gegv(sforms["unphased" if c % 2 == 0 else "phased"]).unscale()
    k = len(D["parts"])
    _cmp_mat(errs, "partition-gebv:%s" % kind, "sum of gebv over %d marker parts %r" % (k, D["parts"]), tot_b, gebv, tol * (k + 1))
    _cmp_mat(errs, "partition-gegv:%s" % kind, "sum of gegv over %d marker parts %r" % (k, D["parts"]), tot_g, gegv, tol * (k + 1))
    _check_snap(errs, snap, "input-mutated:predict:%s" % kind)
    return errs


# --------------------------------------------------------------------------
# ring 2: variances, Bulmer ratio, coefficient of determination
# --------------------------------------------------------------------------

def _run_stat(case):
    import numpy
    errs = []
    D = _data(case)
    kind = case["kind"]
    n, p, t, q, pm, ploidy = D["n"], D["p"], D["t"], D["q"], D["pm"], D["ploidy"]
    model, forms = _objects(case, D)
    snap = _snap(model, forms)
    add, amag = _additive(D)
    dom, dmag = _dominance(D) if kind == "dom" else ([[0.0] * t for _ in range(n)], 0.0)
    gv = [[add[i][tt] + dom[i][tt] for tt in range(t)] for i in range(n)]
    varA = _variance(add, n, t)
    varG = _variance(gv, n, t)
    d = ploidy * n
    freq = [D["cnt"][j] / d for j in range(p)]
    vara = [ploidy ** 2 * sum(D["u_a"][j][tt] ** 2 * freq[j] * (1.0 - freq[j]) for j in range(p)) for tt in range(t)]
    vtolA = 1e-10 * (1.0 + amag * amag)
    vtolG = 1e-10 * (1.0 + (amag + dmag) ** 2)
    vtola = 1e-10 * (1.0 + max(vara + [0.0]))
    recip = _recip_bad(d)
    bul, btol = [], []
    for tt in range(t):
        if vara[tt] == 0.0:
            bul.append(float("nan"))
            btol.append(0.0)
        else:
            bul.append(varA[tt] / vara[tt])
            btol.append(vtolA / vara[tt] + 1e-9 * abs(varA[tt] / vara[tt]))
    bcls = "bulmer-nan-reciprocal-rounding" if (recip and any(v == 0.0 for v in vara)) else "bulmer:%s" % kind

    def cmp_bulmer(what, got):
        got = numpy.asarray(got)
        if got.shape != (t,):
            errs.append((bcls, "%s: shape %s expected %s" % (what, got.shape, (t,))))
            return
        for tt in range(t):
            a = float(got[tt])
            if _isnan(bul[tt]):
                if not _isnan(a):
                    errs.append((bcls, "%s: trait %d is %r but the genic variance is exactly 0 (all markers with an effect are fixed), "
                                       "so the ratio is undefined (NaN)" % (what, tt, a)))
                    return
            elif _isnan(a) or abs(a - bul[tt]) > btol[tt]:
                errs.append((bcls, "%s: trait %d is %r, var_A/var_a = %r" % (what, tt, a, bul[tt])))
                return

    for form in _forms_for(case, D, "add"):
        f = forms[form]
        israw = form.startswith("raw")
        _cmp_mat(errs, "var_A:%s:%s" % (kind, form.split("_")[0]), "var_A(%s)" % form, model.var_A(f), varA, vtolA)
        if kind != "dom" or not israw or ploidy == 2:
            _cmp_mat(errs, "var_G:%s:%s" % (kind, form.split("_")[0]), "var_G(%s)" % form, model.var_G(f), varG, vtolG)
        if israw:
            _cmp_mat(errs, "var_a:%s:raw" % kind, "var_a(%s, ploidy=%d)" % (form, ploidy), model.var_a(f, ploidy=ploidy), vara, vtola)
            cmp_bulmer("bulmer(%s, ploidy=%d)" % (form, ploidy), model.bulmer(f, ploidy=ploidy))
            if ploidy == 2:    # documented default for raw arrays
                _cmp_mat(errs, "var_a:%s:raw-default-ploidy" % kind, "var_a(%s)" % form, model.var_a(f), vara, vtola)
                cmp_bulmer("bulmer(%s)" % form, model.bulmer(f))
        else:
            _cmp_mat(errs, "var_a:%s:%s" % (kind, form), "var_a(%s)" % form, model.var_a(f), vara, vtola)
            cmp_bulmer("bulmer(%s)" % form, model.bulmer(f))
    A = forms["raw_other"]
    _cmp_mat(errs, "var_A_numpy:%s" % kind, "var_A_numpy", model.var_A_numpy(A), varA, vtolA)
    if kind == "dom":
        Z = numpy.concatenate([A, numpy.array(D["het"], dtype=A.dtype).reshape(n, p)], axis=1)
        _cmp_mat(errs, "var_G_numpy:%s" % kind, "var_G_numpy([A,D])", model.var_G_numpy(Z), varG, vtolG)
    else:
        _cmp_mat(errs, "var_G_numpy:%s" % kind, "var_G_numpy", model.var_G_numpy(A), varG, vtolG)
    fr = numpy.array(freq, dtype="float64")
    _cmp_mat(errs, "var_a_numpy:%s" % kind, "var_a_numpy(p, %d)" % ploidy, model.var_a_numpy(fr, ploidy), vara, vtola)
    if not recip:
        cmp_bulmer("bulmer_numpy", model.bulmer_numpy(A, fr, ploidy))

    # --- R^2 = 1 - SSE/SST with Yhat = X beta + Z u
    X = numpy.array(D["X"], dtype="float64").reshape(n, q)
    Y = numpy.array(D["Y"], dtype="float64").reshape(n, t)
    yhat = [[sum(D["X"][i][k] * D["beta"][k][tt] for k in range(q)) + sum(D["Zmisc"][i][k] * D["u_misc"][k][tt] for k in range(pm))
             + gv[i][tt] for tt in range(t)] for i in range(n)]
    r2, r2tol, ok = [], [], n >= 2
    for tt in range(t):
        mu = sum(D["Y"][i][tt] for i in range(n)) / max(n, 1)
        sst = sum((D["Y"][i][tt] - mu) ** 2 for i in range(n))
        sse = sum((D["Y"][i][tt] - yhat[i][tt]) ** 2 for i in range(n))
        if sst < 1e-6:
            ok = False
            break
        r2.append(1.0 - sse / sst)
        r2tol.append(1e-9 * (1.0 + sse / sst))
    if ok:
        blocks = [numpy.array(D["Zmisc"], dtype="float64").reshape(n, pm), A.astype("float64")]
        if kind == "dom":
            blocks.append(numpy.array(D["het"], dtype="float64").reshape(n, p))
        got = numpy.asarray(model.score_numpy(Y, X, numpy.concatenate(blocks, axis=1)))
        tl = max(r2tol)
        _cmp_mat(errs, "score_numpy:%s" % kind, "score_numpy", got, r2, tl)
        if pm == 0:
            from pybrops.popgen.bvmat.DenseBreedingValueMatrix import DenseBreedingValueMatrix
            bvm = DenseBreedingValueMatrix.from_numpy(Y.copy())
            for form in _forms_for(case, D, kind):
                _cmp_mat(errs, "score:%s:%s" % (kind, form.split("_")[0]), "score(Y, X, %s)" % form, model.score(Y, X, forms[form]), r2, tl)
            _cmp_mat(errs, "score:%s:bvmat" % kind, "score(BreedingValueMatrix, X, phased)", model.score(bvm, X, forms["phased"]), r2, 10 * tl)
    _check_snap(errs, snap, "input-mutated:stat:%s" % kind)
    return errs


# --------------------------------------------------------------------------
# ring 3: favourable / deleterious / neutral allele summaries
# --------------------------------------------------------------------------

def _allele_oracle(D):
    p, t, d = D["p"], D["t"], D["ploidy"] * D["n"]
    fa = [[0] * t for _ in range(p)]
    da = [[0] * t for _ in range(p)]
    neu = [[False] * t for _ in range(p)]
    for j in range(p):
        for tt in range(t):
            u = D["u_a"][j][tt]
            c = D["cnt"][j]
            if u > 0.0:
                fa[j][tt], da[j][tt] = c, d - c
            elif u < 0.0:
                fa[j][tt], da[j][tt] = d - c, c
            else:
                neu[j][tt] = True
    return fa, da, neu


def _run_allele(case):
    import numpy
    errs = []
    D = _data(case)
    kind = case["kind"]
    p, t = D["p"], D["t"]
    d = D["ploidy"] * D["n"]
    model, forms = _objects(case, D)
    snap = _snap(model, forms)
    fa, da, neu = _allele_oracle(D)
    recip = _recip_bad(d)
    full = kind != "base"       # the base class has no *poly / neutral summaries
    has_zero = any(neu[j][tt] for j in range(p) for tt in range(t))
    zcls = "base-class-zero-effect-not-neutral" if (kind == "base" and has_zero) else None
    dts = case.get("dtypes", None)

    def ints(x):
        return [[int(v) for v in r] for r in x]

    for form in ("phased", "unphased"):
        g = forms[form]
        for pre, cnt in (("fa", fa), ("da", da)):
            tag = lambda nm: zcls or ("%s:%s:%s" % (nm, kind, form))
            got = getattr(model, pre + "count")(g)
            if not numpy.issubdtype(numpy.asarray(got).dtype, numpy.integer):
                errs.append((tag(pre + "count"), "%scount(%s) has dtype %s, expected an integer type" % (pre, form, numpy.asarray(got).dtype)))
            _cmp_mat(errs, tag(pre + "count"), "%scount(%s)" % (pre, form), got, ints(cnt), 0, exact=True)
            # frequency: tolerance in general, exact at 0 and 1
            got = numpy.asarray(getattr(model, pre + "freq")(g))
            exp = [[cnt[j][tt] / d for tt in range(t)] for j in range(p)]
            if _cmp_mat(errs, tag(pre + "freq"), "%sfreq(%s)" % (pre, form), got, exp, 1e-12):
                if got.dtype != numpy.dtype("float64"):
                    errs.append((tag(pre + "freq"), "%sfreq(%s) has dtype %s, expected float64" % (pre, form, got.dtype)))
                for j in range(p):
                    for tt in range(t):
                        if cnt[j][tt] in (0, d) and float(got[j, tt]) != float(cnt[j][tt] // d if d else 0):
                            c = "fafreq-reciprocal-rounding" if (recip and cnt[j][tt] == d and not zcls) else tag(pre + "freq-exact")
                            errs.append((c, "%sfreq(%s)[%d,%d] is %r for an allele with count %d of %d (must be exactly %d)"
                                         % (pre, form, j, tt, float(got[j, tt]), cnt[j][tt], d, cnt[j][tt] // d if d else 0)))
                            break
                    else:
                        continue
                    break
            flags = [("avail", [[cnt[j][tt] > 0 for tt in range(t)] for j in range(p)]),
                     ("fixed", [[cnt[j][tt] == d for tt in range(t)] for j in range(p)])]
            if full:
                flags.append(("poly", [[0 < cnt[j][tt] < d for tt in range(t)] for j in range(p)]))
            for nm, exp in flags:
                got = numpy.asarray(getattr(model, pre + nm)(g))
                if got.dtype != numpy.dtype(bool):
                    errs.append((tag(pre + nm), "%s%s(%s) has dtype %s, expected bool" % (pre, nm, form, got.dtype)))
                _cmp_mat(errs, tag(pre + nm), "%s%s(%s)" % (pre, nm, form), got, exp, 0, exact=True)
            if dts:
                ci, cf, cb = dts
                got = numpy.asarray(getattr(model, pre + "count")(g, dtype=ci))
                if got.dtype != numpy.dtype(ci):
                    errs.append((tag(pre + "count-dtype"), "%scount(%s, dtype=%s) has dtype %s" % (pre, form, ci, got.dtype)))
                _cmp_mat(errs, tag(pre + "count-dtype"), "%scount(%s, dtype=%s)" % (pre, form, ci), got, ints(cnt), 0, exact=True)
                got = numpy.asarray(getattr(model, pre + "freq")(g, dtype=cf))
                if got.dtype != numpy.dtype(cf):
                    errs.append((tag(pre + "freq-dtype"), "%sfreq(%s, dtype=%s) has dtype %s" % (pre, form, cf, got.dtype)))
                _cmp_mat(errs, tag(pre + "freq-dtype"), "%sfreq(%s, dtype=%s)" % (pre, form, cf), got,
                         [[cnt[j][tt] / d for tt in range(t)] for j in range(p)], 1e-6 if cf == "float32" else 1e-12)
                for nm, exp in flags:
                    got = numpy.asarray(getattr(model, pre + nm)(g, dtype=cb))
                    if got.dtype != numpy.dtype(cb):
                        errs.append((tag(pre + nm + "-dtype"), "%s%s(%s, dtype=%s) has dtype %s" % (pre, nm, form, cb, got.dtype)))
                    _cmp_mat(errs, tag(pre + nm + "-dtype"), "%s%s(%s, dtype=%s)" % (pre, nm, form, cb), got,
                             [[int(v) for v in r] for r in exp], 0, exact=True)
        if full:
            c = D["cnt"]
            nf = [[neu[j][tt] and (c[j] == 0 or c[j] == d) for tt in range(t)] for j in range(p)]
            npo = [[neu[j][tt] and (0 < c[j] < d) for tt in range(t)] for j in range(p)]
            for nm, exp in (("nafixed", nf), ("napoly", npo)):
                got = numpy.asarray(getattr(model, nm)(g))
                if got.dtype != numpy.dtype(bool):
                    errs.append(("%s:%s:%s" % (nm, kind, form), "%s(%s) has dtype %s, expected bool" % (nm, form, got.dtype)))
                _cmp_mat(errs, "%s:%s:%s" % (nm, kind, form), "%s(%s)" % (nm, form), got, exp, 0, exact=True)
                if dts:
                    got = numpy.asarray(getattr(model, nm)(g, dtype=dts[2]))
                    _cmp_mat(errs, "%s-dtype:%s:%s" % (nm, kind, form), "%s(%s, dtype=%s)" % (nm, form, dts[2]), got,
                             [[int(v) for v in r] for r in exp], 0, exact=True)
    _check_snap(errs, snap, "input-mutated:allele:%s" % kind)
    return errs


# --------------------------------------------------------------------------
# ring 4: rrBLUP fit
# --------------------------------------------------------------------------

def _rr_data(case):
    rnd = random.Random(case["seed"])
    n, pp, nm, t = case["n"], case["p_poly"], case["n_mono"], case["t"]
    p = pp + nm
    pos = list(range(p))
    rnd.shuffle(pos)
    mono = sorted(pos[:nm])
    Z = [[0] * p for _ in range(n)]
    for j in range(p):
        if j in mono:
            c = rnd.choice([0, 1, 2])
            for i in range(n):
                Z[i][j] = c
        else:
            while True:
                col = [rnd.choice([0, 1, 2]) if case.get("zmode", "rand") == "rand" else rnd.choice([0, 2]) for _ in range(n)]
                if len(set(col)) > 1:
                    break
            for i in range(n):
                Z[i][j] = col[i]
    ymode = case.get("ymode", "signal")
    Y = [[0.0] * t for _ in range(n)]
    for tt in range(t):
        mu = rnd.choice([0.0, 5.0, -20.0, 100.0])
        ut = [rnd.choice([0.0, 1.0, -1.0, 0.5, round(rnd.gauss(0, 1), 3)]) for _ in range(p)]
        sd = case.get("noise", 1.0)
        for i in range(n):
            if ymode == "const":
                Y[i][tt] = mu
            elif ymode == "noise":
                Y[i][tt] = round(mu + rnd.gauss(0, max(sd, 0.5)), 4)
            else:
                Y[i][tt] = round(mu + sum(Z[i][j] * ut[j] for j in range(p)) + rnd.gauss(0, sd), 4)
            if case.get("ydtype", "float64").startswith("int"):
                Y[i][tt] = float(int(round(Y[i][tt])))
    return dict(Z=Z, Y=Y, mono=mono, n=n, p=p, t=t,
                taxa=["L%02d" % i for i in range(n)], trait=["y%d" % k for k in range(t)] if case.get("trait", True) else None)


def _run_rr(case):
    import numpy, warnings
    from pybrops.model.gmod.rrBLUPModel0 import rrBLUPModel0, rrBLUP_ML0
    errs = []
    R = _rr_data(case)
    n, p, t, Zl, Yl, mono = R["n"], R["p"], R["t"], R["Z"], R["Y"], R["mono"]
    poly = [j for j in range(p) if j not in mono]
    Z = numpy.array(Zl, dtype=case.get("zdtype", "int8")).reshape(n, p)
    Y = numpy.array(Yl, dtype=case.get("ydtype", "float64")).reshape(n, t)
    trait = None if R["trait"] is None else numpy.array(R["trait"], dtype=object)
    Z0, Y0 = Z.copy(), Y.copy()
    Ytrain = Y
    with warnings.catch_warnings():
        warnings.simplefilter("ignore")
        if case.get("via", "numpy") == "numpy":
            model = rrBLUPModel0.fit_numpy(Y, None, Z, trait=trait)
        else:
            from pybrops.popgen.gmat.DenseGenotypeMatrix import DenseGenotypeMatrix
            from pybrops.popgen.bvmat.DenseBreedingValueMatrix import DenseBreedingValueMatrix
            g = DenseGenotypeMatrix(mat=Z.astype("int8"), taxa=numpy.array(R["taxa"], dtype=object), ploidy=2)
            if case["via"] == "bvmat":
                pt = DenseBreedingValueMatrix.from_numpy(Y.astype("float64"), taxa=numpy.array(R["taxa"], dtype=object), trait=trait)
                Ytrain = pt.unscale()       # the responses this training set holds (scale/unscale round trip)
                Yl = Ytrain.tolist()
            else:
                pt = Y
            model = rrBLUPModel0.fit(pt, None, g, trait=trait)
    # the training arrays exactly as the fit sees them (float64), for the fit's own variance components
    Yf = Ytrain if numpy.issubdtype(Ytrain.dtype, numpy.floating) else Ytrain.astype(float)
    Zf = Z.astype("int8").astype(float) if case.get("via", "numpy") != "numpy" else (Z if numpy.issubdtype(Z.dtype, numpy.floating) else Z.astype(float))
    pmask = numpy.array([j not in mono for j in range(p)], dtype=bool)
    if not isinstance(model, rrBLUPModel0):
        return [("rrblup-type", "fit returned %s" % type(model).__name__)]
    if not (numpy.array_equal(Z, Z0) and numpy.array_equal(Y, Y0)):
        errs.append(("rrblup-input-mutated", "training arrays were modified by fit"))
    beta, ua = numpy.asarray(model.beta), numpy.asarray(model.u_a)
    if beta.shape != (1, t) or ua.shape != (p, t) or model.u_misc.shape != (0, t):
        return errs + [("rrblup-shape", "beta %s u_a %s u_misc %s for n=%d p=%d t=%d" % (beta.shape, ua.shape, model.u_misc.shape, n, p, t))]
    if not _labels_equal(model.trait, R["trait"]):
        errs.append(("rrblup-trait-labels", "model.trait %r, given %r" % (model.trait, R["trait"])))
    for tt in range(t):
        y = [Yl[i][tt] for i in range(n)]
        mu = sum(y) / n
        ysc = max(abs(v) for v in y) + 1.0
        if abs(float(beta[0, tt]) - mu) > 1e-12 * ysc:
            errs.append(("rrblup-intercept", "trait %d: intercept %r, training mean %r" % (tt, float(beta[0, tt]), mu)))
        for j in mono:
            if float(ua[j, tt]) != 0.0 or _isnan(float(ua[j, tt])):
                errs.append(("rrblup-monomorphic-effect", "trait %d: monomorphic marker %d has effect %r" % (tt, j, float(ua[j, tt]))))
                break
        u = [float(ua[j, tt]) for j in poly]
        if any(_isnan(v) or math.isinf(v) for v in u):
            errs.append(("rrblup-nonfinite", "trait %d: non-finite marker effects %r" % (tt, u)))
            continue
        yc = [v - mu for v in y]
        # the model's own ridge parameter: error variance / marker variance of its ML fit
        with warnings.catch_warnings():
            warnings.simplefilter("ignore")
            o = rrBLUP_ML0(Yf[:, tt], Zf[:, pmask])
        ridge = float(o["varE"]) / float(o["varU"])
        if not (ridge > 0.0 and math.isfinite(ridge)):
            errs.append(("rrblup-ridge", "trait %d: ridge parameter %r" % (tt, ridge)))
            continue
        res = [yc[i] - sum(Zl[i][poly[a]] * u[a] for a in range(len(poly))) for i in range(n)]
        crit = sum(r * r for r in res) + ridge * sum(v * v for v in u)
        crit0 = sum(v * v for v in yc)
        if crit > crit0 * (1.0 + 1e-12) + 1e-300:
            errs.append(("rrblup-criterion-worse-than-zero", "trait %d: penalised criterion %r at the fitted effects, %r at zero (ridge %r)"
                         % (tt, crit, crit0, ridge)))
        # normal equations (Z'Z + ridge I) u = Z'yc
        k = len(poly)
        Amat = [[sum(Zl[i][poly[a]] * Zl[i][poly[b]] for i in range(n)) + (ridge if a == b else 0.0) for b in range(k)] for a in range(k)]
        b = [sum(Zl[i][poly[a]] * yc[i] for i in range(n)) for a in range(k)]
        r = [sum(Amat[a][c] * u[c] for c in range(k)) - b[a] for a in range(k)]
        nr, nb = math.sqrt(sum(v * v for v in r)), math.sqrt(sum(v * v for v in b))
        if n > k:
            bad = (nr > 1e-5 * nb) if nb > 1e-9 else (nr > 1e-7)
            if bad:
                An, bn = numpy.array(Amat, dtype="float64").reshape(k, k), numpy.array(b, dtype="float64")
                cond = float(numpy.linalg.cond(An))
                # input class of the failure: the system is badly conditioned AND the library's own Gauss-Seidel
                # iteration is still moving when it reaches its default cap of 1000 sweeps
                from pybrops.model.gmod.rrBLUPModel0 import gauss_seidel
                capped = not numpy.array_equal(gauss_seidel(An, bn, 1e-8, 1000), gauss_seidel(An, bn, 1e-8, 1001))
                cls = "rrblup-gauss-seidel-unconverged" if (cond > 300.0 and capped) else "rrblup-normal-equations"
                errs.append((cls, "trait %d: ||(Z'Z+ridge I)u - Z'y|| = %.3g, ||Z'y|| = %.3g (relative %.3g > 1e-5); ridge %.4g, "
                                  "cond(Z'Z+ridge I) = %.4g, n=%d, polymorphic markers=%d" % (tt, nr, nb, nr / nb if nb else float("inf"), ridge, cond, n, k)))
        # the fitted object predicts with its own parameters
    add = [[float(beta[0, tt]) + sum(Zl[i][j] * float(ua[j, tt]) for j in range(p)) for tt in range(t)] for i in range(n)]
    mg = max([abs(v) for r in add for v in r] + [1.0])
    _cmp_mat(errs, "rrblup-gebv", "gebv(training genotypes) of the fitted model", model.gebv(Z).unscale(), add, 1e-9 * mg * (p + 1))
    return errs


# --------------------------------------------------------------------------
# dispatch, generators, units
# --------------------------------------------------------------------------

_RUN = {"lin": _run_lin, "stat": _run_stat, "allele": _run_allele, "rr": _run_rr}


def _run(case):
    import warnings
    with warnings.catch_warnings():
        warnings.simplefilter("ignore")
        return _RUN[case["ring"]](case)


def run_case(case):
    """Execute one case on the real code; (violated, message)."""
    errs = _run(case)
    if errs:
        return True, "; ".join("[%s] %s" % e for e in errs[:4])
    return False, "ok"


def _replay(case):
    try:
        return run_case(case)
    except Exception as e:
        return True, "exception %s: %s" % (type(e).__name__, e)


def _drive(ctx, cases, nontrivial, sample):
    """run cases; keep going after a failure whose cls was already seen (cap 3 per cls)"""
    per_cls = {}
    for case in cases:
        try:
            errs = _run(case)
        except Exception as e:
            import traceback
            tb = traceback.extract_tb(e.__traceback__)
            where = "%s:%d" % (tb[-1].filename.split("/")[-1], tb[-1].lineno) if tb else "?"
            errs = [("exception:%s:%s" % (case["ring"], case.get("kind", "rr")), "exception %s: %s at %s" % (type(e).__name__, e, where))]
        ctx.case(key=repr(sorted(case.items(), key=str)), nontrivial=nontrivial(case), sample=sample(case))
        seen = set()
        for cls, msg in errs:
            if cls in seen:
                continue
            seen.add(cls)
            per_cls[cls] = per_cls.get(cls, 0) + 1
            if per_cls[cls] <= 3:
                ctx.fail_input("ring:%s:%s" % (case["ring"], cls), case, cls=cls, message=msg)
        if len(per_cls) >= 6 or len(ctx.failures) >= 12:
            break


_SIZES = [(1, 1), (1, 3), (2, 1), (2, 2), (3, 2), (3, 4), (4, 3), (5, 5), (6, 2), (7, 0), (2, 0), (9, 6), (12, 4)]
_BIG = [(128, 2), (130, 3), (200, 1), (300, 2)]
_LABELS = ["both", "both", "taxa", "grp", "none", "dups"]


def _pick_ploidy(rnd):
    return rnd.choice([2, 2, 2, 1, 4, 3, 6])


def _gen_model_cases(rnd, tier, ring, n_quick, n_thorough, kinds=("add", "dom", "rr"), recip_share=0.0):
    N = n_quick if tier == "quick" else n_thorough
    out = []
    for c in range(N):
        kind = kinds[c % len(kinds)]
        ploidy = _pick_ploidy(rnd)
        if rnd.random() < (0.03 if tier == "quick" else 0.05):
            n, p = rnd.choice(_BIG)
        else:
            n, p = rnd.choice(_SIZES)
        if rnd.random() < 0.15:
            n, p = rnd.randint(1, 14), rnd.randint(0, 7)
        case = dict(ring=ring, kind=kind, ploidy=ploidy, n=n, p=p, t=rnd.choice([1, 1, 2, 3]), q=rnd.choice([1, 1, 1, 2, 3]),
                    pm=rnd.choice([0, 0, 0, 1, 2]), seed=rnd.randrange(10 ** 9),
                    eff=rnd.choice(["mixed", "mixed", "mixed", "nonzero", "allzero", "allpos", "allneg"]),
                    gmodes=rnd.choice(["mix", "mix", "mix", "rand", "fixed", "het", "allone"]),
                    labels=rnd.choice(_LABELS), trait=rnd.random() < 0.8,
                    rawdtype=rnd.choice(["float64", "int64", "int16", "int32"]))
        if kind == "dom":
            case["ud"] = rnd.choice(["mixed", "mixed", "nonzero", "none", "allzero"])
        if ring == "allele":
            case["pm"], case["q"] = 0, 1
            if rnd.random() < 0.35:
                case["dtypes"] = rnd.choice([["int64", "float64", "int8"], ["int32", "float32", "int64"], ["int16", "float64", "bool"]])
        # keep the reciprocal-rounding input class (ploidy*n with (1/d)*d != 1) in its own branch
        while _recip_bad(case["ploidy"] * case["n"]):
            case["n"] += 1
        out.append(case)
    return out


def _gen_recip_cases(rnd, ring, kinds=("add", "dom")):
    """own branch: ploidy*n in {49, 98, 103, 107, 161}: float reciprocal does not multiply back to 1"""
    out = []
    for (ploidy, n) in [(1, 49), (2, 49), (1, 98), (1, 103), (1, 107), (1, 161)]:
        for gm in ("allone", "fixed"):
            out.append(dict(ring=ring, kind=kinds[len(out) % len(kinds)], ploidy=ploidy, n=n, p=2, t=2, q=1, pm=0,
                            seed=rnd.randrange(10 ** 9), eff="nonzero", gmodes=gm, labels="taxa", trait=True, rawdtype="float64"))
    return out


def _nontrivial_model(case):
    return case["n"] >= 1 and case["p"] >= 1 and case.get("eff") != "allzero"


def _sample_model(case):
    return {k: case[k] for k in ("kind", "ploidy", "n", "p", "t", "q", "pm", "eff", "gmodes", "labels") if k in case}


LIN = "ring[GEBV/GEGV/predict: linear, label-preserving, permutation and partition invariant]"
STAT = "ring[variances, Bulmer ratio, R2 equal their definitions]"
ALLELE = "ring[favourable/deleterious/neutral allele counts, frequencies and flags]"
ALLELE_X = "ring[allele summaries, exhaustive small scope]"
RR = "ring[rrBLUP fit: intercept, monomorphic zeros, criterion, normal equations]"
BASE = "ring[DenseLinearGenomicModel base class through a concrete stub]"


@unit(P, LIN, "R", bounded=True,
      note="bounded: seeded random cases (quick 1400 / thorough 25000), taxa 1..14 and 128..300, markers 0..7, traits 1..3, "
           "fixed effects 1..3, misc effects 0..2, ploidy 1,2,3,4,6; additive, dominance and rrBLUP model classes")
def u_ring_lin(ctx):
    ctx.rule = ("seeded random models (effects of both signs, exact +0.0/-0.0, several traits, q fixed effects) and genotypes "
                "(random, fixed, all-heterozygous, singleton markers) as phased matrix, unphased projection, int8 and other-dtype "
                "raw dosage arrays; oracle = intercept + dosage*effects (+ heterozygosity*dominance effects) by python loops; "
                "taxon permutation, marker partition into 1..3 parts, labels with duplicates/absent; distinct by full case; "
                "non-trivial if n>=1, p>=1 and some effect non-zero")
    cases = _gen_model_cases(ctx.rng, ctx.tier, "lin", 1400, 25000)
    _drive(ctx, cases, _nontrivial_model, _sample_model)


@unit(P, STAT, "R", bounded=True,
      note="bounded: seeded random cases (quick 2400 / thorough 40000) of the same family as the prediction ring, plus 12 cases "
           "with ploidy*n in {49,98,103,107,161} (reciprocal-rounding class)")
def u_ring_stat(ctx):
    ctx.rule = ("var_A, var_G, var_a, bulmer, score and their *_numpy forms against loop definitions (population variance of "
                "GEBV/GEGV over taxa, ploidy^2 sum u^2 p(1-p), ratio with NaN at zero genic variance, 1-SSE/SST) on phased, "
                "unphased and raw inputs; fixed-marker populations included so that zero genic variance occurs; distinct by full case")
    cases = _gen_model_cases(ctx.rng, ctx.tier, "stat", 2400, 40000) + _gen_recip_cases(ctx.rng, "stat")
    _drive(ctx, cases, _nontrivial_model, _sample_model)


@unit(P, ALLELE, "R", bounded=True,
      note="bounded: seeded random cases (quick 2400 / thorough 40000), taxa 1..14 and 128..300 (int8 column sums > 127), "
           "markers 0..7, traits 1..3, ploidy 1,2,3,4,6; plus 12 cases with ploidy*n in {49,98,103,107,161}")
def u_ring_allele(ctx):
    ctx.rule = ("facount/fafreq/faavail/fafixed/fapoly, da*, nafixed/napoly on phased and unphased matrices against definitions "
                "by loops over raw genotypes; counts and flags exact, frequencies to 1e-12 and exactly 0/1 for absent/fixed alleles; "
                "default and explicit dtypes; distinct by full case")
    cases = _gen_model_cases(ctx.rng, ctx.tier, "allele", 2400, 40000) + _gen_recip_cases(ctx.rng, "allele")
    _drive(ctx, cases, _nontrivial_model, _sample_model)


def _gen_exhaustive(tier):
    """all diploid genotype tables for (n,p) in {(1,1),(2,1),(1,2)} (thorough adds (3,1),(2,2)) x effects in {-1,0,+1}^(p*t), t=1;
    plus t=2 with all sign pairs for (2,1)"""
    import itertools
    shapes = [(1, 1, 1), (2, 1, 1), (1, 2, 1), (2, 1, 2)]
    if tier == "thorough":
        shapes += [(3, 1, 1), (2, 2, 1)]
    for (n, p, t) in shapes:
        for bits in itertools.product((0, 1), repeat=2 * n * p):
            geno = [[[bits[(m * n + i) * p + j] for j in range(p)] for i in range(n)] for m in range(2)]
            for eff in itertools.product((-1.0, 0.0, 1.0), repeat=p * t):
                ua = [[eff[j * t + tt] for tt in range(t)] for j in range(p)]
                for kind in ("add", "dom"):
                    yield dict(ring="allele", kind=kind, ploidy=2, n=n, p=p, t=t, q=1, pm=0, seed=1, geno=geno, u_a=ua,
                               labels="none", trait=False, ud="none" if kind == "dom" else "mixed")


@unit(P, ALLELE_X, "R", bounded=True,
      note="bounded: exhaustive diploid genotype tables for (taxa,markers,traits) in {(1,1,1),(2,1,1),(1,2,1),(2,1,2)} "
           "(thorough adds (3,1,1),(2,2,1)) times all effect sign patterns in {-1,0,+1}")
def u_ring_allele_x(ctx):
    ctx.rule = "exhaustive enumeration of phased diploid genotype tables and effect sign patterns (explicit data in the case)"
    ctx.exhaustive = True
    _drive(ctx, _gen_exhaustive(ctx.tier), lambda c: True,
           lambda c: dict(n=c["n"], p=c["p"], t=c["t"], geno=c["geno"], u_a=c["u_a"]))


def _gen_rr(rnd, tier):
    N = 420 if tier == "quick" else 7000
    out = []
    for c in range(N):
        r = rnd.random()
        if r < 0.06:       # own branch: n > p but nearly square with many markers and little noise -> Z'Z badly conditioned
            pp = rnd.randint(7, 10)
            n = pp + rnd.randint(1, 2)
            out.append(dict(ring="rr", n=n, p_poly=pp, n_mono=rnd.choice([0, 1]), t=1, seed=rnd.randrange(10 ** 9), noise=0.3,
                            ymode="signal", zmode="rand", zdtype="int8", ydtype="float64", via="numpy", trait=True))
            continue
        if r < 0.75:       # well determined n > p
            pp = rnd.randint(1, 6)
            n = pp + rnd.randint(1, 8)
        elif r < 0.9:      # under-determined or square: criterion / intercept / monomorphic clauses only
            n = rnd.randint(2, 7)
            pp = n + rnd.randint(0, 3)
        else:
            pp = 1
            n = rnd.randint(2, 12)
        out.append(dict(ring="rr", n=n, p_poly=pp, n_mono=rnd.choice([0, 0, 1, 2, 3]), t=rnd.choice([1, 1, 2, 3]),
                        seed=rnd.randrange(10 ** 9), noise=rnd.choice([0.3, 1.0, 1.0, 3.0]),
                        ymode=rnd.choice(["signal"] * 6 + ["noise", "const"]), zmode=rnd.choice(["rand", "rand", "rand", "homo"]),
                        zdtype=rnd.choice(["int8", "int8", "float64", "int64"]), ydtype=rnd.choice(["float64", "float64", "float64", "int64"]),
                        via=rnd.choice(["numpy", "numpy", "gmat", "bvmat"]), trait=rnd.random() < 0.7))
    return out


@unit(P, RR, "R", bounded=True,
      note="bounded: seeded random training sets (quick 420 / thorough 7000): records 2..14, polymorphic markers 1..10, "
           "monomorphic markers 0..3, traits 1..3, responses = mean + marker signal + noise (sd .3..3), constant and pure-noise "
           "responses; fit_numpy and fit (genotype matrix / breeding value matrix)")
def u_ring_rr(ctx):
    ctx.rule = ("intercept == training mean (1e-12 relative), monomorphic markers exactly 0, penalised criterion at fitted effects "
                "<= criterion at zero with the fit's own ridge varE/varU, and for n > polymorphic markers the relative residual of "
                "(Z'Z + ridge I)u = Z'(y-mean) <= 1e-5; a failure is classed as Gauss-Seidel non-convergence only if "
                "cond(Z'Z+ridge I) > 300 and the library's iteration is still moving at its 1000-sweep cap; distinct by full case")
    _drive(ctx, _gen_rr(ctx.rng, ctx.tier), lambda c: c["ymode"] != "const",
           lambda c: {k: c[k] for k in ("n", "p_poly", "n_mono", "t", "noise", "ymode", "via")})


def _gen_base(rnd, tier):
    N = 900 if tier == "quick" else 15000
    out = []
    for ring in ("lin", "stat", "allele"):
        cs = _gen_model_cases(rnd, tier, ring, N // 3, N // 3, kinds=("base",))
        for c in cs:
            c["pm"] = 0
            # zero effects are their own input class for the base class (kept, separate cls)
            if c["ring"] == "allele":
                c["eff"] = rnd.choice(["nonzero", "nonzero", "allpos", "allneg", "mixed"])
            c["trait"] = True
        out += cs
    return out


def _run_base_lin(case):
    """base class: gebv/predict/TrueBreedingValue only (no gegv, no misc/dominance blocks)"""
    import numpy
    errs = []
    D = _data(case)
    n, p, t, q = D["n"], D["p"], D["t"], D["q"]
    model, forms = _objects(case, D)
    snap = _snap(model, forms)
    icpt = _intercept(D)
    add, amag = _additive(D)
    imag = max([sum(abs(D["beta"][k][tt]) for k in range(q)) for tt in range(t)] + [0.0])
    tol = 1e-10 * (1.0 + imag + amag)
    gebv = [[icpt[tt] + add[i][tt] for tt in range(t)] for i in range(n)]
    for form in ("phased", "unphased", "raw_int8", "raw_other"):
        _check_bvmat(errs, "gebv", "base", model.gebv(forms[form]), gebv, tol, D, form)
    _cmp_mat(errs, "gebv_numpy:base", "gebv_numpy", model.gebv_numpy(forms["raw_int8"]), add, tol)
    X = numpy.array(D["X"], dtype="float64").reshape(n, q)
    fix = [[sum(D["X"][i][k] * D["beta"][k][tt] for k in range(q)) for tt in range(t)] for i in range(n)]
    fmag = max([sum(abs(D["X"][i][k] * D["beta"][k][tt]) for k in range(q)) for tt in range(t) for i in range(n)] + [0.0])
    pred = [[fix[i][tt] + add[i][tt] for tt in range(t)] for i in range(n)]
    ptol = 1e-10 * (1.0 + fmag + amag)
    _cmp_mat(errs, "predict_numpy:base", "predict_numpy", model.predict_numpy(X, forms["raw_other"]), pred, ptol)
    for form in ("phased", "unphased", "raw_int8"):
        _check_bvmat(errs, "predict", "base", model.predict(X, forms[form]), pred, ptol, D, form)
    perm = D["perm"]
    _, pforms = _objects(case, D, rows=perm)
    for form in ("phased", "unphased"):
        _check_bvmat(errs, "perm-gebv", "base", model.gebv(pforms[form]), [gebv[i] for i in perm], tol, D, form, rows=perm)
    _check_snap(errs, snap, "input-mutated:predict:base")
    return errs


def _run_lin_dispatch(case):
    return _run_base_lin(case) if case["kind"] == "base" else _run_lin(case)


_RUN["lin"] = _run_lin_dispatch


@unit(P, BASE, "R", bounded=True,
      note="bounded: seeded random cases (quick 900 / thorough 15000) over the prediction, statistics and allele clauses for the "
           "abstract DenseLinearGenomicModel instantiated through a subclass that overrides nothing (abstract guard lifted)")
def u_ring_base(ctx):
    ctx.rule = ("same generators and loop oracles as the other rings with u as the only effect block; zero effects in the allele "
                "clause form their own input class (cls base-class-zero-effect-not-neutral); distinct by full case")
    _drive(ctx, _gen_base(ctx.rng, ctx.tier), _nontrivial_model, lambda c: dict(ring=c["ring"], **_sample_model(c)))


REPLAYERS = {LIN: _replay, STAT: _replay, ALLELE: _replay, ALLELE_X: _replay, RR: _replay, BASE: _replay}
