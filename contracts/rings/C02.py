"""C02 -- native bounded rings (mode R).

Property C02: realised recombination and segregation match the crossover
probabilities.

How "convergence over generator streams" is checked WITHOUT sampling statistics
-------------------------------------------------------------------------------
A meiosis consumes uniform draws on [0,1).  The unit interval is cut at the
stored crossover probabilities into cells [t_k, t_k+1); inside one cell every
comparison of a draw with any stored probability has the same outcome, so the
real code must behave identically for every draw of a cell.  A scripted
generator (pyvc.ring.ScriptedRandomState) feeds the real code one
representative per cell (lowest float of the cell, a midpoint, the highest
float of the cell, or a seeded mixture) for EVERY combination of cells of every
draw the call consumes.  Summing the exact cell masses (fractions.Fraction of
the float thresholds) of all combinations that produce one outcome gives the
EXACT outcome distribution of the real code under independent uniform draws --
the limit that the observed proportions converge to.  That distribution is
compared, exactly, with the distribution written down from the property
statement:

    * the copy transmitted at a chromosome start is 0/1 with probability 1/2
      (statement: probability one half at every chromosome start),
    * between marker j-1 and j the copy changes with probability xoprob[j],
    * changes in different intervals are independent,
    * different meioses are independent,

composed along the documented pedigree of each mating protocol.  Derived
clauses of the statement (per-locus transmission 1/2, independent assortment of
chromosome starts, Haldane map function of the summed distance for non-adjacent
markers) are additionally evaluated on the distribution of the REAL code.

Nothing here copies library formulae: laws are built by explicit loops over
copy-indicator vectors; map functions are recomputed with math.expm1/tanh.
"""
import itertools
import math
import random
from fractions import Fraction

import numpy

from pyvc.unit import unit

P = "C02"
HALF = Fraction(1, 2)
ONE = Fraction(1)
ZERO = Fraction(0)

KERNELS = {
    "mat_meiosis": ("pybrops.breed.prot.mate.util", "mat_meiosis", False),
    "dense_meiosis": ("pybrops.core.util.mate", "dense_meiosis", False),
    "mat_dh": ("pybrops.breed.prot.mate.util", "mat_dh", True),
    "dense_dh": ("pybrops.core.util.mate", "dense_dh", True),
}
PAIR_KERNELS = {
    "mat_mate": ("pybrops.breed.prot.mate.util", "mat_mate"),
    "dense_cross": ("pybrops.core.util.mate", "dense_cross"),
}
# name -> (module, number of parents, is doubled haploid)
PROTOCOLS = {
    "SelfCross": ("pybrops.breed.prot.mate.SelfCross", 1, False),
    "TwoWayCross": ("pybrops.breed.prot.mate.TwoWayCross", 2, False),
    "TwoWayDHCross": ("pybrops.breed.prot.mate.TwoWayDHCross", 2, True),
    "ThreeWayCross": ("pybrops.breed.prot.mate.ThreeWayCross", 3, False),
    "ThreeWayDHCross": ("pybrops.breed.prot.mate.ThreeWayDHCross", 3, True),
    "FourWayCross": ("pybrops.breed.prot.mate.FourWayCross", 4, False),
    "FourWayDHCross": ("pybrops.breed.prot.mate.FourWayDHCross", 4, True),
}


def _imp(mod, name):
    import importlib
    return getattr(importlib.import_module(mod), name)


# ---------------------------------------------------------------------------
# cells of the unit interval and exhaustive weighted enumeration of scripts
def cells_of(thresholds):
    """cells [a,b) of [0,1) cut at the given probabilities; each with its exact
    mass and three representatives (lowest float, midpoint, highest float)"""
    T = {ZERO, ONE}
    for x in thresholds:
        fx = Fraction(float(x))
        if ZERO < fx < ONE:
            T.add(fx)
    T = sorted(T)
    out = []
    for a, b in zip(T[:-1], T[1:]):
        lo = float(a)
        hi = float(numpy.nextafter(float(b), 0.0))
        mid = float((a + b) / 2)
        if not (a <= Fraction(mid) < b):
            mid = lo
        if not (a <= Fraction(hi) < b):
            hi = lo
        assert a <= Fraction(lo) < b
        out.append(dict(mass=b - a, lo=lo, mid=mid, hi=hi))
    return out


def enum_scripts(cell_lists):
    """all combinations of one cell per draw, with the exact product mass
    (odometer with prefix products).  Yields (list of cell indices, mass); the
    list object is reused between iterations."""
    n = len(cell_lists)
    if n == 0:
        yield [], ONE
        return
    idx = [0] * n
    pref = [ONE] * (n + 1)
    for i in range(n):
        pref[i + 1] = pref[i] * cell_lists[i][0]["mass"]
    last = [len(c) - 1 for c in cell_lists]
    while True:
        yield idx, pref[n]
        i = n - 1
        while i >= 0 and idx[i] == last[i]:
            idx[i] = 0
            i -= 1
        if i < 0:
            return
        idx[i] += 1
        for k in range(i, n):
            pref[k + 1] = pref[k] * cell_lists[k][idx[k]]["mass"]


def n_scripts(cell_lists):
    n = 1
    for c in cell_lists:
        n *= len(c)
    return n


def rep_table(cell_lists, rep, seed):
    """representative float for (draw, cell): rep in lo|mid|hi|mix (mix: seeded
    choice per (draw, cell))"""
    r = random.Random(seed)
    tab = []
    for cl in cell_lists:
        row = []
        for c in cl:
            kind = rep if rep != "mix" else r.choice(("lo", "mid", "hi"))
            row.append(c[kind])
        tab.append(row)
    return tab


# ---------------------------------------------------------------------------
# the distribution written down from the statement
def spec_c_law(x):
    """copy-indicator vector c in {0,1}^p of one gamete: c[0] is 0/1 with
    probability 1/2 each (needs x[0] == 1/2, the chromosome-start convention);
    c[j] != c[j-1] with probability x[j], independently over j"""
    p = len(x)
    law = {}
    for c in itertools.product((0, 1), repeat=p):
        w = ONE
        for j in range(p):
            if j == 0:
                w *= HALF
            elif c[j] != c[j - 1]:
                w *= x[j]
            else:
                w *= ONE - x[j]
        if w != 0:
            law[c] = w
    return law


def spec_d_law(x):
    """crossover-indicator vector d[j-1] = [copy changes between j-1 and j],
    j = 1..p-1: independent Bernoulli(x[j])"""
    p = len(x)
    law = {}
    for d in itertools.product((0, 1), repeat=max(p - 1, 0)):
        w = ONE
        for j in range(1, p):
            w *= x[j] if d[j - 1] else ONE - x[j]
        if w != 0:
            law[d] = w
    return law


def c_to_d(c):
    return tuple(1 if c[j] != c[j - 1] else 0 for j in range(1, len(c)))


def push(law, f):
    out = {}
    for k, w in law.items():
        kk = f(k)
        out[kk] = out.get(kk, ZERO) + w
    return out


def law_diff(real, spec):
    """None if equal, else a short description of the first difference"""
    keys = sorted(set(real) | set(spec), key=repr)
    for k in keys:
        a, b = real.get(k, ZERO), spec.get(k, ZERO)
        if a != b:
            return "outcome %r has probability %s (=%.6g) in the real code, %s (=%.6g) by the statement" % (
                k, a, float(a), b, float(b))
    return None


# pedigree algebra on laws of individuals (h0, h1); a haplotype is a tuple of codes
def gamete_law_of(ind, claw):
    out = {}
    for c, w in claw.items():
        g = tuple(ind[c[j]][j] for j in range(len(c)))
        out[g] = out.get(g, ZERO) + w
    return out


def gamete_law(ind_law, claw):
    out = {}
    for ind, wi in ind_law.items():
        for g, wg in gamete_law_of(ind, claw).items():
            out[g] = out.get(g, ZERO) + wi * wg
    return out


def cross(law_a, law_b, claw):
    """(gamete of A, gamete of B); A and B independent individuals"""
    ga, gb = gamete_law(law_a, claw), gamete_law(law_b, claw)
    out = {}
    for a, wa in ga.items():
        for b, wb in gb.items():
            out[(a, b)] = out.get((a, b), ZERO) + wa * wb
    return out


def selfing(law, claw):
    """two independent gametes of the SAME individual"""
    out = {}
    for ind, wi in law.items():
        g = gamete_law_of(ind, claw)
        for a, wa in g.items():
            for b, wb in g.items():
                out[(a, b)] = out.get((a, b), ZERO) + wi * wa * wb
    return out


def doubled(law, claw):
    out = {}
    for g, w in gamete_law(law, claw).items():
        out[(g, g)] = out.get((g, g), ZERO) + w
    return out


def unordered(ind):
    return tuple(sorted(ind))


def founder(i, p):
    return (tuple([2 * i] * p), tuple([2 * i + 1] * p))


def n_meioses(proto, nm, npg, nself):
    """gametes formed by one cross of the documented pedigree"""
    if proto in ("SelfCross", "TwoWayCross"):
        return nm * npg * (2 + 2 * nself)
    if proto == "TwoWayDHCross":
        return nm * (2 + 2 * nself) + nm * npg
    if proto == "ThreeWayCross":
        return nm * 2 + nm * npg * (2 + 2 * nself)
    if proto == "ThreeWayDHCross":
        return nm * (2 + 2 + 2 * nself) + nm * npg
    if proto == "FourWayCross":
        return nm * 4 + nm * npg * (2 + 2 * nself)
    if proto == "FourWayDHCross":
        return nm * (4 + 2 + 2 * nself) + nm * npg
    raise KeyError(proto)


def spec_progeny_law(proto, row, p, claw, nself, nm, npg):
    """law of the sorted tuple of unordered progeny genotypes of ONE cross
    (documented pedigrees; nm*npg > 1 only for the two-way protocols)"""
    F = lambda i: {founder(i, p): ONE}
    is_dh = PROTOCOLS[proto][2]
    if proto == "SelfCross":
        line = selfing(F(row[0]), claw)
    elif proto in ("TwoWayCross", "TwoWayDHCross"):
        line = cross(F(row[0]), F(row[1]), claw)
    elif proto in ("ThreeWayCross", "ThreeWayDHCross"):      # recurrent, female, male
        line = cross(F(row[0]), cross(F(row[1]), F(row[2]), claw), claw)
    else:                                                    # female2, male2, female1, male1
        line = cross(cross(F(row[2]), F(row[3]), claw), cross(F(row[0]), F(row[1]), claw), claw)
    for _ in range(nself):
        line = selfing(line, claw)
    if nm * npg == 1:
        final = doubled(line, claw) if is_dh else line
        return push(final, lambda ind: (unordered(ind),))
    if proto == "TwoWayCross":
        per_mating = push(line, lambda ind: (unordered(ind),))
        count = nm * npg
    elif proto == "TwoWayDHCross":
        # one line per mating; npg doubled haploids of that same line
        per_mating = {}
        for ind, wi in line.items():
            g = gamete_law_of(ind, claw)
            combos = {(): ONE}
            for _ in range(npg):
                nxt = {}
                for tup, wt in combos.items():
                    for h, wh in g.items():
                        key = tup + ((h, h),)
                        nxt[key] = nxt.get(key, ZERO) + wt * wh
                combos = nxt
            for tup, wt in combos.items():
                per_mating[tup] = per_mating.get(tup, ZERO) + wi * wt
        count = nm
    else:
        raise ValueError("joint law of several progeny is specified for the two-way protocols only")
    joint = {(): ONE}
    for _ in range(count):
        nxt = {}
        for tup, wt in joint.items():
            for t2, w2 in per_mating.items():
                nxt[tup + t2] = nxt.get(tup + t2, ZERO) + wt * w2
        joint = nxt
    return push(joint, lambda tup: tuple(sorted(tup)))


# ---------------------------------------------------------------------------
# A1: single-draw-block kernels, all cell combinations as rows of ONE call
def derived_clauses(law, x, starts):
    """clauses of the statement evaluated on the law of the REAL code (law over c)"""
    p = len(x)
    for j in range(1, p):
        r = sum((w for c, w in law.items() if c[j] != c[j - 1]), ZERO)
        if r != x[j]:
            return "adjacent markers %d,%d recombine with probability %s, stored xoprob is %s" % (j - 1, j, r, x[j])
    if starts and all(x[s] == HALF for s in starts) and starts[0] == 0:
        for j in range(p):
            m = sum((w for c, w in law.items() if c[j] == 1), ZERO)
            if m != HALF:
                return "locus %d transmits copy 1 with probability %s, not 1/2" % (j, m)
        for bits in itertools.product((0, 1), repeat=len(starts)):
            m = sum((w for c, w in law.items() if all(c[s] == b for s, b in zip(starts, bits))), ZERO)
            if m != Fraction(1, 2 ** len(starts)):
                return "chromosome starts %s carry copies %s with probability %s, not 2^-%d (no independent assortment)" % (
                    starts, bits, m, len(starts))
    return None


def run_kernel_case(case):
    from pyvc import ring
    mod, name, is_dh = KERNELS[case["fn"]]
    fn = _imp(mod, name)
    xf = [float(v) for v in case["xoprob"]]
    x = [Fraction(v) for v in xf]
    if case.get("clamp"):
        # entries a rounding error below 0 (assigned from a map): a uniform draw on [0,1) is never below them
        x = [max(v, ZERO) for v in x]
    p = len(xf)
    t = case["t"]
    selgrp = list(case["sel"])
    cells = cells_of(xf)
    cl = [cells] * p
    rr = random.Random(case["seed"])
    rows, pattern, sel = [], [], []
    for idx, w in enum_scripts(cl):
        for g, s in enumerate(selgrp):
            rows.append((g, w))
            sel.append(s)
            for j in range(p):
                kind = case["rep"] if case["rep"] != "mix" else rr.choice(("lo", "mid", "hi"))
                pattern.append(cells[idx[j]][kind])
    n = len(rows)
    geno = numpy.empty((2, t, p), dtype="int8")
    for m in range(2):
        for tx in range(t):
            geno[m, tx, :] = 2 * tx + m
    xo = numpy.array(xf, dtype=float)
    g0, x0 = geno.copy(), xo.copy()
    rng = ring.ScriptedRandomState(pattern if pattern else [0.5])
    out = fn(geno, numpy.array(sel, dtype=int), xo, rng)
    if n * p > 0 and rng.pos != n * p:
        return True, "draw-count", "%d uniform draws consumed for %d gametes x %d markers" % (rng.pos, n, p)
    if is_dh:
        if out.shape != (2, n, p):
            return True, "shape", "shape %s != %s" % (out.shape, (2, n, p))
        if not numpy.array_equal(out[0], out[1]):
            return True, "dh-copies-differ", "doubled haploid copies differ"
        out = out[0]
    if out.shape != (n, p):
        return True, "shape", "shape %s != %s" % (out.shape, (n, p))
    if not (numpy.array_equal(geno, g0) and numpy.array_equal(xo, x0)):
        return True, "input-modified", "geno or xoprob was modified"
    laws = [dict() for _ in selgrp]
    for r, (g, w) in enumerate(rows):
        c = []
        for j in range(p):
            code = int(out[r, j])
            if code // 2 != selgrp[g] or code < 0:
                return True, "foreign-allele", "gamete %d locus %d carries code %d, parent is %d" % (r, j, code, selgrp[g])
            c.append(code % 2)
        c = tuple(c)
        laws[g][c] = laws[g].get(c, ZERO) + w
    sd = spec_d_law(x)
    sc = spec_c_law(x) if (p > 0 and x[0] == HALF) else None
    for g, law in enumerate(laws):
        tot = sum(law.values(), ZERO)
        if tot != ONE:
            return True, "mass", "total probability %s" % tot
        d = law_diff(push(law, c_to_d), sd)
        if d:
            return True, "xo-law", "crossover indicators of parent slot %d: %s" % (g, d)
        if sc is not None:
            d = law_diff(law, sc)
            if d:
                return True, "copy-law", "copy indicators of parent slot %d: %s" % (g, d)
        d = derived_clauses(law, x, case.get("starts") or [])
        if d:
            return True, "derived", d
    return False, "", "ok"


# ---------------------------------------------------------------------------
# A2: two-block kernels (mat_mate, dense_cross): every draw of the call enumerated,
# one call per combination (no assumption on which draw feeds which gamete)
def run_pair_case(case):
    from pyvc import ring
    fn = _imp(*PAIR_KERNELS[case["fn"]])
    xf = [float(v) for v in case["xoprob"]]
    x = [Fraction(v) for v in xf]
    p = len(xf)
    nrow = case["nrow"]
    t = 2
    OFF = 64
    fgeno = numpy.empty((2, t, p), dtype="int8")
    mgeno = numpy.empty((2, t, p), dtype="int8")
    for m in range(2):
        for tx in range(t):
            fgeno[m, tx, :] = 2 * tx + m
            mgeno[m, tx, :] = OFF + 2 * tx + m
    fsel = numpy.array([1, 0][:nrow], dtype=int)
    msel = numpy.array([0, 0][:nrow], dtype=int)
    xo = numpy.array(xf, dtype=float)
    ndraws = 2 * nrow * p
    cells = cells_of(xf)
    cl = [cells] * ndraws
    tab = rep_table(cl, case["rep"], case["seed"])
    rng = ring.ScriptedRandomState([0.5])
    law = {}
    full = p > 0 and x[0] == HALF
    for idx, w in enum_scripts(cl):
        rng.pattern = numpy.array([tab[i][k] for i, k in enumerate(idx)] or [0.5], dtype=float)
        rng.pos = 0
        rng.log = []
        out = fn(fgeno, mgeno, fsel, msel, xo, rng)
        if ndraws and rng.pos != ndraws:
            return True, "draw-count", "%d uniform draws consumed for %d gametes x %d markers" % (rng.pos, 2 * nrow, p)
        if out.shape != (2, nrow, p):
            return True, "shape", "shape %s" % (out.shape,)
        oc = []
        for r in range(nrow):
            fem = mal = None
            for side in (0, 1):
                codes = [int(v) for v in out[side, r, :]]
                f_lo, m_lo = 2 * int(fsel[r]), OFF + 2 * int(msel[r])
                if p == 0:
                    fem = mal = ()
                elif fem is None and all(f_lo <= v <= f_lo + 1 for v in codes):
                    fem = tuple(v - f_lo for v in codes)
                elif mal is None and all(m_lo <= v <= m_lo + 1 for v in codes):
                    mal = tuple(v - m_lo for v in codes)
                else:
                    return True, "foreign-allele", "progeny %d copy %d = %s is not a gamete of its own parent" % (r, side, codes)
            if not full:
                fem, mal = c_to_d(fem), c_to_d(mal)
            oc.append((fem, mal))
        oc = tuple(oc)
        law[oc] = law.get(oc, ZERO) + w
    one = spec_c_law(x) if full else spec_d_law(x)
    spec = {(): ONE}
    for r in range(nrow):
        nxt = {}
        for tup, wt in spec.items():
            for a, wa in one.items():
                for b, wb in one.items():
                    nxt[tup + ((a, b),)] = wt * wa * wb
        spec = nxt
    d = law_diff(law, spec)
    if d:
        return True, "pair-law", "joint law of (female gamete, male gamete) x %d progeny (%s indicators): %s" % (
            nrow, "copy" if full else "crossover", d)
    return False, "", "ok"


# ---------------------------------------------------------------------------
# B: the real mate() methods
def build_founders(n, p, xf, chrgrp):
    from pyvc import ring
    return ring.coded_founders(n, p, xf, chrgrp)


def run_proto_case(case):
    from pyvc import ring
    proto = case["proto"]
    mod, nparent, is_dh = PROTOCOLS[proto]
    cls = _imp(mod, proto)
    xf = [float(v) for v in case["xoprob"]]
    x = [Fraction(v) for v in xf]
    p = len(xf)
    row = list(case["row"])
    nself, nm, npg = case["nself"], case["nm"], case["npg"]
    pg = build_founders(case["n"], p, xf, case.get("chrgrp"))
    xconfig = numpy.array([row], dtype=int)
    M = n_meioses(proto, nm, npg, nself)
    ndraws = M * p
    if case["part"] == "marker":
        per = [cells_of([v]) for v in xf]
        cl = [per[i % p] for i in range(ndraws)]
    else:
        cells = cells_of(xf)
        cl = [cells] * ndraws
    tab = rep_table(cl, case["rep"], case["seed"])
    rng = ring.ScriptedRandomState([0.5])
    obj = cls(progeny_counter=0, family_counter=0, rng=rng)
    law = {}
    for idx, w in enum_scripts(cl):
        rng.pattern = numpy.array([tab[i][k] for i, k in enumerate(idx)] or [0.5], dtype=float)
        rng.pos = 0
        rng.log = []
        out = cls.mate(obj, pg, xconfig, nm, npg, nself=nself)
        if rng.pos != ndraws:
            return True, "draw-count", "%d uniform draws consumed; the pedigree forms %d gametes x %d markers" % (rng.pos, M, p)
        for rec in rng.log:
            size = rec[3]
            if not (isinstance(size, tuple) and len(size) == 2 and size[1] == p):
                return True, "draw-shape", "uniform called with size %r" % (size,)
        mat = out.mat
        if mat.shape != (2, nm * npg, p):
            return True, "shape", "progeny matrix shape %s" % (mat.shape,)
        oc = tuple(sorted(unordered((tuple(int(v) for v in mat[0, k]), tuple(int(v) for v in mat[1, k])))
                          for k in range(nm * npg)))
        law[oc] = law.get(oc, ZERO) + w
    claw = spec_c_law(x)
    spec = spec_progeny_law(proto, row, p, claw, nself, nm, npg)
    d = law_diff(law, spec)
    if d:
        return True, "progeny-law", "%s row %s nself=%d nm=%d npg=%d: %s" % (proto, row, nself, nm, npg, d)
    return False, "", "ok"


# ---------------------------------------------------------------------------
# C: interp_xoprob
def lin_interp(knots, q):
    """piecewise linear map through sorted knots [(pos, gen)], end segments extended"""
    if q <= knots[0][0]:
        (x0, y0), (x1, y1) = knots[0], knots[1]
    elif q >= knots[-1][0]:
        (x0, y0), (x1, y1) = knots[-2], knots[-1]
    else:
        for k in range(len(knots) - 1):
            if knots[k][0] <= q <= knots[k + 1][0]:
                (x0, y0), (x1, y1) = knots[k], knots[k + 1]
                break
    return y0 + (y1 - y0) * (q - x0) / (x1 - x0)


def mapfn_spec(fnname, d):
    if d == math.inf:
        return 0.5
    if fnname == "Haldane":
        return -math.expm1(-2.0 * d) / 2.0
    return math.tanh(2.0 * d) / 2.0


def run_interp_case(case):
    from pyvc import ring
    import warnings
    if case["matcls"] == "DenseGeneticMappableMatrix":
        # the anchored base class itself must at least be constructible (variant axis is axis 0 for this class)
        cls = _imp("pybrops.popgen.gmap.DenseGeneticMappableMatrix", "DenseGeneticMappableMatrix")
        try:
            cls(mat=numpy.zeros((3, 2), dtype="int8"), vrnt_chrgrp=numpy.array([1, 1, 2]), vrnt_phypos=numpy.array([1, 2, 3]))
        except Exception as e:
            return True, "dgmm-ctor-mask-pow-kwargs", "DenseGeneticMappableMatrix(mat, vrnt_chrgrp, vrnt_phypos) raises %s: %s" % (
                type(e).__name__, e)
        return False, "", "ok"
    units = case["units"]
    scale = 100.0 if units in ("cM", "centiMorgans") else 1.0
    knots = [tuple(k) for k in case["knots"]]           # (chr, phypos, genpos in Morgans)
    markers = [tuple(m) for m in case["markers"]]       # (chr, phypos)
    order = list(range(len(knots)))
    random.Random(case["seed"]).shuffle(order)
    kc = numpy.array([knots[i][0] for i in order], dtype=int)
    kp = numpy.array([knots[i][1] for i in order], dtype=int)
    kg = numpy.array([knots[i][2] * scale for i in order], dtype=float)
    if case["mapcls"] == "Standard":
        gmap = _imp("pybrops.popgen.gmap.StandardGeneticMap", "StandardGeneticMap")(kc, kp, kg, vrnt_genpos_units=units,
                                                                                     auto_group=bool(case.get("auto_group", True)))
    else:
        gmap = _imp("pybrops.popgen.gmap.ExtendedGeneticMap", "ExtendedGeneticMap")(kc, kp, kp.copy(), kg, vrnt_genpos_units=units,
                                                                                     auto_group=bool(case.get("auto_group", True)))
    fn = _imp("pybrops.popgen.gmap.%sMapFunction" % case["mapfn"], "%sMapFunction" % case["mapfn"])()
    p = len(markers)
    mc = numpy.array([m[0] for m in markers], dtype=int)
    mp = numpy.array([m[1] for m in markers], dtype=int)
    names = numpy.array(["m%d" % i for i in range(p)], dtype=object)
    if case["matcls"] == "DensePhasedGenotypeMatrix":
        M = _imp("pybrops.popgen.gmat.DensePhasedGenotypeMatrix", "DensePhasedGenotypeMatrix")
        mat = M(mat=numpy.zeros((2, 2, p), dtype="int8"), vrnt_chrgrp=mc, vrnt_phypos=mp, vrnt_name=names)
    else:
        M = _imp("pybrops.popgen.gmat.DenseGenotypeMatrix", "DenseGenotypeMatrix")
        mat = M(mat=numpy.zeros((2, p), dtype="int8"), vrnt_chrgrp=mc, vrnt_phypos=mp, vrnt_name=names)
    mat.group_vrnt()
    with warnings.catch_warnings():
        warnings.simplefilter("ignore")
        mat.interp_xoprob(gmap, fn)
    xo, gp = mat.vrnt_xoprob, mat.vrnt_genpos
    if xo is None or gp is None or xo.shape != (p,) or gp.shape != (p,):
        return True, "interp-shape", "vrnt_xoprob/vrnt_genpos missing or wrong shape"
    srt = sorted(markers)
    if [int(v) for v in mat.vrnt_chrgrp] != [m[0] for m in srt] or [int(v) for v in mat.vrnt_phypos] != [m[1] for m in srt]:
        return True, "interp-order", "markers are not in (chromosome, position) order after grouping"
    per_chr = {}
    for c, ph, g in sorted(knots):
        per_chr.setdefault(c, []).append((ph, g))
    for j, (c, ph) in enumerate(srt):
        eg = lin_interp(per_chr[c], ph)
        if not abs(float(gp[j]) - eg) <= 1e-12:
            return True, "interp-genpos", "marker %d (chr %d pos %d): genetic position %r, map gives %r" % (j, c, ph, float(gp[j]), eg)
        if j == 0 or srt[j - 1][0] != c:
            if float(xo[j]) != 0.5:
                return True, "interp-start-not-half", "marker %d starts chromosome %d but xoprob is %r, not exactly 0.5" % (j, c, float(xo[j]))
        else:
            d = float(gp[j]) - float(gp[j - 1])
            e = mapfn_spec(case["mapfn"], d)
            v = float(xo[j])
            if d == 0.0 and v != 0.0:
                return True, "interp-xoprob", "marker %d at distance 0 from the previous marker has xoprob %r" % (j, v)
            if not abs(v - e) <= 1e-12 or not (-1e-12 <= v <= 0.5):
                return True, "interp-xoprob", "marker %d: xoprob %r, %s map function of the distance %r to the previous marker is %r" % (
                    j, v, case["mapfn"], d, e)
    # the assigned vector driven through the real kernel: pairwise recombination
    if p <= 4 and p >= 1:
        xf = [float(v) for v in xo]
        law_case = dict(fn="mat_meiosis", xoprob=xf, rep=case.get("rep", "lo"), seed=case["seed"], t=2, sel=[1], clamp=True,
                        starts=[j for j in range(p) if j == 0 or srt[j - 1][0] != srt[j][0]])
        bad, cls, msg = run_kernel_case(law_case)
        if bad:
            return True, "interp-then-" + cls, "with the assigned xoprob %s: %s" % (xf, msg)
        law = kernel_c_law(law_case)
        for a in range(p):
            for b in range(a + 1, p):
                r = sum((w for c, w in law.items() if c[a] != c[b]), ZERO)
                if srt[a][0] != srt[b][0]:
                    if r != HALF:
                        return True, "assort", "markers %d,%d on different chromosomes recombine with probability %s" % (a, b, r)
                elif case["mapfn"] == "Haldane":
                    e = mapfn_spec("Haldane", float(gp[b]) - float(gp[a]))
                    if not abs(float(r) - e) <= 1e-12:
                        return True, "haldane-pairwise", "markers %d,%d at distance %r recombine with probability %r, Haldane gives %r" % (
                            a, b, float(gp[b]) - float(gp[a]), float(r), e)
    return False, "", "ok"


def kernel_c_law(case):
    """exact law of c for ONE parent through the real mat_meiosis (helper of C)"""
    from pyvc import ring
    fn = _imp(*KERNELS[case["fn"]][:2])
    xf = case["xoprob"]
    p = len(xf)
    cells = cells_of(xf)
    ws, pattern = [], []
    for idx, w in enum_scripts([cells] * p):
        ws.append(w)
        pattern.extend(cells[k][case["rep"] if case["rep"] != "mix" else "mid"] for k in idx)
    geno = numpy.empty((2, 1, p), dtype="int8")
    geno[0], geno[1] = 0, 1
    out = fn(geno, numpy.zeros(len(ws), dtype=int), numpy.array(xf, dtype=float), ring.ScriptedRandomState(pattern or [0.5]))
    law = {}
    for r, w in enumerate(ws):
        c = tuple(int(v) for v in out[r])
        law[c] = law.get(c, ZERO) + w
    return law


# ---------------------------------------------------------------------------
# D: map functions
def run_mapfn_case(case):
    H = _imp("pybrops.popgen.gmap.HaldaneMapFunction", "HaldaneMapFunction")()
    K = _imp("pybrops.popgen.gmap.KosambiMapFunction", "KosambiMapFunction")()
    kind = case["kind2"]
    if kind == "compose":
        a, b = float(case["a"]), float(case["b"])
        arr = H.mapfn(numpy.array([a, b, a + b], dtype=float))
        ra, rb, rab = (float(v) for v in arr)
        sa, sb, sab = (float(H.mapfn(numpy.float64(v))) for v in (a, b, a + b))
        if (ra, rb, rab) != (sa, sb, sab):
            return True, "mapfn-scalar-array", "Haldane mapfn differs between scalar and array argument at %r" % ((a, b),)
        comp = ra * (1.0 - rb) + (1.0 - ra) * rb
        if not abs(rab - comp) <= 1e-12:
            return True, "haldane-compose", "r(%r+%r)=%r but r(a)(1-r(b))+(1-r(a))r(b)=%r" % (a, b, rab, comp)
        for d, r in ((a, ra), (b, rb), (a + b, rab)):
            if not abs(r - mapfn_spec("Haldane", d)) <= 1e-12 or not (0.0 <= r <= 0.5):
                return True, "haldane-value", "Haldane r(%r)=%r, (1-exp(-2d))/2=%r" % (d, r, mapfn_spec("Haldane", d))
            k = float(K.mapfn(numpy.array([d]))[0])
            if not abs(k - mapfn_spec("Kosambi", d)) <= 1e-12 or not (0.0 <= k <= 0.5):
                return True, "kosambi-value", "Kosambi r(%r)=%r, tanh(2d)/2=%r" % (d, k, mapfn_spec("Kosambi", d))
        if a <= b and not (ra <= rb <= rab):
            return True, "haldane-monotone", "Haldane not monotone at %r <= %r <= %r" % (a, b, a + b)
        return False, "", "ok"
    if kind == "limits":
        for nm, F in (("Haldane", H), ("Kosambi", K)):
            v = F.mapfn(numpy.array([0.0, numpy.inf]))
            if float(v[0]) != 0.0 or float(v[1]) != 0.5:
                return True, "mapfn-limits", "%s r(0)=%r r(inf)=%r (need exactly 0 and 0.5)" % (nm, float(v[0]), float(v[1]))
        return False, "", "ok"
    if kind == "pairwise":
        # rprob1g / rprob2g on one layout: sequential probabilities compose to the pairwise ones
        G = _imp("pybrops.popgen.gmap.StandardGeneticMap", "StandardGeneticMap")
        chrgrp = numpy.array(case["chrgrp"], dtype=int)
        genpos = numpy.array(case["genpos"], dtype=float)
        gmap = G(numpy.array([1, 1]), numpy.array([1, 2]), numpy.array([0.0, 1.0]))
        n = len(chrgrp)
        for nm, F in (("Haldane", H), ("Kosambi", K)):
            r1 = F.rprob1g(gmap, chrgrp, genpos)
            r2 = F.rprob2g(gmap, chrgrp, genpos)
            if r1.shape != (n,) or r2.shape != (n, n):
                return True, "rprob-shape", "%s rprob1g/rprob2g shapes %s %s" % (nm, r1.shape, r2.shape)
            for j in range(n):
                start = j == 0 or chrgrp[j] != chrgrp[j - 1]
                if start:
                    if float(r1[j]) != 0.5:
                        return True, "rprob1g-start-not-half", "%s rprob1g[%d]=%r at a chromosome start" % (nm, j, float(r1[j]))
                else:
                    e = mapfn_spec(nm, float(genpos[j]) - float(genpos[j - 1]))
                    if not abs(float(r1[j]) - e) <= 1e-12:
                        return True, "rprob1g-value", "%s rprob1g[%d]=%r, map function of the distance gives %r" % (nm, j, float(r1[j]), e)
            for a in range(n):
                for b in range(n):
                    if chrgrp[a] != chrgrp[b]:
                        if float(r2[a, b]) != 0.5:
                            return True, "rprob2g-unlinked", "%s rprob2g[%d,%d]=%r across chromosomes" % (nm, a, b, float(r2[a, b]))
                        continue
                    lo, hi = min(a, b), max(a, b)
                    if nm == "Haldane":
                        comp = 0.0            # independent crossovers in the intervals lo+1..hi compose
                        for j in range(lo + 1, hi + 1):
                            rj = float(r1[j])
                            comp = comp * (1.0 - rj) + (1.0 - comp) * rj
                        if not abs(float(r2[a, b]) - comp) <= 1e-12:
                            return True, "haldane-pairwise", "rprob2g[%d,%d]=%r, composing the sequential probabilities gives %r" % (
                                a, b, float(r2[a, b]), comp)
                    e = mapfn_spec(nm, abs(float(genpos[a]) - float(genpos[b])))
                    if not abs(float(r2[a, b]) - e) <= 1e-12:
                        return True, "rprob2g-value", "%s rprob2g[%d,%d]=%r, map function gives %r" % (nm, a, b, float(r2[a, b]), e)
        return False, "", "ok"
    raise KeyError(kind)


# ---------------------------------------------------------------------------
# E: DenseExpectedMaximumBreedingValueMatrix.from_gmod (dense_dh on the global generator)
def run_embv_case(case):
    from pyvc import ring
    EM = __import__("importlib").import_module("pybrops.model.embvmat.DenseExpectedMaximumBreedingValueMatrix")
    GM = _imp("pybrops.model.gmod.DenseAdditiveLinearGenomicModel", "DenseAdditiveLinearGenomicModel")
    PG = _imp("pybrops.popgen.gmat.DensePhasedGenotypeMatrix", "DensePhasedGenotypeMatrix")
    xf = [float(v) for v in case["xoprob"]]
    x = [Fraction(v) for v in xf]
    p = len(xf)
    npg = case["npg"]
    # taxon 0: copy 0 all-0, copy 1 all-1 (heterozygous everywhere); taxa 1,2 homozygous references
    mat = numpy.zeros((2, 3, p), dtype="int8")
    mat[1, 0, :] = 1
    mat[:, 2, :] = 1
    pg = PG(mat=mat, taxa=numpy.array(["het", "ref0", "ref1"], dtype=object), taxa_grp=numpy.array([0, 1, 2]),
            vrnt_chrgrp=numpy.ones(p, dtype=int), vrnt_phypos=numpy.arange(1, p + 1), vrnt_xoprob=numpy.array(xf, dtype=float),
            vrnt_name=numpy.array(["m%d" % i for i in range(p)], dtype=object))
    pg.group_vrnt()
    u = numpy.array([[float(2 ** j)] for j in range(p)], dtype=float)
    gm = GM(beta=numpy.array([[0.0]]), u_misc=None, u_a=u, trait=numpy.array(["t"], dtype=object))
    ndraws = 3 * npg * p
    per = [cells_of([v]) for v in xf] if case["part"] == "marker" else [cells_of(xf)] * p
    cl = [per[i % p] for i in range(ndraws)]
    tab = rep_table(cl, case["rep"], case["seed"])
    rng = ring.ScriptedRandomState([0.5])
    old = EM.global_prng
    law = {}
    EM.global_prng = rng
    try:
        for idx, w in enum_scripts(cl):
            rng.pattern = numpy.array([tab[i][k] for i, k in enumerate(idx)], dtype=float)
            rng.pos = 0
            rng.log = []
            out = EM.DenseExpectedMaximumBreedingValueMatrix.from_gmod(gm, pg, npg, 1)
            if rng.pos != ndraws:
                return True, "draw-count", "%d uniform draws for 3 taxa x %d doubled haploids x %d markers" % (rng.pos, npg, p)
            raw = out.unscale()                      # values are even integers up to the rounding of scale/unscale
            v = float(round(float(raw[0, 0])))
            r0, r1 = float(raw[1, 0]), float(raw[2, 0])
            if abs(r0) > 1e-9 or abs(r1 - 2.0 * (2 ** p - 1)) > 1e-9 or abs(v - float(raw[0, 0])) > 1e-9:
                return True, "embv-reference", "EMBVs %r, homozygous references %r, %r are not the expected integers" % (
                    float(raw[0, 0]), r0, r1)
            law[v] = law.get(v, ZERO) + w
    finally:
        EM.global_prng = old
    claw = spec_c_law(x)
    val = lambda c: 2.0 * sum(2 ** j for j in range(p) if c[j])
    spec = {}
    combos = {(): ONE}
    for _ in range(npg):
        nxt = {}
        for tup, wt in combos.items():
            for c, wc in claw.items():
                nxt[tup + (c,)] = wt * wc
        combos = nxt
    for tup, w in combos.items():
        v = max(val(c) for c in tup)
        spec[v] = spec.get(v, ZERO) + w
    d = law_diff(law, spec)
    if d:
        return True, "embv-dh-law", "breeding value of the best of %d doubled haploids of the heterozygous taxon: %s" % (npg, d)
    return False, "", "ok"


# ---------------------------------------------------------------------------
RUNNERS = {"kernel": run_kernel_case, "pair": run_pair_case, "proto": run_proto_case,
           "interp": run_interp_case, "mapfn": run_mapfn_case, "embv": run_embv_case}


def run_case3(case):
    try:
        return RUNNERS[case["kind"]](case)
    except Exception as e:
        import traceback
        tb = traceback.format_exc().strip().splitlines()
        return True, "exception:%s" % type(e).__name__, "exception %s: %s [%s]" % (type(e).__name__, e, " | ".join(tb[-4:-1]))


def run_case(case):
    bad, cls, msg = run_case3(case)
    return bad, msg


def _drive(ctx, cases, label, sample_keys):
    seen = {}
    for case in cases:
        bad, cls, msg = run_case3(case)
        ctx.case(key=repr(sorted(case.items(), key=str)), nontrivial=case.get("nontrivial", True),
                 sample={k: case[k] for k in sample_keys if k in case})
        if bad:
            fcls = "%s:%s" % (label(case), cls)
            seen[fcls] = seen.get(fcls, 0) + 1
            if seen[fcls] <= 3:
                ctx.fail_input("ring:%s" % fcls, case, cls=fcls, message=msg)
            if len(seen) >= 6:
                break


REPS = ("lo", "mid", "hi", "mix")


# ---- A1 generator
def gen_kernel_cases(rnd, tier, fns):
    vals = [0.0, 0.25, 0.5, 1.0] if tier == "quick" else [0.0, 0.1, 0.25, 0.5, 0.75, 1.0]
    k = 0
    for p in range(0, 5):
        for xo in itertools.product(vals, repeat=p):
            starts = [j for j in range(p) if xo[j] == 0.5]
            for fn in fns:
                reps = REPS if (tier == "thorough" and p <= 3) else (REPS[k % 4], "lo") if REPS[k % 4] != "lo" else ("lo",)
                for rep in reps:
                    k += 1
                    yield dict(kind="kernel", fn=fn, xoprob=list(xo), rep=rep, seed=k, t=3, sel=[2, 0],
                               starts=starts if (starts and starts[0] == 0) else [], nontrivial=p > 0)
    # irregular probabilities (53-bit fractions, denormal, next-below-one, duplicates)
    extra = 150 if tier == "quick" else 4000
    odd = [5e-324, 1.0 - 2.0 ** -53, 2.0 ** -53, 0.5 - 2.0 ** -54, 0.5 + 2.0 ** -53, 1.0 / 3.0, 0.1, 0.3]
    for c in range(extra):
        p = rnd.choice([1, 2, 3, 4, 4])
        xo = []
        for j in range(p):
            u = rnd.random()
            xo.append(0.5 if (j == 0 and u < 0.6) else rnd.choice(odd) if u < 0.3 else rnd.random() if u < 0.8 else rnd.choice([0.0, 0.5, 1.0]))
        if rnd.random() < 0.2 and p >= 2:
            xo[-1] = xo[-2]
        starts = [j for j in range(p) if xo[j] == 0.5]
        yield dict(kind="kernel", fn=rnd.choice(fns), xoprob=xo, rep=rnd.choice(REPS), seed=rnd.randrange(10 ** 6), t=2,
                   sel=rnd.choice([[0], [1, 0], [1, 1]]), starts=starts if (starts and starts[0] == 0) else [])


def _kernel_unit(fns):
    def body(ctx):
        ctx.rule = ("every xoprob vector over the value grid for p=0..4 (plus seeded irregular vectors), every combination of "
                    "threshold cells of the p draws as one row of a single call with scripted draws (lowest/mid/highest float of "
                    "each cell), two parent slots; exact Fraction law of the copy pattern vs. the statement; distinct by "
                    "(function, xoprob, representative kind)")
        _drive(ctx, gen_kernel_cases(ctx.rng, ctx.tier, fns), lambda c: "kernel", ("fn", "xoprob", "rep", "sel"))
    return body


U_K1 = "ring[exact gamete law: mat_meiosis, mat_dh]"
U_K2 = "ring[exact gamete law: dense_meiosis, dense_dh]"
unit(P, U_K1, "R", bounded=True,
     note="bounded: p<=4 markers, xoprob grid {0,.25,.5,1} (thorough {0,.1,.25,.5,.75,1}) exhaustively + 150/4000 seeded irregular "
          "vectors, all <=5^4 threshold patterns per vector, exact fractions")(_kernel_unit(["mat_meiosis", "mat_dh"]))
unit(P, U_K2, "R", bounded=True,
     note="bounded: p<=4 markers, xoprob grid {0,.25,.5,1} (thorough {0,.1,.25,.5,.75,1}) exhaustively + 150/4000 seeded irregular "
          "vectors, all <=5^4 threshold patterns per vector, exact fractions")(_kernel_unit(["dense_meiosis", "dense_dh"]))


# ---- A2 generator
def gen_pair_cases(rnd, tier):
    cap = 7000 if tier == "quick" else 70000
    budget = 200000 if tier == "quick" else 3000000
    vals = [0.0, 0.25, 0.5, 1.0]
    cands = []
    for nrow in (1, 2):
        for p in range(0, 5):
            vecs = list(itertools.product(vals, repeat=p))
            if tier == "thorough" and p <= 2:
                vecs = list(itertools.product([0.0, 0.1, 0.25, 0.5, 0.75, 1.0], repeat=p))
            for xo in vecs:
                cands.append((nrow, list(xo)))
    for c in range(40 if tier == "quick" else 400):
        p = rnd.choice([1, 2, 3])
        cands.append((rnd.choice([1, 1, 2]), [0.5 if (j == 0 and rnd.random() < 0.6) else rnd.choice([rnd.random(), 0.1, 0.3, 0.5])
                                           for j in range(p)]))
    small = [c for c in cands if len(cells_of(c[1])) ** (2 * c[0] * len(c[1])) <= 100]
    big = [c for c in cands if 100 < len(cells_of(c[1])) ** (2 * c[0] * len(c[1])) <= cap]
    rnd.shuffle(big)
    k = 0
    for nrow, xo in small + big:
        for fn in ("mat_mate", "dense_cross"):
            cost = len(cells_of(xo)) ** (2 * nrow * len(xo))
            if cost > budget:
                continue
            budget -= cost
            k += 1
            yield dict(kind="pair", fn=fn, xoprob=xo, nrow=nrow, rep=REPS[k % 4], seed=k, nontrivial=len(xo) > 0)


U_PAIR = "ring[exact law of gamete pairs: mat_mate, dense_cross]"


@unit(P, U_PAIR, "R", bounded=True,
      note="bounded: 1-2 progeny, p<=4, xoprob grid {0,.25,.5,1} (+seeded irregular), every combination of threshold cells of ALL "
           "2*n*p draws of a call (<=7000/70000 calls per case, total budget 2e5/3e6 calls)")
def u_ring_pair(ctx):
    ctx.rule = ("one real call per combination of threshold cells of every draw the call consumes (no assumption on which draw "
                "feeds which gamete); exact joint law of (female gamete, male gamete) per progeny vs. product of the statement's "
                "gamete laws; distinct by (function, xoprob, rows, representative kind)")
    _drive(ctx, gen_pair_cases(ctx.rng, ctx.tier), lambda c: "pair", ("fn", "xoprob", "nrow", "rep"))


# ---- B generator
def proto_cost(proto, xo, nself, nm, npg, part):
    p = len(xo)
    M = n_meioses(proto, nm, npg, nself)
    if part == "marker":
        per = 1
        for v in xo:
            per *= len(cells_of([v]))
        return per ** M
    return len(cells_of(xo)) ** (M * p)


def gen_proto_cases(rnd, tier, proto, multi=False):
    nparent = PROTOCOLS[proto][1]
    cap = 20000 if tier == "quick" else 300000
    budget = 50000 if tier == "quick" else 700000
    vecs = [([0.5], None), ([0.5, 0.25], None), ([0.5, 0.0], None), ([0.5, 1.0], None), ([0.5, 0.5], [1, 2]),
            ([0.5, 0.1], None), ([0.5, 0.5], None), ([0.5, 0.75], None),
            ([0.5, 1.0, 0.25], None), ([0.5, 0.25, 0.5], [1, 1, 2]), ([0.5, 0.0, 0.3], None), ([0.5, 0.5, 0.1], [1, 2, 2]),
            ([0.5, 0.25, 0.1], None), ([0.5, 0.5, 0.5], [1, 2, 3]), ([0.5, 0.25, 1.0, 0.1], None),
            ([0.5, 0.0, 0.5, 1.0], [1, 1, 2, 2]), ([0.5, 0.3, 0.5, 0.2], [1, 1, 2, 2]), ([], None)]
    rows = [list(range(nparent)), [0] * nparent, list(reversed(range(1, nparent + 1)))]
    if nparent >= 3:
        rows.append([1, 0, 1, 0][:nparent])
    shapes = [(1, 1)] if not multi else [(1, 2), (2, 1), (2, 2), (1, 3)]
    cands = []
    for (xo, chrgrp) in vecs:
        for nself in (0, 1, 2):
            for (nm, npg) in shapes:
                for part in ("marker", "global"):
                    cost = proto_cost(proto, xo, nself, nm, npg, part)
                    if not xo and (part == "global" or nself > 1 or (nm, npg) not in ((1, 1), (2, 2))):
                        continue                       # p = 0: one trivial call per nself is enough
                    if cost <= cap:
                        cands.append((cost, xo, chrgrp, nself, nm, npg, part))
    # cheap ones first so that every (vector, nself) family is represented before the budget runs out
    cands.sort(key=lambda c: (c[0] > 600, c[0] > 5000))
    k = 0
    for (cost, xo, chrgrp, nself, nm, npg, part) in cands:
        if cost > budget:
            continue
        budget -= cost
        k += 1
        row = rows[k % len(rows)]
        yield dict(kind="proto", proto=proto, xoprob=xo, chrgrp=chrgrp, row=row, n=max(row) + 1, nself=nself, nm=nm, npg=npg,
                   part=part, rep=REPS[k % 4], seed=k, nontrivial=len(xo) > 0)


def _proto_unit(proto, multi=False):
    def body(ctx):
        ctx.rule = ("real %s.mate on founders whose chromosome copies carry distinct codes; one call per combination of threshold "
                    "cells of EVERY uniform draw of the call (cells per marker, or cut at all stored probabilities), exact Fraction "
                    "law of the unordered progeny genotype(s) vs. the statement's gamete law composed along the documented pedigree; "
                    "the number of draws must equal gametes x markers; distinct by full input" % proto)
        _drive(ctx, gen_proto_cases(ctx.rng, ctx.tier, proto, multi), lambda c: "mate:%s" % c["proto"],
               ("proto", "xoprob", "chrgrp", "row", "nself", "nm", "npg", "part", "rep"))
    return body


PROTO_UNITS = {}
for _proto in PROTOCOLS:
    _name = "ring[exact progeny law: %s.mate, one progeny]" % _proto
    PROTO_UNITS[_name] = _proto
    unit(P, _name, "R", bounded=True,
         note="bounded: one cross, one progeny, p<=4 markers with 0.5 at chromosome starts, nself<=2, <=2e4/3e5 calls per case, "
              "total 5e4/7e5 calls")(_proto_unit(_proto))
for _proto in ("TwoWayCross", "TwoWayDHCross"):
    _name = "ring[exact joint law of several progeny: %s.mate]" % _proto
    PROTO_UNITS[_name] = _proto
    unit(P, _name, "R", bounded=True,
         note="bounded: one cross, (nmating,nprogeny) in {(1,2),(2,1),(2,2),(1,3)}, p<=3, nself<=1 where affordable, <=2e4/3e5 calls "
              "per case")(_proto_unit(_proto, multi=True))


# ---- C generator
def gen_interp_cases(rnd, tier):
    yield dict(kind="interp", matcls="DenseGeneticMappableMatrix")
    N = 500 if tier == "quick" else 12000
    for c in range(N):
        nchr = rnd.choice([1, 1, 2, 2, 3])
        labels = rnd.sample([1, 2, 3, 5, 8, 13], nchr)
        knots, markers = [], []
        small = rnd.random() < 0.6
        for ch in labels:
            nk = rnd.choice([2, 2, 3, 4, 5])
            pos = sorted(rnd.sample(range(1, 200), nk))
            g = rnd.choice([0.0, 0.0, 0.05])
            for ph in pos:
                knots.append((ch, ph, g))
                g = g + rnd.choice([0.0, 0.01, 0.1, 0.25, 0.5, 1.0, rnd.random()])
            nmk = rnd.choice([0, 1, 1, 2, 2, 3]) if small else rnd.choice([0, 1, 2, 3, 4, 6])
            for _ in range(nmk):
                u = rnd.random()
                ph = rnd.choice(pos) if u < 0.3 else rnd.randrange(0, 230)
                markers.append((ch, ph))
            if nmk >= 2 and rnd.random() < 0.2:
                markers.append(markers[-1])                # two markers at the same position: distance 0
        if not markers:
            markers.append((labels[0], rnd.randrange(0, 230)))
        if small:
            markers = markers[:4]
        rnd.shuffle(markers)
        yield dict(kind="interp", mapcls=rnd.choice(["Standard", "Extended"]), mapfn=rnd.choice(["Haldane", "Haldane", "Kosambi"]),
                   matcls=rnd.choice(["DensePhasedGenotypeMatrix", "DenseGenotypeMatrix"]), units=rnd.choice(["M", "M", "cM", "Morgans", "centiMorgans"]),
                   knots=[list(k) for k in knots], markers=[list(m) for m in markers], seed=rnd.randrange(10 ** 6),
                   rep=rnd.choice(["lo", "mid", "hi"]), auto_group=rnd.random() < 0.7)      # False: the map keeps the (shuffled) file order


U_INTERP = "ring[interp_xoprob: mapfn(distance to previous marker), 0.5 at chromosome starts]"


@unit(P, U_INTERP, "R", bounded=True,
      note="bounded: 500/12000 seeded maps, <=3 chromosomes, <=5 knots each, <=13 markers (<=4 when the law is driven through "
           "mat_meiosis), Standard/Extended maps in M/cM, Haldane/Kosambi, phased and unphased matrices")
def u_ring_interp(ctx):
    ctx.rule = ("seeded piecewise-linear maps (flat segments, extrapolation, duplicate marker positions, single-marker chromosomes, "
                "shuffled input order) -> real interp_xoprob on DenseGenotypeMatrix/DensePhasedGenotypeMatrix; xoprob must be exactly "
                "0.5 at chromosome starts and the map function (recomputed with math.expm1/tanh) of the distance to the previous "
                "marker elsewhere (1e-12); for p<=4 the assigned vector is driven through the real mat_meiosis and the exact pairwise "
                "recombination compared with Haldane of the summed distance (1e-12) / exactly 1/2 across chromosomes")
    _drive(ctx, gen_interp_cases(ctx.rng, ctx.tier), lambda c: "interp", ("mapcls", "mapfn", "matcls", "units", "markers"))


# ---- D generator
def gen_mapfn_cases(rnd, tier):
    yield dict(kind="mapfn", kind2="limits")
    grid = [0.0, 1e-300, 1e-17, 1e-9, 1e-4, 0.001, 0.01, 0.05, 0.1, 0.2, 0.25, 0.5, 0.75, 1.0, 1.5, 2.0, 3.0, 5.0, 10.0, 18.0, 19.0,
            40.0, 400.0, 1e6]
    if tier == "thorough":
        grid = sorted(set(grid + [i / 64.0 for i in range(0, 257)]))
    for a in grid:
        for b in grid:
            yield dict(kind="mapfn", kind2="compose", a=a, b=b)
    for c in range(300 if tier == "quick" else 20000):
        yield dict(kind="mapfn", kind2="compose", a=rnd.random() * rnd.choice([0.01, 1.0, 4.0]), b=rnd.random() * rnd.choice([0.01, 1.0, 4.0]))
    for c in range(60 if tier == "quick" else 1500):
        nchr = rnd.choice([1, 2, 3])
        chrgrp, genpos = [], []
        for ch in range(nchr):
            n = rnd.choice([1, 2, 3, 5])
            g = rnd.choice([0.0, 0.3])
            for _ in range(n):
                chrgrp.append(ch + 1)
                genpos.append(g)
                g += rnd.choice([0.0, 0.01, 0.2, rnd.random(), 2.0])
        yield dict(kind="mapfn", kind2="pairwise", chrgrp=chrgrp, genpos=genpos)


U_MAPFN = "ring[Haldane composition r(a+b)=r(a)(1-r(b))+(1-r(a))r(b), map function values and limits]"


@unit(P, U_MAPFN, "R", bounded=True,
      note="bounded: 24x24 grid of distances in [0,1e6] (thorough 270x270) + 300/20000 seeded pairs, tolerance 1e-12; 60/1500 layouts "
           "for rprob1g/rprob2g")
def u_ring_mapfn(ctx):
    ctx.rule = ("grid and seeded pairs (a,b) of map distances: real HaldaneMapFunction.mapfn composes (1e-12), equals (1-exp(-2d))/2 "
                "recomputed with math.expm1, lies in [0,1/2], is monotone, scalar == array; Kosambi equals tanh(2d)/2; r(0)==0 and "
                "r(inf)==0.5 exactly; rprob1g/rprob2g on seeded layouts: 0.5 at/between chromosomes, sequential probabilities "
                "compose to the pairwise Haldane ones")
    _drive(ctx, gen_mapfn_cases(ctx.rng, ctx.tier), lambda c: "mapfn", ("kind2", "a", "b", "chrgrp", "genpos"))


# ---- E generator
def gen_embv_cases(rnd, tier):
    vecs = [[0.5], [0.5, 0.25], [0.5, 0.0], [0.5, 1.0], [0.5, 0.5], [0.5, 0.1, 0.3], [0.5, 1.0, 0.25], [0.5, 0.5, 0.75]]
    if tier == "thorough":
        vecs += [[0.5, 0.25, 0.1, 0.3], [0.5, 0.0, 0.5, 0.2], [0.5, 0.75], [0.5, 0.3, 1.0]]
    cap = 5000 if tier == "quick" else 70000
    budget = 12000 if tier == "quick" else 300000
    k = 0
    for xo in vecs:
        for npg in (1, 2):
            for part in ("marker", "global"):
                p = len(xo)
                per = [cells_of([v]) for v in xo] if part == "marker" else [cells_of(xo)] * p
                cost = 1
                for i in range(3 * npg * p):
                    cost *= len(per[i % p])
                if cost > cap or cost > budget:
                    continue
                budget -= cost
                k += 1
                yield dict(kind="embv", xoprob=xo, npg=npg, part=part, rep=REPS[k % 4], seed=k)


U_EMBV = "ring[exact doubled-haploid law inside DenseExpectedMaximumBreedingValueMatrix.from_gmod]"


@unit(P, U_EMBV, "R", bounded=True,
      note="bounded: 3 taxa (one fully heterozygous, two homozygous references), p<=3 (thorough 4), 1-2 doubled haploids, one "
           "replicate, <=5000/7e4 calls per case, total 1.2e4/3e5 calls; the module's global generator is replaced by a scripted one")
def u_ring_embv(ctx):
    ctx.rule = ("from_gmod with marker effects 2^j so that the breeding value identifies the transmitted copies; every combination "
                "of threshold cells of all draws of the call; exact law of the best doubled haploid's value vs. the statement's "
                "gamete law; distinct by (xoprob, nprogeny, partition, representative kind)")
    _drive(ctx, gen_embv_cases(ctx.rng, ctx.tier), lambda c: "embv", ("xoprob", "npg", "part", "rep"))


REPLAYERS = {U_K1: run_case, U_K2: run_case, U_PAIR: run_case, U_INTERP: run_case, U_MAPFN: run_case, U_EMBV: run_case}
for _name in PROTO_UNITS:
    REPLAYERS[_name] = run_case
