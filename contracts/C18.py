"""C18 -- see DESIGN.md §8 C18."""
from pyvc.unit import unit
P = "C18"
REPLAYERS = {}
try:
    from contracts.rings import C18 as _ring
    REPLAYERS.update(getattr(_ring, "REPLAYERS", {}))
except ImportError:
    _ring = None
