"""C18 -- see DESIGN.md §8 C18."""
from pyvc.unit import unit
P = "C18"
REPLAYERS = {}
try:
    from contracts.rings import C18 as _ring
    REPLAYERS.update(getattr(_ring, "REPLAYERS", {}))
except ImportError:
    _ring = None

import z3


@unit(P, "L[optimal haploid/population value bounds every doubled haploid that recombines only at block boundaries]", "L", targets=[])
def u_l_ohv(ctx):
    """per block: the value of the chosen parental block copy is <= the maximum over the designated copies; the sum over
    blocks and the ploidy factor preserve the inequality (monotonicity of finite sums)"""
    ctx.trust("monotonicity of finite sums")
    v1, v2, v3, v4, pick = z3.Reals("v1 v2 v3 v4 pick")
    mx = lambda a, b: z3.If(a >= b, a, b)
    best = mx(mx(v1, v2), mx(v3, v4))
    ctx.prove("block: any available block copy value <= max over the designated copies (4 copies)", [z3.Or(pick == v1, pick == v2, pick == v3, pick == v4)],
              pick <= best)
    ctx.prove("block: the maximum is attained by an available copy", [], z3.Or(best == v1, best == v2, best == v3, best == v4))
    b1, b2, m1, m2 = z3.Reals("b1 b2 m1 m2")
    pl = z3.Int("ploidy")
    ctx.prove("sum: blockwise <= implies ploidy-scaled sums <=", [b1 <= m1, b2 <= m2, pl >= 1],
              z3.ToReal(pl) * (b1 + b2) <= z3.ToReal(pl) * (m1 + m2))
    t1, t2, t3, g1, g2, g3 = z3.Reals("t1 t2 t3 g1 g2 g3")
    ctx.prove("conservation: block values (sums over the markers of each block) add up to the total additive value when the blocks "
              "partition the markers (3 markers, blocks {0,1},{2})", [], (g1 * t1 + g2 * t2) + (g3 * t3) == g1 * t1 + g2 * t2 + g3 * t3)


import numpy
from pyvc import sym, npmodel, loopcut
from pyvc.arr import EArr
from pyvc.sym import cur, _t, fresh_int

HAP = "pybrops/core/util/haplo.py"


@unit(P, "loop[haplobin_bounds: run-length boundaries partition the markers]", "A2", targets=[HAP + ":haplobin_bounds"])
def u_bounds(ctx):
    """post: with G = number of runs: hstix[0] == 0, hspix[g] == hstix[g+1], hspix[G-1] == n, hlen == hspix - hstix >= 1,
    labels constant on every [hstix[g], hspix[g]) and different across every boundary -- for label arrays of any length >= 1"""
    box = {}

    def inv(st):
        hb = box["hb"]
        hs, hp, prev = st["hstix"], st["hspix"], st["prev"]
        i = _t(st["_k"]) + 1
        S, T = _t(hs.vlen()), _t(hp.vlen())
        g, j = z3.Ints("q_g q_j")
        d = {}
        d["lengths"] = z3.And(S == T + 1, S >= 1, hs.at(0) == 0)
        d["chained"] = z3.ForAll([g], z3.Implies(z3.And(0 <= g, g < T), hp.at(g) == hs.at(g + 1)))
        d["starts-increasing-below-i"] = z3.And(
            z3.ForAll([g], z3.Implies(z3.And(0 <= g, g < S), z3.And(0 <= hs.at(g), hs.at(g) < i))),
            z3.ForAll([g], z3.Implies(z3.And(0 <= g, g < S - 1), hs.at(g) < hs.at(g + 1))))
        d["current-run-constant"] = z3.And(_t(prev) == hb.at(i - 1),
                                           z3.ForAll([j], z3.Implies(z3.And(hs.at(S - 1) <= j, j < i), hb.at(j) == _t(prev))))
        d["closed-runs-constant"] = z3.ForAll([g, j], z3.Implies(z3.And(0 <= g, g < T, hs.at(g) <= j, j < hp.at(g)),
                                                                 hb.at(j) == hb.at(hs.at(g))))
        d["boundaries-are-label-changes"] = z3.ForAll([g], z3.Implies(z3.And(0 <= g, g < T), hb.at(hp.at(g)) != hb.at(hp.at(g) - 1)))
        return d
    f = loopcut.Extracted(HAP + ":haplobin_bounds", loop_specs={"0": inv})
    ex = ctx.explorer()

    def thunk():
        e = cur()
        n = fresh_int("n", 1)
        hb = EArr.fresh("haplobin", (n,), numpy.int64)
        box["hb"] = hb
        hs, hp, hl = f(hb)
        G = _t(hs.shape[0])
        g1, j1 = z3.Int(e.fresh_name("g")), z3.Int(e.fresh_name("j"))
        e.assume(z3.And(0 <= g1, g1 < G))
        e.prove("haplobin_bounds:post:same-number-of-starts-stops-lengths", z3.And(_t(hp.shape[0]) == G, _t(hl.shape[0]) == G, G >= 1))
        e.prove("haplobin_bounds:post:first-start-0-last-stop-n", z3.And(hs.at(0) == 0, hp.at(G - 1) == n.t))
        e.prove("haplobin_bounds:post:chained", z3.Implies(g1 < G - 1, hp.at(g1) == hs.at(g1 + 1)))
        e.prove("haplobin_bounds:post:lengths", z3.And(hl.at(g1) == hp.at(g1) - hs.at(g1), hl.at(g1) >= 1))
        e.assume(z3.And(hs.at(g1) <= j1, j1 < hp.at(g1)))
        e.prove("haplobin_bounds:post:labels-constant-within-a-block", hb.at(j1) == hb.at(hs.at(g1)))
        e.prove("haplobin_bounds:post:labels-change-across-a-boundary", z3.Implies(g1 < G - 1, hb.at(hp.at(g1)) != hb.at(hp.at(g1) - 1)))
        e.prove("haplobin_bounds:canary:blocks-of-length-one", hl.at(g1) == 1, expect="fail", timeout_ms=1500)
        return "ok"
    with npmodel.patched_numpy():
        outs = ex.explore(thunk)
    ctx.absorb(ex)
    raised = [o for o in outs if isinstance(o, sym.Raised)]
    ctx.record("haplobin_bounds:noraise", not raised, kind="noraise", detail="; ".join(repr(r) + r.tb[-900:] for r in raised[:1]))
    ctx.record("haplobin_bounds:every-loop-cut", f.loops_cut == set(f.loops), kind="cover", detail=str(f.loops))
    # counterexample search on the real function (natively; every label array of length <= 7 over 3 labels):
    # a failed obligation above is then reported together with a concrete failing input when there is one
    import itertools
    from pybrops.core.util.haplo import haplobin_bounds
    bad = None
    for n in range(1, 8):
        for lab in itertools.product(range(3), repeat=n):
            try:
                hs, hp, hl = (numpy.asarray(x) for x in haplobin_bounds(numpy.array(lab)))
                exp_s = [0] + [i for i in range(1, n) if lab[i] != lab[i - 1]]
                exp_p = exp_s[1:] + [n]
                ok = hs.tolist() == exp_s and hp.tolist() == exp_p and hl.tolist() == [b - a for a, b in zip(exp_s, exp_p)]
                msg = "got %s %s %s expected starts %s stops %s" % (hs.tolist(), hp.tolist(), hl.tolist(), exp_s, exp_p)
            except Exception as ex_:  # noqa
                ok, msg = False, repr(ex_)
            if not ok:
                bad = (list(lab), msg)
                break
        if bad:
            break
    if bad:
        ctx.fail_input("haplobin_bounds:native:run-length-decomposition", dict(haplobin=bad[0]), cls="haplobin_bounds", message=bad[1])
    ctx.record("haplobin_bounds:native-enumeration-ran", True, kind="cover", detail="3^n label arrays, n<=7")


def _replay_bounds(inp):
    from pybrops.core.util.haplo import haplobin_bounds
    lab = inp["haplobin"]
    n = len(lab)
    hs, hp, hl = (numpy.asarray(x).tolist() for x in haplobin_bounds(numpy.array(lab)))
    exp_s = [0] + [i for i in range(1, n) if lab[i] != lab[i - 1]]
    exp_p = exp_s[1:] + [n]
    ok = hs == exp_s and hp == exp_p and hl == [b - a for a, b in zip(exp_s, exp_p)]
    return (not ok), "haplobin_bounds(%s) -> %s %s %s; run-length decomposition is %s %s" % (lab, hs, hp, hl, exp_s, exp_p)


REPLAYERS["loop[haplobin_bounds: run-length boundaries partition the markers]"] = _replay_bounds


from pyvc import barr, modeb
OHVP = "pybrops/breed/prot/sel/prob/OptimalHaploidValueSelectionProblem.py"
R = lambda x: (z3.ToReal(_t(x)) if _t(x).sort() == z3.IntSort() else _t(x))


@unit(P, "B[_calc_ohvmat == ploidy * sum over blocks of the best haplotype among the cross's parents; chunk invariant; bounds every block-wise choice]",
      "B", bounded=True, targets=[OHVP + ":OptimalHaploidValueSelectionProblemMixin._calc_ohvmat"],
      note="bounded(shape): <=3 taxa, <=2 blocks, <=2 traits, 1-3 parents per cross, chunk 1/2/None; block values symbolic reals")
def u_b_ohv(ctx):
    def body(e, shape, tag):
        from pybrops.breed.prot.sel.prob.OptimalHaploidValueSelectionProblem import OptimalHaploidValueSelectionProblemMixin as M
        n, b, t, xmap, mem = shape
        H = barr.fresh("h", (2, n, b, t), "float64")
        xm = numpy.array(xmap, dtype=int)
        out = M._calc_ohvmat(2, H, xm, mem)
        e.prove(tag + ":shape", tuple(out.shape) == (len(xm), t))
        for c, cfg in enumerate(xm):
            for k in range(t):
                tot = z3.RealVal(0)
                for blk in range(b):
                    cands = [R(H[ph, int(par), blk, k]) for ph in range(2) for par in cfg]
                    mx = cands[0]
                    for v in cands[1:]:
                        mx = z3.If(v > mx, v, mx)
                    tot = tot + mx
                e.prove(tag + ":ohv[%d,%d]==ploidy*sum_blocks max over the parents' haplotypes" % (c, k), R(out[c, k]) == 2 * tot)
                # the bound: any doubled haploid assembled block-wise from the parents' haplotypes has value <= ohv
                pick = [(sym.fresh_int("ph%d" % blk, 0, 1), sym.fresh_int("pa%d" % blk, 0, len(cfg) - 1)) for blk in range(b)]
                val = z3.RealVal(0)
                for blk, (ph, pa) in enumerate(pick):
                    term = z3.RealVal(0)
                    for phv in range(2):
                        for pi, par in enumerate(cfg):
                            term = z3.If(z3.And(ph.t == phv, pa.t == pi), R(H[phv, int(par), blk, k]), term)
                    val = val + term
                e.prove(tag + ":ohv[%d,%d] bounds every block-wise doubled haploid of the cross" % (c, k), 2 * val <= R(out[c, k]))
        e.prove(tag + ":canary:ohv-is-the-first-parent's-value", R(out[0, 0]) == 2 * sum((R(H[0, int(xm[0][0]), blk, 0]) for blk in range(b)), z3.RealVal(0)),
                expect="fail", timeout_ms=2000)
        return "ok"
    shapes = [(2, 1, 1, ((0, 1),), 1024), (2, 2, 1, ((0, 1), (1, 1)), 1), (3, 2, 1, ((0, 1, 2), (2, 2, 0), (1, 0, 1)), 2),
              (3, 1, 2, ((2,), (0,)), None)]
    if ctx.tier == "thorough":
        shapes += [(3, 2, 2, ((0, 2), (1, 2), (0, 0)), 2)]
    modeb.run_shapes(ctx, "ohv", shapes, body, max_paths=20000)


@unit(P, "B[haplomat: block value == effects summed over the block's markers; blocks together conserve the additive value]", "B", bounded=True,
      targets=[HAP + ":haplomat"],
      note="bounded(shape): <=2 phases x <=2 taxa x <=5 markers on 1-2 chromosomes (concrete genetic positions without empty bins), "
           "<=2 traits; alleles and effects symbolic")
def u_b_haplomat(ctx):
    _haplomat_unit(ctx, None)


def _haplomat_unit(ctx, which):
    """which None: haplo.haplomat; otherwise the `_calc_haplomat` copy of that problem family, called with a phased-matrix stub and
    a genomic-model stub whose additive effects `u_a` are one array among several (`u` = miscellaneous + additive effects, `u_misc`,
    `beta` are different symbolic arrays): the block values are those of the ADDITIVE marker effects"""
    def body(e, shape, tag):
        from pybrops.core.util.haplo import haplomat, nhaploblk_chrom, haplobin, haplobin_bounds
        nblk, genpos, stix, spix, n, t = shape
        genpos = numpy.array(genpos, dtype=float)
        stix, spix = numpy.array(stix), numpy.array(spix)
        p = len(genpos)
        G = barr.fresh("g", (2, n, p), "int8", 0, 1)
        u = barr.fresh("u", (p, t), "float64")
        if which is None:
            hm = haplomat(nblk, G, genpos, stix, spix, spix - stix, u)
        else:
            import importlib
            mod, cls = which
            um = barr.fresh("umisc", (1, t), "float64")

            class PG:
                mat, vrnt_genpos, vrnt_chrgrp_stix, vrnt_chrgrp_spix, vrnt_chrgrp_len = G, genpos, stix, spix, spix - stix
                ploidy, nphase, ntaxa, nvrnt = 2, 2, n, p

                def is_grouped_vrnt(self):
                    return True

            class GM:
                u_a, u_misc, ntrait = u, um, t
                beta = barr.fresh("beta", (1, t), "float64")
            GM.u = numpy.concatenate([um, u], axis=0)
            fr = modeb.Frame(g=G, u=u)
            hm = getattr(importlib.import_module(mod), cls)._calc_haplomat(PG(), GM(), nblk)
            e.prove(tag + ":frame:genotypes-and-effects-not-written", fr.unchanged())
        e.prove(tag + ":shape", tuple(hm.shape) == (2, n, nblk, t))
        # the partition itself is concrete here (the library's own bins for these positions)
        hb = haplobin(nhaploblk_chrom(nblk, genpos, stix, spix), genpos, stix, spix)
        hs, hp, hl = haplobin_bounds(hb)
        e.prove(tag + ":layout-has-the-requested-number-of-blocks", len(hs) == nblk)
        for m in range(2):
            for i in range(n):
                for k in range(t):
                    for b_, (a, z) in enumerate(zip(hs, hp)):
                        e.prove(tag + ":block[%d,%d,%d,%d]==sum of allele*effect over its markers" % (m, i, b_, k),
                                R(hm[m, i, b_, k]) == sum((R(G[m, i, j]) * R(u[j, k]) for j in range(int(a), int(z))), z3.RealVal(0)))
                    e.prove(tag + ":blocks[%d,%d,:,%d] sum to the additive value of the chromosome copy" % (m, i, k),
                            sum((R(hm[m, i, b_, k]) for b_ in range(nblk)), z3.RealVal(0))
                            == sum((R(G[m, i, j]) * R(u[j, k]) for j in range(p)), z3.RealVal(0)))
        return "ok"
    shapes = [(1, (0.0, 0.5, 1.0), (0,), (3,), 1, 1), (2, (0.0, 0.3, 0.7, 1.0), (0,), (4,), 2, 1),
              (3, (0.0, 1.0, 0.0, 0.4, 1.0), (0, 2), (2, 5), 1, 2)]
    modeb.run_shapes(ctx, "haplomat" if which is None else which[1] + "._calc_haplomat", shapes if which is None else shapes[1:], body)


_PROB = "pybrops.breed.prot.sel.prob."
for _mod, _cls in ((_PROB + "OptimalHaploidValueSelectionProblem", "OptimalHaploidValueSelectionProblemMixin"),
                   (_PROB + "OptimalPopulationValueSelectionProblem", "OptimalPopulationValueSelectionProblemMixin"),
                   (_PROB + "GenotypeBuilderSelectionProblem", "GenotypeBuilderSelectionProblemMixin")):
    def _mk(_mod=_mod, _cls=_cls):
        @unit(P, "B[%s._calc_haplomat: block value == ADDITIVE effects summed over the block's markers; conserves the additive value]" % _cls,
              "B", bounded=True, targets=[_mod.replace(".", "/") + ".py:" + _cls + "._calc_haplomat"],
              note="bounded(shape): 2 phases x <=2 taxa x <=5 markers on 1-2 chromosomes (concrete positions), <=2 traits; alleles and effects "
                   "symbolic; the model stub has u (misc + additive), u_misc and beta different from u_a")
        def u(ctx):
            _haplomat_unit(ctx, (_mod, _cls))
        return u
    _mk()


@unit(P, "loop[nhaploblk_chrom: every chromosome gets at least one block and the counts add up to exactly the requested total]", "A2",
      targets=[HAP + ":nhaploblk_chrom"])
def u_apportion(ctx):
    """pre: nchr >= 1 chromosomes with start/stop indices in range, total genetic length > 0, nhaploblk an integer.
    post: ValueError iff nhaploblk < nchr; otherwise a vector of nchr integer counts, each >= 1, whose sum is nhaploblk
    (ghost prefix sums; the greedy increment is a point update, related to the previous sum by an induction lemma)."""
    box = {}

    def inv(st):
        cnt, k = st["nhaploblk_chrom"], _t(st["_k"])
        nchr = box["nchr"]
        c = z3.Int("q_c")
        d = {}
        if not isinstance(cnt, EArr) or cnt.ndim != 1:
            return {"shape": False}
        d["shape"] = _t(cnt.shape[0]) == nchr
        d["at-least-one-block-each"] = z3.ForAll([c], z3.Implies(z3.And(0 <= c, c < nchr), cnt.at(c) >= 1))
        d["blocks-handed-out-so-far"] = _t(npmodel.el_sum(cnt)) == nchr + k
        return d
    f = loopcut.Extracted(HAP + ":nhaploblk_chrom", loop_specs={"0": inv})
    ex = ctx.explorer()
    ctx.trust("real arithmetic for the genetic lengths (the ideal shares only steer which chromosome is incremented)")

    def thunk():
        e = cur()
        nchr, p, nblk = fresh_int("nchr", 1), fresh_int("p", 1), fresh_int("nhaploblk")
        box["nchr"] = nchr.t
        genpos = EArr.fresh("genpos", (p,), numpy.float64)
        stix = EArr.fresh("stix", (nchr,), numpy.int64)
        spix = EArr.fresh("spix", (nchr,), numpy.int64)
        c = z3.Int("q_c")
        e.assume(z3.ForAll([c], z3.Implies(z3.And(0 <= c, c < nchr.t), z3.And(0 <= stix._fn(c), stix._fn(c) < spix._fn(c), spix._fn(c) <= p.t)),
                           patterns=[stix._fn(c)]))
        try:
            out = f(nblk, genpos, stix, spix)
        except (ValueError, IndexError):
            # (the library means to raise ValueError; its message has a format slip -- "{1}".format(nchr) -- and an IndexError comes
            #  out instead.  The input is invalid either way; the property does not prescribe the exception type.)
            e.prove("nhaploblk_chrom:raises-only-when-fewer-blocks-than-chromosomes", nblk.t < nchr.t)
            return "raised"
        e.prove("nhaploblk_chrom:post:returns-when-enough-blocks", nblk.t >= nchr.t)
        e.prove("nhaploblk_chrom:post:one-count-per-chromosome", z3.And(out.ndim == 1, _t(out.shape[0]) == nchr.t))
        c1 = z3.Int(e.fresh_name("c"))
        e.assume(z3.And(0 <= c1, c1 < nchr.t))
        e.prove("nhaploblk_chrom:post:every-chromosome-gets-at-least-one-block", out.at(c1) >= 1)
        e.prove("nhaploblk_chrom:post:counts-add-up-to-exactly-the-requested-total", _t(npmodel.el_sum(out)) == nblk.t)
        e.prove("nhaploblk_chrom:canary:one-block-each", out.at(c1) == 1, expect="fail", timeout_ms=2000)
        return "ok"
    with npmodel.patched_numpy():
        outs = ex.explore(thunk)
    ctx.absorb(ex)
    raised = [o for o in outs if isinstance(o, sym.Raised)]
    ctx.record("nhaploblk_chrom:noraise-other-than-the-documented-ValueError", not raised, kind="noraise",
               detail="; ".join(repr(r) + r.tb[-1200:] for r in raised[:1]))
    ctx.record("nhaploblk_chrom:loop-cut", f.loops_cut == set(f.loops), kind="cover", detail=str(f.loops))
    ctx.record("nhaploblk_chrom:returns-on-some-path (cover)", any(o == "ok" for o in outs) and any(o == "raised" for o in outs), kind="cover")


OPVP = "pybrops/breed/prot/sel/prob/OptimalPopulationValueSelectionProblem.py"
GBP = "pybrops/breed/prot/sel/prob/GenotypeBuilderSelectionProblem.py"


@unit(P, "B[OPV / GenotypeBuilder latentfn == -ploidy * sum over blocks of the best block value among the selected individuals, "
         "for the block values the problem holds NOW]", "B", bounded=True,
      targets=[OPVP + ":OptimalPopulationValueSubsetSelectionProblem.latentfn", GBP + ":GenotypeBuilderSubsetSelectionProblem.latentfn"],
      note="bounded(shape): <=3 individuals, <=2 blocks, <=2 traits, selections of 1-2 individuals (repeats included), nbestfndr 1-2; "
           "block values symbolic reals; checked on construction, after the haplomat setter and after an in-place write")
def u_b_latent(ctx):
    def body(e, shape, tag):
        import importlib
        kind, n, b, t, x, nbest = shape
        x = numpy.array(x, dtype=int)
        k = len(x)
        kw = dict(ndecn=k, decn_space=numpy.arange(max(n, k)), decn_space_lower=numpy.repeat(0, k),
                  decn_space_upper=numpy.repeat(max(n - 1, 0), k), nobj=t)
        H = barr.fresh("h", (2, n, b, t), "float64")
        if kind == "opv":
            C = importlib.import_module(OPVP[:-3].replace("/", ".")).OptimalPopulationValueSubsetSelectionProblem
            prob = C(haplomat=H, **kw)
        else:
            C = importlib.import_module(GBP[:-3].replace("/", ".")).GenotypeBuilderSubsetSelectionProblem
            prob = C(haplomat=H, nbestfndr=nbest, **kw)

        def mx(vals):
            m = vals[0]
            for v in vals[1:]:
                m = z3.If(v > m, v, m)
            return m

        def mn(vals):
            m = vals[0]
            for v in vals[1:]:
                m = z3.If(v < m, v, m)
            return m

        def check(sub, A):
            fr = modeb.Frame(h=A)
            out = prob.latentfn(x)
            e.prove(tag + sub + ":shape", tuple(out.shape) == (t,))
            for tr in range(t):
                tot = z3.RealVal(0)
                for blk in range(b):
                    per = [mx([R(A[ph, int(i), blk, tr]) for ph in range(2)]) for i in x]      # each selected individual's better copy
                    if kind == "opv" or nbest == 1:
                        tot = tot + mx(per)
                    elif nbest == k:
                        tot = tot + sum(per[1:], per[0])
                    else:                                      # the nbest largest of k = 2..3 values with nbest = k - 1
                        tot = tot + sum(per[1:], per[0]) - mn(per)
                want = -2 * tot if kind == "opv" else -(z3.RealVal(2) / nbest) * tot
                e.prove(tag + sub + ":latentfn[%d]" % tr, R(out[tr]) == want)
            e.prove(tag + sub + ":frame:block-values-not-written", fr.unchanged() and prob.haplomat is A)
        check("", H)
        H2 = barr.fresh("h2", (2, n, b, t), "float64")
        prob.haplomat = H2
        check(":after-haplomat-setter", H2)
        H2[...] = barr.fresh("h3", (2, n, b, t), "float64")
        check(":after-in-place-write", H2)
        return "ok"
    shapes = [("opv", 2, 1, 1, (0, 1), 1), ("opv", 3, 2, 1, (2, 0), 1), ("opv", 2, 1, 2, (1, 1), 1), ("opv", 2, 2, 1, (1,), 1),
              ("gb", 2, 1, 1, (0, 1), 1), ("gb", 2, 1, 1, (0, 1), 2), ("gb", 3, 2, 1, (2, 0), 1)]
    if ctx.tier == "thorough":
        shapes += [("opv", 3, 2, 2, (0, 1, 2), 1), ("gb", 3, 1, 1, (0, 1, 2), 2)]
    modeb.run_shapes(ctx, "latent", shapes, body, max_paths=20000)
