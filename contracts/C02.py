"""C02 -- see DESIGN.md §8 C02."""
from pyvc.unit import unit
P = "C02"
REPLAYERS = {}
try:
    from contracts.rings import C02 as _ring
    REPLAYERS.update(getattr(_ring, "REPLAYERS", {}))
except ImportError:
    _ring = None

import numpy, z3
from pyvc import sym, oarr, loopcut, lemma
from pyvc.sym import cur, _t, fresh_int
from pyvc.oarr import OArr, same
from contracts import meiosis
from contracts.C11 import mapfn_lemmas

UTIL = "pybrops/breed/prot/mate/util.py"
CORE = "pybrops/core/util/mate.py"


@unit(P, "meiosis[mate/util.mat_meiosis]: copy switches between j-1 and j iff the draw is below xoprob[j]", "A2", targets=[UTIL + ":mat_meiosis"])
def u_k1(ctx):
    meiosis.prove_meiosis(ctx, UTIL + ":mat_meiosis")


@unit(P, "meiosis[core/util/mate.dense_meiosis]: copy switches between j-1 and j iff the draw is below xoprob[j]", "A2", targets=[CORE + ":dense_meiosis"])
def u_k2(ctx):
    meiosis.prove_meiosis(ctx, CORE + ":dense_meiosis")


@unit(P, "lemma[Haldane laws incl. composition]", "L", targets=["pybrops/popgen/gmap/HaldaneMapFunction.py:HaldaneMapFunction.mapfn"])
def u_h(ctx):
    mapfn_lemmas(ctx, "Haldane")


# the crossover probabilities the gamete law is stated over are map-function values: both map functions stay inside [0, 1/2] and
# send +inf (a chromosome start) to exactly one half
@unit(P, "lemma[Kosambi laws]", "L", targets=["pybrops/popgen/gmap/KosambiMapFunction.py:KosambiMapFunction.mapfn"])
def u_k(ctx):
    mapfn_lemmas(ctx, "Kosambi")


@unit(P, "lemma[probability algebra of independent switches]", "L", targets=[])
def u_prob(ctx):
    """Deterministic reduction of the distributional statement (DESIGN §8 C02).  Assumed, not verified: the entries of
    one uniform(0,1,shape) draw are i.i.d. U[0,1), so P(U < p) = p for p in [0,1]; law of large numbers."""
    ctx.assume_note("entries of Generator/RandomState.uniform(0,1,shape) are i.i.d. U[0,1): P(U < p) = p for 0 <= p <= 1",
                    "law of large numbers (convergence of observed proportions)")
    a, b, x, s = z3.Reals("a b x s")
    unit_iv = [0 <= a, a <= 1, 0 <= b, b <= 1, 0 <= x, x <= 1]
    # two independent switch indicators with probabilities a and b: odd number of switches
    odd = a * (1 - b) + (1 - a) * b
    ctx.prove("parity: P(odd switches over two independent intervals) == a(1-b)+(1-a)b  <=>  1-2r13 == (1-2a)(1-2b)", unit_iv,
              z3.And(1 - 2 * odd == (1 - 2 * a) * (1 - 2 * b), 0 <= odd, odd <= 1))
    # start switch with probability 1/2 makes the copy uniform at every later locus whatever the later probability x
    ctx.prove("segregation: with start probability 1/2, P(copy 1) stays 1/2 after a switch of any probability x", unit_iv,
              z3.RealVal("1/2") * (1 - x) + z3.RealVal("1/2") * x == z3.RealVal("1/2"))
    # induction step for P(copy 1 at locus j) = s_j:  s_{j+1} = s_j (1-x) + (1-s_j) x ; s_j = 1/2 is a fixed point
    ctx.prove("segregation: s -> s(1-x)+(1-s)x has the fixed point 1/2", unit_iv + [s == z3.RealVal("1/2")],
              s * (1 - x) + (1 - s) * x == z3.RealVal("1/2"))
    # independence across chromosomes: the start switch (prob 1/2) is an independent draw, so the joint law of two
    # chromosome-start copies is the product 1/4 each; stated as the algebraic fact used
    ctx.prove("assortment: product law of two independent fair start switches", [], z3.RealVal("1/2") * z3.RealVal("1/2") == z3.RealVal("1/4"))
    ctx.prove("canary: parity identity with a wrong sign", unit_iv, 1 - 2 * odd == (1 + 2 * a) * (1 - 2 * b), expect="fail", timeout_ms=3000)


@unit(P, "A1[interp_xoprob == mapfn(gdist1g(chr, interp_genpos(chr, phys))) and stores both]", "A1", targets=[
    "pybrops/popgen/gmap/DenseGeneticMappableMatrix.py:DenseGeneticMappableMatrix.interp_xoprob",
    "pybrops/popgen/gmap/HaldaneMapFunction.py:HaldaneMapFunction.rprob1g"])
def u_interp(ctx):
    ctx.trust("gmap.interp_genpos / gmap.gdist1g / mapfn used through their contracts (C11); opaque arrays")
    ex = ctx.explorer()

    def thunk():
        import importlib
        e = cur()
        for which, stale in (("Haldane", False), ("Kosambi", False), ("Haldane", True), ("Kosambi", True)):
            # stale: the matrix already carries genetic positions and crossover probabilities (from another map): the
            # postcondition is the same -- both are recomputed from the map that is supplied now
            MF = getattr(importlib.import_module("pybrops.popgen.gmap.%sMapFunction" % which), "%sMapFunction" % which)
            from pybrops.popgen.gmat.DensePhasedGenotypeMatrix import DensePhasedGenotypeMatrix as PG
            p = fresh_int("p", 0)
            obj = object.__new__(PG)
            chr_, phy = OArr.fresh("chr", (p,), "int64"), OArr.fresh("phy", (p,), "int64")
            for k, v in dict(_vrnt_chrgrp=chr_, _vrnt_phypos=phy, _vrnt_genpos=None, _vrnt_xoprob=None,
                             _mat=OArr.fresh("mat", (2, fresh_int("n", 0), p), "int8")).items():
                object.__setattr__(obj, k, v)
            for m in ("_vrnt_chrgrp_name", "_vrnt_chrgrp_stix", "_vrnt_chrgrp_spix", "_vrnt_chrgrp_len"):
                object.__setattr__(obj, m, OArr.fresh(m, (fresh_int("g", 0),), "int64"))
            if stale:
                object.__setattr__(obj, "_vrnt_genpos", OArr.fresh("stale_genpos", (p,), "float64"))
                object.__setattr__(obj, "_vrnt_xoprob", OArr.fresh("stale_xoprob", (p,), "float64"))
            calls = []

            class GMap:      # contract stub of a GeneticMap
                def interp_genpos(self, c, ph, **kw):
                    calls.append(("interp_genpos", c, ph))
                    self.gp = OArr.fresh("genpos", (p,), "float64")
                    return self.gp

                def gdist1g(self, c, g, *a, **kw):
                    calls.append(("gdist1g", c, g))
                    self.d = OArr.fresh("gdist", (p,), "float64")
                    return self.d
            gm = GMap()
            mf = MF()
            seen = {}
            real_mapfn = MF.mapfn

            def mapfn(self_, d):
                seen["arg"] = d
                seen["out"] = OArr.fresh("r", (p,), "float64")
                return seen["out"]
            MF.mapfn = mapfn
            try:
                import pybrops.popgen.gmap.DenseGeneticMappableMatrix as M
                saved = (M.check_is_GeneticMap, M.check_is_GeneticMapFunction)
                M.check_is_GeneticMap = M.check_is_GeneticMapFunction = lambda *a: None
                try:
                    PG.interp_xoprob(obj, gm, mf)
                finally:
                    M.check_is_GeneticMap, M.check_is_GeneticMapFunction = saved
            finally:
                MF.mapfn = real_mapfn
            n = which + (":stale-positions:" if stale else ":")
            e.prove(n + "genpos := gmap.interp_genpos(chr, phys)", len(calls) >= 1 and calls[0][0] == "interp_genpos" and
                    calls[0][1] is chr_ and calls[0][2] is phy and same(obj._vrnt_genpos, gm.gp))
            e.prove(n + "distance := gmap.gdist1g(chr, interpolated genpos)", len(calls) == 2 and calls[1][0] == "gdist1g" and
                    calls[1][1] is chr_ and same(calls[1][2], gm.gp))
            e.prove(n + "xoprob := mapfn(sequential distance)", seen.get("arg") is gm.d and same(obj._vrnt_xoprob, seen["out"]))
        return "ok"
    with oarr.patched_numpy(), loopcut.patched_modules(["pybrops.*"]):
        outs = ex.explore(thunk)
    ctx.absorb(ex)
    raised = [o for o in outs if isinstance(o, sym.Raised)]
    ctx.record("interp_xoprob:noraise", not raised, kind="noraise", detail="; ".join(repr(r) + r.tb[-700:] for r in raised[:1]))


from contracts.C11 import prove_gdist1g


@unit(P, "loop[StandardGeneticMap.gdist1g]: +inf (hence xoprob 1/2) exactly at chromosome starts", "A2",
      targets=["pybrops/popgen/gmap/StandardGeneticMap.py:StandardGeneticMap.gdist1g"])
def u_gd_std(ctx):
    prove_gdist1g(ctx, "pybrops/popgen/gmap/StandardGeneticMap.py", "StandardGeneticMap")


@unit(P, "loop[ExtendedGeneticMap.gdist1g]: +inf (hence xoprob 1/2) exactly at chromosome starts", "A2",
      targets=["pybrops/popgen/gmap/ExtendedGeneticMap.py:ExtendedGeneticMap.gdist1g"])
def u_gd_ext(ctx):
    prove_gdist1g(ctx, "pybrops/popgen/gmap/ExtendedGeneticMap.py", "ExtendedGeneticMap")


# the stored crossover probabilities reach the kernel unchanged: the stacking layer (same units as C01; here the obligation of
# interest is `call<k>-crossover-probabilities-are-the-caller's`) -- the protocol layer's counterpart is C01's proto units
from contracts import C01 as _c01


def _reg_stack(target, callee, dh):
    @unit(P, "stack[%s]: the kernel is called with the caller's crossover probabilities" % target.split(":")[1], "A2", targets=[target])
    def u(ctx):
        _c01._prove_stack(ctx, target, callee, dh)
    return u


_reg_stack(UTIL + ":mat_mate", "mat_meiosis", False)
_reg_stack(UTIL + ":mat_dh", "mat_meiosis", True)
_reg_stack(CORE + ":dense_cross", "dense_meiosis", False)
_reg_stack(CORE + ":dense_dh", "dense_meiosis", True)
