"""C02 -- see DESIGN.md §8 C02."""
from pyvc.unit import unit
P = "C02"
REPLAYERS = {}
try:
    from contracts.rings import C02 as _ring
    REPLAYERS.update(getattr(_ring, "REPLAYERS", {}))
except ImportError:
    _ring = None
