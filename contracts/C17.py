"""C17 -- see DESIGN.md §8 C17."""
from pyvc.unit import unit
P = "C17"
REPLAYERS = {}
try:
    from contracts.rings import C17 as _ring
    REPLAYERS.update(getattr(_ring, "REPLAYERS", {}))
except ImportError:
    _ring = None
