"""C17 -- see DESIGN.md §8 C17."""
from pyvc.unit import unit
P = "C17"
REPLAYERS = {}
try:
    from contracts.rings import C17 as _ring
    REPLAYERS.update(getattr(_ring, "REPLAYERS", {}))
except ImportError:
    _ring = None

import z3
from pyvc import sym


@unit(P, "L[stochastic universal sampling: k pointers, floor/ceil counts, zero weight never selected (real arithmetic)]", "L", targets=[])
def u_l_sus(ctx):
    """Lemmas over the specification in real arithmetic (the float clauses are the ring's and the recorded findings):
    pointers ptr_i = o + i*d, i = 0..k-1, with d = W/k > 0 and 0 <= o < d; element m owns [c_{m-1}, c_m) with c_m - c_{m-1} = w_m."""
    ctx.assume_note("real arithmetic; the float behaviour (pointer rounding across a boundary) is known finding C17-F37")
    o, d, W, a, w = z3.Reals("o d W a w")
    k, i = z3.Ints("k i")
    F = lambda t: z3.ToInt(t)            # floor
    kk = z3.ToReal(k)
    pre = [k >= 1, d > 0, W == kk * d, 0 <= o, o < d]
    # all k pointers lie in [0, W): exactly k pointers are on the wheel
    ctx.prove("pointers: every pointer o + i*d with 0 <= i < k lies in [0, W)", pre + [0 <= i, i < k],
              z3.And(o + z3.ToReal(i) * d >= 0, o + z3.ToReal(i) * d < W))
    # number of lattice points o + i*d in [a, a+w) is floor((a+w-o)/d - eps..) ; stated with the counting function
    # N(t) = number of lattice points < t = ceil((t - o)/d) for t >= o, i.e. -floor(-(t-o)/d)
    y, u = z3.Reals("y u")
    ctx.prove("lattice: an interval of length u (in units of d) holds floor(u) or floor(u)+1 lattice points: "
              "ceil(y+u) - ceil(y) in {floor(u), floor(u)+1}", [u >= 0],
              z3.Or((-F(-(y + u))) - (-F(-y)) == F(u), (-F(-(y + u))) - (-F(-y)) == F(u) + 1))
    ctx.prove("lattice: ... and equals u exactly when u is an integer", [u >= 0, u == z3.ToReal(F(u))],
              (-F(-(y + u))) - (-F(-y)) == F(u))
    ctx.prove("zero weight: an element of weight 0 owns an empty interval [c, c) and receives no pointer", [w == 0],
              z3.Not(z3.And(a <= o, o < a + w)))
    ctx.prove("canary: an interval of length u holds at most floor(u) lattice points", [u >= 0],
              (-F(-(y + u))) - (-F(-y)) <= F(u), expect="fail", timeout_ms=3000)
    # tiled choice: nsample = q*m + r with 0 <= r < m: every option appears q times in the tiles and at most once in the remainder
    q, m, r, ns = z3.Ints("q m r ns")
    ctx.prove("tiled choice: divmod gives q tiles and a remainder r < m of distinct options, so every option is used q or q+1 times "
              "and the counts differ by at most one", [m >= 1, ns >= 0, ns == q * m + r, 0 <= r, r < m],
              z3.And(q >= 0, q * m <= ns, ns < (q + 1) * m))
