"""C17 -- see DESIGN.md §8 C17."""
from pyvc.unit import unit
P = "C17"
REPLAYERS = {}
try:
    from contracts.rings import C17 as _ring
    REPLAYERS.update(getattr(_ring, "REPLAYERS", {}))
except ImportError:
    _ring = None

import z3
from pyvc import sym


@unit(P, "L[stochastic universal sampling: k pointers, floor/ceil counts, zero weight never selected (real arithmetic)]", "L", targets=[])
def u_l_sus(ctx):
    """Lemmas over the specification in real arithmetic (the float clauses are the ring's and the recorded findings):
    pointers ptr_i = o + i*d, i = 0..k-1, with d = W/k > 0 and 0 <= o < d; element m owns [c_{m-1}, c_m) with c_m - c_{m-1} = w_m."""
    ctx.assume_note("real arithmetic; the float behaviour (pointer rounding across a boundary) is known finding C17-F37")
    o, d, W, a, w = z3.Reals("o d W a w")
    k, i = z3.Ints("k i")
    F = lambda t: z3.ToInt(t)            # floor
    kk = z3.ToReal(k)
    pre = [k >= 1, d > 0, W == kk * d, 0 <= o, o < d]
    # all k pointers lie in [0, W): exactly k pointers are on the wheel
    ctx.prove("pointers: every pointer o + i*d with 0 <= i < k lies in [0, W)", pre + [0 <= i, i < k],
              z3.And(o + z3.ToReal(i) * d >= 0, o + z3.ToReal(i) * d < W))
    # number of lattice points o + i*d in [a, a+w) is floor((a+w-o)/d - eps..) ; stated with the counting function
    # N(t) = number of lattice points < t = ceil((t - o)/d) for t >= o, i.e. -floor(-(t-o)/d)
    y, u = z3.Reals("y u")
    ctx.prove("lattice: an interval of length u (in units of d) holds floor(u) or floor(u)+1 lattice points: "
              "ceil(y+u) - ceil(y) in {floor(u), floor(u)+1}", [u >= 0],
              z3.Or((-F(-(y + u))) - (-F(-y)) == F(u), (-F(-(y + u))) - (-F(-y)) == F(u) + 1))
    ctx.prove("lattice: ... and equals u exactly when u is an integer", [u >= 0, u == z3.ToReal(F(u))],
              (-F(-(y + u))) - (-F(-y)) == F(u))
    ctx.prove("zero weight: an element of weight 0 owns an empty interval [c, c) and receives no pointer", [w == 0],
              z3.Not(z3.And(a <= o, o < a + w)))
    ctx.prove("canary: an interval of length u holds at most floor(u) lattice points", [u >= 0],
              (-F(-(y + u))) - (-F(-y)) <= F(u), expect="fail", timeout_ms=3000)
    # tiled choice: nsample = q*m + r with 0 <= r < m: every option appears q times in the tiles and at most once in the remainder
    q, m, r, ns = z3.Ints("q m r ns")
    ctx.prove("tiled choice: divmod gives q tiles and a remainder r < m of distinct options, so every option is used q or q+1 times "
              "and the counts differ by at most one", [m >= 1, ns >= 0, ns == q * m + r, 0 <= r, r < m],
              z3.And(q >= 0, q * m <= ns, ns < (q + 1) * m))


# ---------------------------------------------------------------------------------------------------
# A2: the pointer walk of stochastic_universal_sampling, for all n, k, weights and generator outcomes
import numpy
from pyvc import loopcut, npmodel
from pyvc.arr import EArr
from pyvc.sym import cur, _t, fresh_int, fresh_real, wrap

SAMP = "pybrops/core/random/sampling.py"


@unit(P, "loop[stochastic_universal_sampling: k draws, every pointer served by the element that owns it, zero weight never selected]", "A2",
      targets=[SAMP + ":stochastic_universal_sampling"])
def u_sus_loop(ctx):
    """pre: a, p of length n >= 1, p >= 0, sum(p) > 0, size = k >= 1 (an integer), rng arbitrary.
    post (reals): exactly k selections; writing c for the cumulative weights in descending order, pointer g = offset + g*sum/k is
    served by the element at sorted position w with  c[m] <= pointer for all m < w  and  (pointer < c[w] or w is the last
    positive position); w is a positive-weight position; the output is a[.] of a permutation of those selections."""
    box = {}

    class Rng:
        def __init__(self):
            self.calls = []

        def uniform(self, low=0.0, high=1.0, size=None):       # numpy's parameter names: callers may pass them by keyword
            lo, hi = low, high
            e = cur()
            r = fresh_real("offset")
            e.assume(z3.And(r.t >= _t(lo), r.t <= _t(hi)))     # [low, high); numpy may return high by rounding
            self.calls.append(("uniform", lo, hi, size))
            box["draw"] = r
            return r

        def shuffle(self, x, axis=0):
            arr = x
            e = cur()
            n = _t(arr.shape[0])
            PI = z3.Function(e.fresh_name("pi"), z3.IntSort(), z3.IntSort())
            PINV = z3.Function(e.fresh_name("piinv"), z3.IntSort(), z3.IntSort())
            i = z3.Int("q_i")
            e.assume(z3.ForAll([i], z3.Implies(z3.And(0 <= i, i < n), z3.And(0 <= PI(i), PI(i) < n, PINV(PI(i)) == i)), patterns=[PI(i)]))
            e.assume(z3.ForAll([i], z3.Implies(z3.And(0 <= i, i < n), z3.And(0 <= PINV(i), PINV(i) < n, PI(PINV(i)) == i)), patterns=[PINV(i)]))
            old = arr._at
            box["pre_shuffle"] = old
            box["PI"] = PI
            arr._at = lambda k: old(PI(k))
            self.calls.append(("shuffle", arr))

    def own(w, x, c, npos):
        """sorted position w owns pointer value x"""
        m = z3.Int("q_m")
        last = z3.If(npos - 1 > 0, npos - 1, 0)
        return z3.And(0 <= w, w <= last, z3.ForAll([m], z3.Implies(z3.And(0 <= m, m < w), c.at(m) <= x)),
                      z3.Or(x < c.at(w), w >= npos - 1))

    def outer(st):
        c, idx, ptrs, npos, INV = st["cumsum"], st["indices"], st["ptrs"], _t(st["npos"]), box["INV"]()
        sel, ix, j = st["sel"], _t(st["ix"]), _t(st["_k"])
        box["ptrs"], box["c"], box["npos"] = ptrs, c, npos
        g, m = z3.Ints("q_g q_m")
        n = _t(idx.shape[0])
        d = {}
        d["length"] = _t(sel.vlen()) == j
        d["served"] = z3.ForAll([g], z3.Implies(z3.And(0 <= g, g < j),
                                               z3.And(0 <= sel.at(g), sel.at(g) < n, own(n - 1 - INV(sel.at(g)), ptrs.at(g), c, npos))))
        d["cursor"] = z3.And(z3.Implies(j == 0, ix == 0), z3.Implies(j >= 1, ix == n - 1 - INV(sel.at(j - 1))))
        return d

    def inner(st):
        c, npos, ptr = st["cumsum"], _t(st["npos"]), _t(st["ptr"])
        ix, ix0 = _t(st["ix"]), _t(st["_pre"]["ix"])
        m = z3.Int("q_m")
        last = z3.If(npos - 1 > 0, npos - 1, 0)
        return {"range": z3.And(ix0 <= ix, ix <= last),
                "passed": z3.ForAll([m], z3.Implies(z3.And(ix0 <= m, m < ix), c.at(m) <= ptr))}
    f = loopcut.Extracted(SAMP + ":stochastic_universal_sampling", loop_specs={"0": outer, "0.0": inner})
    ex = ctx.explorer()
    ctx.trust("real arithmetic for the weights (float rounding of the pointers is known finding C17-F37)",
              "a sum of non-negative weights that is positive has a positive term (so at least one positive position exists)")

    def thunk():
        e = cur()
        n, k = fresh_int("n", 1), fresh_int("k", 1)
        a = EArr.fresh("a", (n,), numpy.int64)
        p = EArr.fresh("p", (n,), numpy.float64)
        i = z3.Int("q_i")
        e.assume(z3.ForAll([i], z3.Implies(z3.And(0 <= i, i < n.t), p._fn(i) >= 0), patterns=[p._fn(i)]))
        tot = npmodel.el_sum(p)
        e.assume(tot.t > 0)
        e.assume(z3.Exists([i], z3.And(0 <= i, i < n.t, p._fn(i) > 0)))      # trusted: positive sum of non-negatives
        rng = Rng()
        box["INV"] = lambda: [r for _, _, r in e.memo["argsorts"]][0]["INV"]
        out = f(a, p, k, rng)
        rec = [r for _, _, r in e.memo["argsorts"]][0]
        asc, INV = rec["asc"], rec["INV"]
        e.prove("sus:post:k-draws-in-the-requested-shape", z3.And(out.ndim == 1, _t(out.shape[0]) == k.t))
        e.prove("sus:entropy:one-offset-then-one-shuffle-on-the-given-generator",
                [c[0] for c in rng.calls] == ["uniform", "shuffle"] and rng.calls[0][3] is None)
        g = z3.Int(e.fresh_name("g"))
        e.assume(z3.And(0 <= g, g < k.t))
        sel_g = box["pre_shuffle"](g)
        w = n.t - 1 - INV(sel_g)
        e.prove("sus:post:selected-index-in-range", z3.And(0 <= sel_g, sel_g < n.t))
        e.prove("sus:post:zero-weight-never-selected", p.at(sel_g) > 0)
        # the pointers are the specification's: offset + g * sum/k with 0 <= offset < sum/k taken from the one uniform draw
        step = tot.t / z3.ToReal(k.t)
        off = z3.If(box["draw"].t >= step, z3.RealVal(0), box["draw"].t)
        e.prove("sus:post:pointer-g==offset+g*sum/k with 0<=offset<sum/k",
                z3.And(_t(box["ptrs"].shape[0]) == k.t, box["ptrs"].at(g) == off + step * z3.ToReal(g), 0 <= off, off < step))
        e.prove("sus:post:uniform-draw-requested-on-[0,sum/k)", z3.And(_t(rng.calls[0][1]) == 0, _t(rng.calls[0][2]) == step))
        e.prove("sus:post:pointer-g-is-served-by-the-position-that-owns-it", own(w, box["ptrs"].at(g), box["c"], box["npos"]))
        m_ = z3.Int(e.fresh_name("m"))
        e.assume(z3.And(0 <= m_, m_ < n.t))
        e.prove("sus:post:running-sums-are-those-of-the-weights-in-descending-order",
                z3.And(box["c"].at(m_) == z3.If(m_ == 0, z3.RealVal(0), box["c"].at(m_ - 1)) + p.at(asc.at(n.t - 1 - m_)),
                       z3.Implies(m_ >= 1, p.at(asc.at(n.t - 1 - m_)) <= p.at(asc.at(n.t - m_)))))
        e.prove("sus:post:output-is-a-permutation-of-the-selections", out.at(g) == a.at(box["pre_shuffle"](box["PI"](g))))
        # ownership restated on the sorted weights q[m] = p[asc[n-1-m]] and their running sums
        q = lambda m_: p.at(asc.at(n.t - 1 - m_))
        e.prove("sus:post:served-position-has-positive-weight", q(w) > 0)
        e.prove("sus:canary:first-element-always-selected", sel_g == asc.at(n.t - 1), expect="fail", timeout_ms=2000)
        return "ok"
    with npmodel.patched_numpy():
        outs = ex.explore(thunk)
    ctx.absorb(ex)
    raised = [o for o in outs if isinstance(o, sym.Raised)]
    ctx.record("sus:noraise", not raised, kind="noraise", detail="; ".join(repr(r) + r.tb[-1500:] for r in raised[:1]))
    ctx.record("sus:every-loop-cut", f.loops_cut == set(f.loops), kind="cover", detail=str(f.loops))
    ctx.record("sus:returns-on-some-path (cover)", any(o == "ok" for o in outs), kind="cover")
