"""C20 -- the breeding-programme loop (DESIGN §8 C20).

Operators and the logbook are *havoc* proxies: each call may return arbitrary
fresh containers (tokens; identity is what the contract talks about) and, by the
frame argument, may have mutated anything reachable from its arguments.  The
contracts are stated over a ghost trace:

advance(ngen, lbook):  pre  held containers == G.last, t_cur == t0
    loop invariant(k): t_cur == t0 + k ; held containers == last returned ; every kind called c0+k times
    body(k):           exactly [pselect, log_pselect, mate, log_mate, evaluate, log_evaluate, sselect, log_sselect];
                       every operator/log call receives exactly the five containers returned by its predecessor,
                       mate additionally the configuration returned by pselect, time index t0+k, t_max unchanged,
                       a fresh miscout dict; no start_* container is ever passed
    post:              t_cur == t0 + max(ngen,0) ; held == last returned ; start_* attributes not assigned
reset():               five working containers are deep copies (fresh objects) of the five start containers, t_cur == 0
evolve(nrep, ngen, lbook, loginit): loop invariant(r): lbook.rep == rep0 + r ; start_* not assigned;
    body(r): [rep += 1, reset, evaluate@0 on the fresh copies, (log_initialize@0), t_cur == 1, advance(ngen, lbook)]
"""
import numpy, z3
from pyvc.unit import unit
from pyvc import sym, npmodel, loopcut
from pyvc.sym import cur, _t, fresh_int, SymInt
from pyvc.loopcut import Token

P = "C20"
F = "pybrops/breed/arch/RecurrentSelectionBreedingProgram.py"
CLS = "RecurrentSelectionBreedingProgram"
NAMES = ["genome", "geno", "pheno", "bval", "gmod"]
REPLAYERS = {}
try:
    from contracts.rings import C20 as _ring
    REPLAYERS.update(getattr(_ring, "REPLAYERS", {}))
except ImportError:
    _ring = None

CYCLE = ["pselect", "log_pselect", "mate", "log_mate", "evaluate", "log_evaluate", "sselect", "log_sselect"]
TRUST = ["copy.deepcopy(x) returns a new object equal to x that shares no mutable state with x",
         "operators/logbook: arbitrary implementations; may mutate what they receive, never hold references to start_* containers"]


class Ghost:
    def __init__(self):
        self.calls = []
        self.last = None
        self.starts = ()
        self.t = None            # expected time index (z3 term)
        self.mcfg = None
        self.n = {}
        self.tmax = None
        self.fn = ""
        self.miscs = []


def _new_state(e, tag):
    return tuple(Token(e.fresh_name("%s_%s" % (tag, n))) for n in NAMES)


class Ops:
    """proxy for one operator object or the logbook"""

    def __init__(self, G):
        self.G = G
        self.rep = None

    def _check(self, kind, kw, want_mcfg=False, want_misc=True):
        e, G = cur(), self.G
        pos = len(G.calls)
        tag = "%s:%s#%d" % (G.fn, kind, pos)
        e.prove(tag + ":receives-state-returned-by-predecessor",
                all(kw.get(n) is G.last[i] for i, n in enumerate(NAMES)), kind="call-pre")
        e.prove(tag + ":no-start-container-passed",
                not any(any(v is s for s in G.starts) for v in kw.values()), kind="call-pre")
        e.prove(tag + ":time-index", _t(kw.get("t_cur")) == G.t, kind="call-pre")
        e.prove(tag + ":t_max-forwarded", kw.get("t_max") is G.tmax, kind="call-pre")
        if want_mcfg:
            e.prove(tag + ":receives-configuration-from-pselect", kw.get("mcfg") is G.mcfg and G.mcfg is not None, kind="call-pre")
        if want_misc:
            m = kw.get("miscout")
            e.prove(tag + ":fresh-empty-miscout", isinstance(m, dict) and len(m) == 0 and not any(m is x for x in G.miscs),
                    kind="call-pre")
            G.miscs.append(m)
        G.calls.append(kind)
        G.n[kind] = sym.wrap(_t(G.n.get(kind, 0)) + 1)

    def _ret(self, kind):
        G = self.G
        G.last = _new_state(cur(), "ret_" + kind)
        return G.last

    def pselect(self, **kw):
        self._check("pselect", kw)
        self.G.mcfg = Token(cur().fresh_name("mcfg"))
        return (self.G.mcfg,) + self._ret("pselect")

    def mate(self, **kw):
        self._check("mate", kw, want_mcfg=True)
        return self._ret("mate")

    def evaluate(self, **kw):
        self._check("evaluate", kw)
        return self._ret("evaluate")

    def sselect(self, **kw):
        self._check("sselect", kw)
        return self._ret("sselect")

    def initialize(self, **kw):
        self.G.calls.append("initialize")
        self.G.init_ret = _new_state(cur(), "init")
        return self.G.init_ret

    # logbook
    def _log(self, kind, kw, want_mcfg=False):
        self._check(kind, kw, want_mcfg=want_mcfg, want_misc=False)

    def log_pselect(self, **kw): self._log("log_pselect", kw, True)
    def log_mate(self, **kw): self._log("log_mate", kw, True)
    def log_evaluate(self, **kw): self._log("log_evaluate", kw)
    def log_sselect(self, **kw): self._log("log_sselect", kw)
    def log_initialize(self, **kw): self._log("log_initialize", kw)


def _make_bp(G, initialized=True):
    import importlib
    cls = getattr(importlib.import_module(F[:-3].replace("/", ".")), CLS)
    e = cur()
    bp = object.__new__(cls)
    ops = Ops(G)
    for a in ("_initop", "_pselop", "_mateop", "_evalop", "_sselop"):
        object.__setattr__(bp, a, ops)
    starts = tuple(Token("start_" + n) for n in NAMES) if initialized else (None,) * 5
    for n, s in zip(NAMES, starts):
        object.__setattr__(bp, "_start_" + n, s)
    work = _new_state(e, "work")
    for n, w in zip(NAMES, work):
        object.__setattr__(bp, "_" + n, w)
    G.starts = tuple(s for s in starts if s is not None)
    G.last = work
    t0 = fresh_int("t0")
    object.__setattr__(bp, "_t_cur", t0)
    G.tmax = fresh_int("tmax")
    object.__setattr__(bp, "_t_max", G.tmax)
    G.t = t0.t
    return bp, ops, starts, t0


def _held(bp):
    return tuple(getattr(bp, "_" + n) for n in NAMES)


def _starts_unassigned(bp, starts):
    return all(getattr(bp, "_start_" + n) is s for n, s in zip(NAMES, starts))


PATCH = ["pybrops.core.error.error_type_python"]


@unit(P, "loop[advance]", "A2", targets=[F + ":%s.advance" % CLS])
def u_advance(ctx):
    G = Ghost()
    G.fn = "advance"
    box = {}

    def inv(st):
        bp, k = st["self"], st["_k"]
        d = {}
        if st["_phase"] == "preserve":
            d["hint:body-is-one-cycle-in-order"] = (G.calls == CYCLE)
        d["time-index"] = _t(bp._t_cur) == box["t0"].t + _t(k)
        d["held-state-is-last-returned"] = all(a is b for a, b in zip(_held(bp), G.last))
        d["each-kind-called-k-times"] = z3.And(*[_t(G.n.get(c, 0)) == _t(k) for c in CYCLE])
        d["start-attributes-not-assigned"] = _starts_unassigned(bp, box["starts"])
        return d

    def on_havoc(loc, L):
        bp = loc["self"]
        G.calls = []
        G.last = _held(bp)
        G.mcfg = None
        G.t = _t(bp._t_cur)
        for c in CYCLE:
            G.n[c] = L.k
    inv.on_havoc = on_havoc
    f = loopcut.Extracted(F + ":%s.advance" % CLS, loop_specs={"0": inv})
    ctx.trust(*TRUST)
    ex = ctx.explorer()

    def thunk():
        e = cur()
        G.calls, G.n, G.mcfg, G.miscs = [], {}, None, []
        bp, ops, starts, t0 = _make_bp(G)
        box.update(t0=t0, starts=starts)
        ngen = fresh_int("ngen")
        f(bp, ngen, ops, False)
        done = sym.ite(ngen > 0, ngen, 0)
        e.prove("advance:post:time-index-advanced-by-ngen", _t(bp._t_cur) == t0.t + _t(done))
        e.prove("advance:post:held-state-is-last-returned", all(a is b for a, b in zip(_held(bp), G.last)))
        e.prove("advance:post:cycles-run", z3.And(*[_t(G.n.get(c, 0)) == _t(done) for c in CYCLE]))
        e.prove("advance:frame:start-attributes-not-assigned", _starts_unassigned(bp, starts))
        e.prove("advance:canary:time-index-off-by-one", _t(bp._t_cur) == t0.t + _t(done) + 1, expect="fail", timeout_ms=1500)
        return "ret"
    with npmodel.patched_numpy(), loopcut.patched_modules(PATCH):
        outs = ex.explore(thunk)
    ctx.absorb(ex)
    raised = [o for o in outs if isinstance(o, sym.Raised)]
    ctx.record("advance:noraise", not raised, kind="noraise", detail="; ".join(repr(r) + r.tb[-600:] for r in raised))
    ctx.record("advance:returns (cover)", any(o == "ret" for o in outs), kind="cover")
    ctx.record("advance:loop-cut", f.loops_cut == {"0"}, kind="cover", detail=str(f.loops))


class CopyProxy:
    def __init__(self, G):
        self.G = G
        self.made = []

    def deepcopy(self, x, memo=None):
        t = Token(cur().fresh_name("deepcopy"), origin=x)
        self.made.append(t)
        return t

    def copy(self, x):
        # a shallow copy shares the objects nested in x: recorded, and rejected by the postcondition
        t = Token(cur().fresh_name("shallowcopy"), origin=x)
        t.shallow = True
        self.made.append(t)
        return t


@unit(P, "straightline[reset]", "A2", targets=[F + ":%s.reset" % CLS])
def u_reset(ctx):
    G = Ghost()
    cp = CopyProxy(G)
    f = loopcut.Extracted(F + ":%s.reset" % CLS, overrides={"copy": cp})
    ctx.trust(*TRUST)
    ex = ctx.explorer()

    def thunk():
        e = cur()
        cp.made = []
        bp, ops, starts, t0 = _make_bp(G)
        before = _held(bp)
        f(bp)
        held = _held(bp)
        e.prove("reset:post:working-containers-are-deep-copies-of-start-containers",
                all(isinstance(h, Token) and h.origin is s and not getattr(h, "shallow", False)
                    for h, s in zip(held, starts)))
        e.prove("reset:post:copies-are-fresh-objects",
                all(not any(h is x for x in tuple(starts) + tuple(before)) for h in held) and len({id(h) for h in held}) == 5)
        e.prove("reset:post:time-index-zero", _t(bp._t_cur) == 0)
        e.prove("reset:frame:start-attributes-not-assigned", _starts_unassigned(bp, starts))
        e.prove("reset:calls-no-operator", G.calls == [])
        e.prove("reset:canary:shares-start-container", held[4] is starts[4], expect="fail")
        return "ret"
    with loopcut.patched_modules(PATCH):
        outs = ex.explore(thunk)
    ctx.absorb(ex)
    raised = [o for o in outs if isinstance(o, sym.Raised)]
    ctx.record("reset:noraise", not raised, kind="noraise", detail="; ".join(repr(r) + r.tb[-600:] for r in raised))
    ctx.record("reset:returns (cover)", any(o == "ret" for o in outs), kind="cover")


@unit(P, "loop[evolve]", "A2", targets=[F + ":%s.evolve" % CLS, F + ":%s.initialize" % CLS, F + ":%s.is_initialized" % CLS])
def u_evolve(ctx):
    G = Ghost()
    G.fn = "evolve"
    box = {}

    def expected_body(loginit):
        return ["reset", "evaluate"] + (["log_initialize"] if loginit else []) + ["advance"]

    def inv(st):
        bp, k, lb = st["self"], st["_k"], st["lbook"]
        d = {}
        if st["_phase"] == "preserve":
            d["hint:body-is-reset-evaluate-log-advance"] = (G.calls == expected_body(box["loginit"]))
            d["hint:replicate-evaluates-fresh-copies-at-time-zero"] = box.get("eval_ok", False)
            d["hint:advance-called-at-time-one-with-ngen-and-lbook"] = box.get("adv_ok", False)
        if st["_phase"] == "init":
            # the start containers as they are when the replicate loop is entered (after initialize(), if it ran)
            box["starts_loop"] = tuple(getattr(bp, "_start_" + n) for n in NAMES)
            G.starts = tuple(s for s in box["starts_loop"] if s is not None)
            d["initialised-before-first-replicate"] = all(s is not None for s in box["starts_loop"])
        d["lbook.rep-counts-replicates"] = _t(lb.rep) == box["rep0"].t + _t(k)
        d["start-attributes-not-assigned"] = _starts_unassigned(bp, box["starts_loop"])
        return d

    def on_havoc(loc, L):
        bp = loc["self"]
        G.calls = []
        G.last = _held(bp)
        G.t = _t(bp._t_cur)
        box["eval_ok"] = box["adv_ok"] = False
    inv.on_havoc = on_havoc
    inv.extra_attrs = [("self", n) for n in NAMES] + [("self", "_t_cur")]
    f = loopcut.Extracted(F + ":%s.evolve" % CLS, loop_specs={"0": inv})
    ctx.trust(*TRUST)
    ctx.assume_note("reset() and advance() are used through their contracts (proved in their own units)")
    ex = ctx.explorer()

    def thunk():
        e = cur()
        G.calls, G.n, G.mcfg, G.miscs = [], {}, None, []
        G.__dict__.pop("init_ret", None)
        initialized = e.fork("initialized")
        loginit = e.fork("loginit")
        box["loginit"] = loginit
        bp, ops, starts, t0 = _make_bp(G, initialized)
        ngen = fresh_int("ngen")
        nrep = fresh_int("nrep")
        ops.rep = fresh_int("rep0")
        box["rep0"] = ops.rep

        # contract stubs of the two callees (instance attributes shadow the methods)
        def reset_stub(**kw):
            G.calls.append("reset")
            cur_starts = tuple(getattr(bp, "_start_" + n) for n in NAMES)
            fresh = tuple(Token(e.fresh_name("deepcopy"), origin=s) for s in cur_starts)
            for n, t in zip(NAMES, fresh):
                setattr(bp, n, t)
            bp.t_cur = 0
            G.last = fresh
            G.t = z3.IntVal(0)
            box["reset_copies"] = fresh

        def advance_stub(ngen=None, lbook=None, verbose=False, **kw):
            e.prove("evolve:advance-call:time-index-is-one", _t(bp._t_cur) == 1, kind="call-pre")
            e.prove("evolve:advance-call:held-state-is-last-returned", all(a is b for a, b in zip(_held(bp), G.last)), kind="call-pre")
            box["adv_ok"] = (ngen is box["ngen"]) and (lbook is ops)
            G.calls.append("advance")
            new = _new_state(e, "adv")
            for n, t in zip(NAMES, new):
                object.__setattr__(bp, "_" + n, t)
            G.last = new
            object.__setattr__(bp, "_t_cur", sym.wrap(_t(bp._t_cur) + z3.If(_t(ngen) > 0, _t(ngen), 0)))
        object.__setattr__(bp, "reset", reset_stub)
        object.__setattr__(bp, "advance", advance_stub)
        box.update(starts=tuple(getattr(bp, "_start_" + n) for n in NAMES), ngen=ngen)

        # the evaluation of the freshly reset population is recognised by wrapping the proxy
        real_eval = ops.evaluate

        def evaluate(**kw):
            if G.calls and G.calls[-1] == "reset":
                box["eval_ok"] = all(kw.get(n) is c for n, c in zip(NAMES, box["reset_copies"])) and \
                    bool(z3.is_true(z3.simplify(_t(kw.get("t_cur")) == 0)))
            return real_eval(**kw)
        ops.evaluate = evaluate
        f(bp, nrep, ngen, ops, loginit, False)
        if not initialized:
            # initialize() must have installed the five containers returned by the initialisation operator
            e.prove("evolve:initialises-when-needed", getattr(G, "init_ret", None) is not None and
                    all(getattr(bp, "_start_" + n) is t for n, t in zip(NAMES, G.init_ret)))
        done = sym.ite(nrep > 0, nrep, 0)
        e.prove("evolve:post:lbook.rep-advanced-by-nrep", _t(ops.rep) == box["rep0"].t + _t(done))
        e.prove("evolve:frame:start-attributes-not-assigned-after-initialisation",
                _starts_unassigned(bp, tuple(getattr(bp, "_start_" + n) for n in NAMES)) and
                (not initialized or _starts_unassigned(bp, starts)))
        return "ret"
    with npmodel.patched_numpy(), loopcut.patched_modules(PATCH):
        outs = ex.explore(thunk)
    ctx.absorb(ex)
    raised = [o for o in outs if isinstance(o, sym.Raised)]
    ctx.record("evolve:noraise", not raised, kind="noraise", detail="; ".join(repr(r) + r.tb[-600:] for r in raised))
    ctx.record("evolve:returns (cover)", sum(1 for o in outs if o == "ret") >= 4, kind="cover",
               detail="returning paths: %d (expected >= 4: initialised x loginit)" % sum(1 for o in outs if o == "ret"))
    ctx.record("evolve:loop-cut", f.loops_cut == {"0"}, kind="cover", detail=str(f.loops))


@unit(P, "straightline[__init__]: every operator and every start container is stored under its own name", "A2", targets=[F + ":%s.__init__" % CLS])
def u_init(ctx):
    """the initial state the replicates are reset to is what the caller handed over: `start_genome` holds the genome container that was
    passed (the object itself or a copy with the same content), `start_geno` the geno container, and so on; operators and t_max likewise"""
    import copy as _copy
    names = ["initop", "pselop", "mateop", "evalop", "sselop", "t_max", "start_genome", "start_geno", "start_pheno", "start_bval", "start_gmod"]
    args = {}
    for nm in names:
        tok = loopcut.Token("arg:" + nm)
        tok["content-of"] = nm                     # survives copy / deepcopy: the content identifies the argument
        args[nm] = tok
    args["t_max"] = 7
    class Rec:
        pass
    me = Rec()
    f = loopcut.Extracted(F + ":%s.__init__" % CLS, overrides={"super": lambda *a, **k: type("S", (), {"__init__": lambda self, **kw: None})()})
    try:
        f(me, **args)
        err = None
    except Exception as x:      # noqa
        err = "%s: %s" % (type(x).__name__, x)
    ctx.record("__init__:noraise", err is None, kind="noraise", detail=err or "")
    for nm in (names if err is None else []):
        v = getattr(me, nm, None) if err is None else None
        if nm == "t_max":
            ok = v == 7
        else:
            ok = isinstance(v, dict) and v.get("content-of") == nm
        ctx.prove("__init__: self.%s is the %s argument (itself or a copy of it)" % (nm, nm), [], bool(ok))
    if err is None:
        ctx.prove("__init__: the time index starts at 0", [], getattr(me, "t_cur", None) == 0)
    ctx.prove("canary: start_geno holds the genome container", [], err is None and isinstance(getattr(me, "start_geno", None), dict)
              and me.start_geno.get("content-of") == "start_genome", expect="fail", timeout_ms=1000)
