"""C04 -- see DESIGN.md §8 C04."""
from pyvc.unit import unit
P = "C04"
REPLAYERS = {}
try:
    from contracts.rings import C04 as _ring
    REPLAYERS.update(getattr(_ring, "REPLAYERS", {}))
except ImportError:
    _ring = None
