"""C04 -- see DESIGN.md §8 C04."""
from pyvc.unit import unit
P = "C04"
REPLAYERS = {}
try:
    from contracts.rings import C04 as _ring
    REPLAYERS.update(getattr(_ring, "REPLAYERS", {}))
except ImportError:
    _ring = None

import functools
import numpy, z3
from pyvc import sym, barr, modeb, loopcut
from pyvc.sym import cur, _t, ite

GMA = "pybrops/model/gmod/DenseAdditiveLinearGenomicModel.py"
GMD = "pybrops/model/gmod/DenseAdditiveDominanceLinearGenomicModel.py"
R = lambda x: (z3.ToReal(_t(x)) if _t(x).sort() == z3.IntSort() else _t(x))


def _pop(n, p):
    from pybrops.popgen.gmat.DensePhasedGenotypeMatrix import DensePhasedGenotypeMatrix
    from pybrops.popgen.gmat.DenseGenotypeMatrix import DenseGenotypeMatrix
    mat = barr.fresh("h", (2, n, p), "int8", 0, 1)
    taxa = numpy.array(["T%d" % i for i in range(n)], dtype=object)
    grp = numpy.asarray(list(range(n)), dtype="int64")
    pg = DensePhasedGenotypeMatrix(mat=mat, taxa=taxa, taxa_grp=grp)
    ug = DenseGenotypeMatrix(mat=mat.sum(0).astype("int8"), taxa=taxa.copy(), taxa_grp=grp.copy(), ploidy=2)
    dos = [[mat[0, i, j] + mat[1, i, j] for j in range(p)] for i in range(n)]
    return pg, ug, mat, dos, taxa, grp


@unit(P, "B[gebv/gegv == intercept contrast + dosage x effects (+ heterozygosity x dominance effects); labels carried; input-form independent]",
      "B", bounded=True, targets=[GMA + ":DenseAdditiveLinearGenomicModel.gebv", GMA + ":DenseAdditiveLinearGenomicModel.gebv_numpy",
                                  GMD + ":DenseAdditiveDominanceLinearGenomicModel.gegv"],
      note="bounded(shape): ntaxa<=2, nvrnt<=2, ntrait<=2, nfixed<=2; genotypes, effects, intercepts symbolic; the scaled output "
           "matrix is intercepted at from_numpy (its round trip is C15)")
def u_b_predict(ctx):
    captured = []

    class BV:
        @staticmethod
        def from_numpy(mat=None, taxa=None, taxa_grp=None, trait=None, **kw):
            captured.append(dict(mat=mat, taxa=taxa, taxa_grp=taxa_grp, trait=trait))
            return ("bvmat", len(captured))
    fa = loopcut.Extracted(GMA + ":DenseAdditiveLinearGenomicModel.gebv", overrides={"DenseGenomicEstimatedBreedingValueMatrix": BV})
    fd = loopcut.Extracted(GMD + ":DenseAdditiveDominanceLinearGenomicModel.gegv", overrides={"DenseGenomicEstimatedBreedingValueMatrix": BV})

    def body(e, shape, tag):
        from pybrops.model.gmod.DenseAdditiveLinearGenomicModel import DenseAdditiveLinearGenomicModel as A
        from pybrops.model.gmod.DenseAdditiveDominanceLinearGenomicModel import DenseAdditiveDominanceLinearGenomicModel as D
        n, p, t, q = shape
        pg, ug, mat, dos, taxa, grp = _pop(n, p)
        beta = barr.fresh("beta", (q, t), "float64")
        ua = barr.fresh("ua", (p, t), "float64")
        ud = barr.fresh("ud", (p, t), "float64")
        trait = numpy.array(["t%d" % i for i in range(t)], dtype=object)
        ma = A(beta=beta, u_misc=None, u_a=ua, trait=trait)
        md = D(beta=beta, u_misc=None, u_a=ua, u_d=ud, trait=trait)
        fr = modeb.Frame(mat=mat, beta=beta, ua=ua, ud=ud)
        icpt = [R(beta[0, k]) + sum((R(beta[l, k]) for l in range(1, q)), z3.RealVal(0)) / q for k in range(t)]
        add = [[icpt[k] + sum((R(dos[i][j]) * R(ua[j, k]) for j in range(p)), z3.RealVal(0)) for k in range(t)] for i in range(n)]
        het = [[z3.If(z3.And(_t(dos[i][j]) != 0, _t(dos[i][j]) != 2), z3.RealVal(1), z3.RealVal(0)) for j in range(p)] for i in range(n)]
        dom = [[add[i][k] + sum((het[i][j] * R(ud[j, k]) for j in range(p)), z3.RealVal(0)) for k in range(t)] for i in range(n)]
        raw = mat.sum(0).astype("int8")
        for nm, model, f, spec in (("gebv", ma, fa, add), ("gegv", md, fd, dom)):
            for form, gt in (("phased", pg), ("unphased", ug), ("raw", raw)):
                del captured[:]
                out = f(model, gt)
                e.prove("%s:%s(%s):one-output-built-by-from_numpy" % (tag, nm, form), len(captured) == 1 and out == ("bvmat", 1))
                c = captured[0]
                e.prove("%s:%s(%s):values==definition" % (tag, nm, form),
                        z3.And(*[R(c["mat"][i, k]) == spec[i][k] for i in range(n) for k in range(t)]))
                if form != "raw":
                    e.prove("%s:%s(%s):taxon-labels-carried" % (tag, nm, form),
                            list(c["taxa"]) == list(taxa) and [int(x) for x in c["taxa_grp"]] == list(range(n)) and list(c["trait"]) == list(trait))
        e.prove(tag + ":frame:genotypes-effects-intercepts-not-modified", fr.unchanged())
        gn = ma.gebv_numpy(raw)
        e.prove(tag + ":gebv_numpy==Z@u_a", z3.And(*[R(gn[i, k]) == add[i][k] - icpt[k] for i in range(n) for k in range(t)]))
        return "ok"
    shapes = [(1, 1, 1, 1), (2, 1, 2, 1), (2, 2, 1, 2)] + ([(2, 2, 2, 2), (3, 2, 1, 1)] if ctx.tier == "thorough" else [])
    modeb.run_shapes(ctx, "predict", shapes, body)


@unit(P, "B[favourable / deleterious / neutral allele counts, availability, fixation and polymorphism flags == definitions]", "B",
      bounded=True, targets=[GMA + ":DenseAdditiveLinearGenomicModel.facount", GMA + ":DenseAdditiveLinearGenomicModel.dacount"],
      note="bounded(shape): ntaxa<=2, nvrnt<=2, ntrait<=2; genotypes and effects (all signs, exact zeros) symbolic")
def u_b_alleles(ctx):
    def body(e, shape, tag):
        from pybrops.model.gmod.DenseAdditiveLinearGenomicModel import DenseAdditiveLinearGenomicModel as A
        n, p, t = shape
        pg, ug, mat, dos, taxa, grp = _pop(n, p)
        ua = barr.fresh("ua", (p, t), "float64")
        m = A(beta=barr.fresh("beta", (1, t), "float64"), u_misc=None, u_a=ua, trait=numpy.array(["t%d" % i for i in range(t)], dtype=object))
        tot = 2 * n
        cnt = [sum((dos[i][j] for i in range(n)), 0) for j in range(p)]
        for gname, g in (("phased", pg), ("unphased", ug)):
            fa, da = m.facount(g), m.dacount(g)
            ok = []
            for j in range(p):
                for k in range(t):
                    u, c = R(ua[j, k]), _t(cnt[j])
                    fav = z3.If(u > 0, c, z3.If(u < 0, tot - c, 0))
                    dele = z3.If(u < 0, c, z3.If(u > 0, tot - c, 0))
                    ok.append(z3.And(_t(fa[j, k]) == fav, _t(da[j, k]) == dele))
            e.prove("%s:%s:facount/dacount==definition" % (tag, gname), z3.And(*ok))
            av, fx, po = m.faavail(g), m.fafixed(g), m.fapoly(g)
            nf, npo = m.nafixed(g), m.napoly(g)
            fl = []
            for j in range(p):
                for k in range(t):
                    u, c = R(ua[j, k]), _t(cnt[j])
                    fav = z3.If(u > 0, c, z3.If(u < 0, tot - c, 0))
                    fl.append(z3.And(_t(av[j, k]) == (fav > 0), _t(fx[j, k]) == (fav == tot), _t(po[j, k]) == z3.And(fav > 0, fav < tot),
                                     _t(nf[j, k]) == z3.And(u == 0, z3.Or(c == 0, c == tot)), _t(npo[j, k]) == z3.And(u == 0, c > 0, c < tot)))
            e.prove("%s:%s:availability/fixation/polymorphism/neutral flags==definition" % (tag, gname), z3.And(*fl))
        return "ok"
    modeb.run_shapes(ctx, "alleles", [(1, 1, 1), (2, 1, 2), (2, 2, 1)], body, max_paths=20000)


@unit(P, "B[var_A == population variance of the breeding values, var_a == ploidy^2 * sum u^2 p(1-p), Bulmer ratio, input-form independent]", "B",
      bounded=True, targets=[GMA + ":DenseAdditiveLinearGenomicModel.var_A", GMA + ":DenseAdditiveLinearGenomicModel.var_A_numpy",
                             GMA + ":DenseAdditiveLinearGenomicModel.var_a", GMA + ":DenseAdditiveLinearGenomicModel.var_a_numpy",
                             GMA + ":DenseAdditiveLinearGenomicModel.bulmer"],
      note="bounded(shape): ntaxa<=3, nvrnt<=2, ntrait<=2; genotypes, effects and intercepts symbolic")
def u_b_variances(ctx):
    def body(e, shape, tag):
        from pybrops.model.gmod.DenseAdditiveLinearGenomicModel import DenseAdditiveLinearGenomicModel as A
        n, p, t = shape
        pg, ug, mat, dos, taxa, grp = _pop(n, p)
        beta = barr.fresh("beta", (1, t), "float64")
        ua = barr.fresh("ua", (p, t), "float64")
        trait = numpy.array(["t%d" % i for i in range(t)], dtype=object)
        ma = A(beta=beta, u_misc=None, u_a=ua, trait=trait)
        raw = mat.sum(0).astype("int8")
        bv = [[sum((R(dos[i][j]) * R(ua[j, k]) for j in range(p)), z3.RealVal(0)) for k in range(t)] for i in range(n)]
        freq = [sum((R(dos[i][j]) for i in range(n)), z3.RealVal(0)) / (2 * n) for j in range(p)]
        for form, gt in (("phased", pg), ("unphased", ug), ("raw", raw)):
            vA = ma.var_A(gt)
            va = ma.var_a(gt)
            for k in range(t):
                mean = sum((bv[i][k] for i in range(n)), z3.RealVal(0)) / n
                spec_A = sum(((bv[i][k] - mean) * (bv[i][k] - mean) for i in range(n)), z3.RealVal(0)) / n
                e.prove("%s:var_A(%s)[%d]==population variance of the breeding values" % (tag, form, k), R(vA[k]) == spec_A)
                spec_a = 4 * sum((R(ua[j, k]) * R(ua[j, k]) * freq[j] * (1 - freq[j]) for j in range(p)), z3.RealVal(0))
                e.prove("%s:var_a(%s)[%d]==ploidy^2*sum u^2 p(1-p)" % (tag, form, k), R(va[k]) == spec_a)
        bul = ma.bulmer(pg)
        vA, va = ma.var_A(pg), ma.var_a(pg)
        # the ratio obligations are nonlinear (a quotient of two quadratic forms): kept to the shapes on which they are decided quickly
        # whatever the machine load; larger shapes keep the two variances
        for k in range(t if n * p * t <= 4 else 0):
            isnan = isinstance(bul[k], float) and bul[k] != bul[k]
            if isnan:
                e.prove("%s:bulmer[%d] is NaN only when the genic variance is zero" % (tag, k), R(va[k]) == 0)
            else:
                e.prove("%s:bulmer[%d]==var_A/var_a" % (tag, k), z3.And(R(va[k]) != 0, R(bul[k]) * R(va[k]) == R(vA[k])))
        # the numpy-level forms with an explicit ploidy (tetraploid): genic variance scales with ploidy^2, the ratio uses THAT variance
        Z4 = barr.fresh("z4", (n, p), "int8", 0, 4)
        pf = barr.fresh("pf", (p,), "float64")
        for j in range(p):
            e.assume(z3.And(R(pf[j]) >= 0, R(pf[j]) <= 1))
        va4 = ma.var_a_numpy(pf, 4)
        vA4 = ma.var_A_numpy(Z4)
        bul4 = ma.bulmer_numpy(Z4, pf, 4)
        for k in range(t if n * p * t <= 4 else 0):
            spec_a4 = 16 * sum((R(ua[j, k]) * R(ua[j, k]) * R(pf[j]) * (1 - R(pf[j])) for j in range(p)), z3.RealVal(0))
            e.prove("%s:var_a_numpy(p, ploidy=4)[%d]==16*sum u^2 p(1-p)" % (tag, k), R(va4[k]) == spec_a4)
            if isinstance(bul4[k], float) and bul4[k] != bul4[k]:
                e.prove("%s:bulmer_numpy(Z, p, ploidy=4)[%d] is NaN only when the tetraploid genic variance is zero" % (tag, k), spec_a4 == 0)
            else:
                e.prove("%s:bulmer_numpy(Z, p, ploidy=4)[%d]==var_A_numpy(Z)/var_a_numpy(p, 4)" % (tag, k),
                        z3.And(spec_a4 != 0, R(bul4[k]) * spec_a4 == R(vA4[k])))
        return "ok"
    shapes = [(1, 1, 1), (2, 1, 1), (2, 2, 1)] + ([(3, 1, 2), (2, 2, 2)] if ctx.tier == "thorough" else [])    # (3, 2, 1): the Bulmer ratio stays `unknown`
    modeb.run_shapes(ctx, "variances", shapes, body, timeout_ms=20000)


TBV = "pybrops/breed/prot/bv/TrueBreedingValue.py"


@unit(P, "A1[TrueBreedingValue.estimate hands out the bound model's gebv of the given genotypes (breeding, not genotypic, values)]", "A1",
      targets=[TBV + ":TrueBreedingValue.estimate"])
def u_true_bv(ctx):
    """wiring contract of the thin wrapper: the result IS `self.gpmod.gebv(gtobj)` -- computed by the bound model, from the genotype
    object that was passed, and it is the breeding-value routine (a model with non-additive effects answers gegv differently);
    whatever `ptobj` is -- an opaque phenotype object, or a breeding-value matrix of the same size as the genotypes -- it is not the answer"""
    from pyvc import loopcut
    from pybrops.breed.prot.bv.TrueBreedingValue import TrueBreedingValue as _Real
    from pybrops.popgen.bvmat.DenseBreedingValueMatrix import DenseBreedingValueMatrix
    from pybrops.popgen.gmat.DenseGenotypeMatrix import DenseGenotypeMatrix
    f = loopcut.Extracted(TBV + ":TrueBreedingValue.estimate")

    class PT(DenseBreedingValueMatrix):          # a real breeding-value matrix type of matching size (estimated values, say)
        ntaxa, ntrait, taxa, taxa_grp, trait = 3, 2, None, None, None

    class GT(DenseGenotypeMatrix):
        ntaxa, nvrnt, ploidy, taxa, taxa_grp = 3, 4, 2, None, None

    for label, pt, gt in (("opaque ptobj", loopcut.Token("ptobj"), loopcut.Token("gtobj")),
                          ("ptobj a breeding-value matrix of matching size", object.__new__(PT), object.__new__(GT))):
        calls = []
        bv, gv = loopcut.Token("gebv-result"), loopcut.Token("gegv-result")

        from pybrops.model.gmod.DenseAdditiveLinearGenomicModel import DenseAdditiveLinearGenomicModel as _GM

        class GP:
            ntrait = 2
        gp = GP()
        # the model stand-in accepts exactly the calls the real methods accept (positional or by the library's keyword names)
        gp.gebv = loopcut.like(functools.partial(_GM.gebv, None), lambda gtobj, **kw: (calls.append(("gebv", gtobj, (), kw)), bv)[1])
        gp.gegv = loopcut.like(functools.partial(_GM.gegv, None), lambda gtobj, **kw: (calls.append(("gegv", gtobj, (), kw)), gv)[1])
        me = loopcut.stub_of(_Real)
        me.gpmod = gp
        try:
            out = f(me, pt, gt)
            err = None
        except Exception as x:       # noqa
            out, err = None, "%s: %s" % (type(x).__name__, x)
        ctx.record("estimate[%s]:noraise" % label, err is None, kind="noraise", detail=err or "")
        if err is not None:
            continue            # the stand-ins could not follow the code: nothing is concluded from what did not run
        ctx.prove("estimate[%s]: exactly one model call, the breeding-value routine, on the genotypes passed in" % label, [],
                  len(calls) == 1 and calls[0][0] == "gebv" and calls[0][1] is gt)
        ctx.prove("estimate[%s]: returns what the model returned" % label, [], out is bv)
        ctx.prove("canary[%s]: estimate returns the genotypic values" % label, [], out is gv, expect="fail", timeout_ms=1000)


RR = "pybrops/model/gmod/rrBLUPModel0.py"


@unit(P, "A1[rrBLUPModel0.fit hands fit_numpy the unscaled phenotypes and the {0,1,2} dosages of the objects it was given]", "A1",
      targets=[RR + ":rrBLUPModel0.fit"])
def u_rr_fit(ctx):
    """wiring contract of the object-level wrapper: the model is fitted on the coding every prediction routine uses (allele dosages
    {0,1,2}), on the original-scale phenotypes, and the result of fit_numpy is returned; raw arrays are passed through untouched"""
    from pyvc import loopcut
    from pybrops.model.gmod.rrBLUPModel0 import rrBLUPModel0 as _Real
    from pybrops.popgen.bvmat.DenseBreedingValueMatrix import DenseBreedingValueMatrix
    from pybrops.popgen.gmat.DenseGenotypeMatrix import DenseGenotypeMatrix
    f = loopcut.Extracted(RR + ":rrBLUPModel0.fit")
    raw_y, dos = loopcut.Token("unscaled phenotypes"), {}
    asked = []

    class PT(DenseBreedingValueMatrix):
        def unscale(self, *a, **kw):
            return raw_y

    class GT(DenseGenotypeMatrix):
        def mat_asformat(self, format, *a, **kw):
            asked.append(format)
            return dos.setdefault(format, loopcut.Token("dosages in coding " + str(format)))
    y_arr, z_arr = numpy.zeros((3, 1)), numpy.zeros((3, 2), dtype="int8")
    for label, pt, gt, want_y, want_z in (("matrix objects", object.__new__(PT), object.__new__(GT), raw_y, "{0,1,2}"),
                                          ("raw arrays", y_arr, z_arr, y_arr, None)):
        calls = []
        fitted = loopcut.Token("fitted model")

        def _fit_numpy(Y, X, Z, **kw):
            calls.append((Y, X, Z, (), kw))
            return fitted

        class K:
            fit_numpy = staticmethod(loopcut.like(_Real.fit_numpy, _fit_numpy))
        del asked[:]
        try:
            out = f(K, pt, None, gt)
            err = None
        except Exception as x:       # noqa
            out, err = None, "%s: %s" % (type(x).__name__, x)
        ctx.record("fit[%s]:noraise" % label, err is None, kind="noraise", detail=err or "")
        if err is not None:
            continue
        ok = len(calls) == 1
        ctx.prove("fit[%s]: phenotypes handed to fit_numpy are the original-scale values" % label, [], ok and calls[0][0] is want_y)
        ctx.prove("fit[%s]: genotypes handed to fit_numpy are the {0,1,2} allele dosages" % label, [],
                  ok and (calls[0][2] is z_arr if want_z is None else (asked == [want_z] and calls[0][2] is dos.get(want_z))))
        ctx.prove("fit[%s]: returns the model fit_numpy returned" % label, [], out is fitted)
    ctx.prove("canary: fit codes the genotypes as {-1,0,1}", [], "{-1,0,1}" in dos, expect="fail", timeout_ms=1000)
