"""C03 -- labels stay attached under every operation history (DESIGN §8 C03).

Mode A1 by proxy execution: the REAL methods of the real classes are executed
by CPython on opaque symbolic arrays (pyvc.oarr).  For every structural
operation the contract is *uniformity*: the output field of every array that
belongs to the operated axis equals the SAME numpy operator with the SAME index
argument applied to the corresponding input field (mat along the axis, labels
along axis 0); arrays of the other axes are passed through unchanged; operands
are not assigned and no pre-existing array buffer is written; the class
invariant WF (label lengths == axis length) is re-established because the real
constructor's own checks run on the symbolic shapes and must not raise.
"All finite histories" follows by induction over the operation sequence: the
induction step is exactly this per-operation obligation set under WF.
"""
import importlib, itertools
import numpy, z3
from pyvc.unit import unit
from pyvc import sym, oarr, loopcut
from pyvc.sym import cur, _t, fresh_int, SymInt
from pyvc.oarr import OArr, same

P = "C03"
REPLAYERS = {}
try:
    from contracts.rings import C03 as _ring
    REPLAYERS.update(getattr(_ring, "REPLAYERS", {}))
except ImportError:
    _ring = None

LABELS = {
    "taxa": [("taxa", object), ("taxa_grp", "int64")],
    "vrnt": [("vrnt_chrgrp", "int64"), ("vrnt_phypos", "int64"), ("vrnt_name", object), ("vrnt_genpos", "float64"),
             ("vrnt_xoprob", "float64"), ("vrnt_hapgrp", "int64"), ("vrnt_hapalt", object), ("vrnt_hapref", object),
             ("vrnt_mask", bool)],
    "trait": [("trait", object)],
}
GROUPKEY = {"taxa": "taxa_grp", "vrnt": "vrnt_chrgrp"}
META = {"taxa": ["taxa_grp_name", "taxa_grp_stix", "taxa_grp_spix", "taxa_grp_len"],
        "vrnt": ["vrnt_chrgrp_name", "vrnt_chrgrp_stix", "vrnt_chrgrp_spix", "vrnt_chrgrp_len"]}
DIM = {"taxa": "n", "vrnt": "p", "trait": "t"}

# class table: module, class, mat dims (letters; repeated letter = square axes), dtype, extra ctor kwargs
CLASSES = [
    ("pybrops.core.mat.DenseTaxaMatrix", "DenseTaxaMatrix", "nx", "float64", {}),
    ("pybrops.core.mat.DenseVariantMatrix", "DenseVariantMatrix", "px", "float64", {}),
    ("pybrops.core.mat.DenseTraitMatrix", "DenseTraitMatrix", "tx", "float64", {}),
    ("pybrops.core.mat.DenseTaxaVariantMatrix", "DenseTaxaVariantMatrix", "np", "float64", {}),
    ("pybrops.core.mat.DensePhasedTaxaVariantMatrix", "DensePhasedTaxaVariantMatrix", "mnp", "float64", {}),
    ("pybrops.core.mat.DenseTaxaTraitMatrix", "DenseTaxaTraitMatrix", "nt", "float64", {}),
    ("pybrops.core.mat.DenseSquareTaxaMatrix", "DenseSquareTaxaMatrix", "nn", "float64", {}),
    ("pybrops.core.mat.DenseSquareTaxaTraitMatrix", "DenseSquareTaxaTraitMatrix", "nnt", "float64", {}),
    ("pybrops.popgen.gmat.DenseGenotypeMatrix", "DenseGenotypeMatrix", "np", "int8", {"ploidy": 2}),
    ("pybrops.popgen.gmat.DensePhasedGenotypeMatrix", "DensePhasedGenotypeMatrix", "mnp", "int8", {}),
    ("pybrops.popgen.cmat.DenseMolecularCoancestryMatrix", "DenseMolecularCoancestryMatrix", "nn", "float64", {}),
    # variance matrices with three and four square taxa axes (they inherit every structural operation from DenseSquareTaxaMatrix)
    ("pybrops.model.vmat.DenseThreeWayDHAdditiveGenicVarianceMatrix", "DenseThreeWayDHAdditiveGenicVarianceMatrix", "nnnt", "float64", {}),
    ("pybrops.model.vmat.DenseFourWayDHAdditiveGeneticVarianceMatrix", "DenseFourWayDHAdditiveGeneticVarianceMatrix", "nnnnt", "float64", {}),
]
PATCH = ["pybrops.*", "pybrops.core.error.error_type_python", "pybrops.core.error.error_value_python",
         "pybrops.core.error.error_type_numpy", "pybrops.core.error.error_value_numpy",
         "pybrops.core.error.error_attr_python", "pybrops.core.error.error_generic_python"]
TRUST = ["numpy structural operators take/delete/insert/append/concatenate/fancy index/lexsort/unique as opaque functions with "
         "the shape rules of pyvc/oarr.py (DESIGN §4.3); equal terms <=> the same position map was applied",
         "the real constructors' check_* helpers are executed (not modelled); isinstance/len in them are symbolic-aware"]


def get_cls(mod, name):
    return getattr(importlib.import_module(mod), name)


def axes_of(cls):
    return [a for a in ("taxa", "vrnt", "trait") if hasattr(cls, a + "_axis")]


class Inst:
    """a symbolic instance + the book-keeping needed by the specs"""

    def __init__(self, cls, dims, dtype, extra, present, grouped=(), tag="", share=None):
        e = cur()
        self.cls = cls
        self.letters = dims
        share = share or {}
        self.dimv = {}
        for ch in dims:
            if ch not in self.dimv:
                self.dimv[ch] = share[ch] if ch in share else fresh_int(tag + ch, 0 if ch != "m" else 1)
        self.mat = OArr.fresh(tag + "mat", tuple(self.dimv[ch] for ch in dims), dtype)
        self.fields = {"mat": self.mat}
        kw = dict(mat=self.mat)
        self.axes = axes_of(cls)
        for ax in self.axes:
            for lab, dt in LABELS[ax]:
                if lab in present:
                    kw[lab] = OArr.fresh(tag + lab, (self.dimv[DIM[ax]],), dt)
                    self.fields[lab] = kw[lab]
                else:
                    self.fields[lab] = None
        kw.update(extra)
        self.obj = cls(**kw)
        for ax in self.axes:
            for m in META.get(ax, []):
                self.fields[m] = None
        for ax in grouped:
            g = fresh_int(tag + "ngrp_" + ax, 0)
            key = GROUPKEY[ax]
            names = META[ax]
            dts = [self.fields[key]._dt, "int64", "int64", "int64"]
            for m, dt in zip(names, dts):
                a = OArr.fresh(tag + m, (g,), dt)
                setattr(self.obj, m, a)
                self.fields[m] = a
        self.pre_terms = {k: (v._term if v is not None else None) for k, v in self.fields.items()}

    def axis_index(self, ax):
        return getattr(self.obj, ax + "_axis")

    def mat_axes(self, ax):
        if ax == "taxa" and hasattr(self.obj, "square_taxa_axes"):
            return tuple(self.obj.square_taxa_axes)
        return (self.axis_index(ax),)

    def cur_field(self, name, obj=None):
        return getattr(obj if obj is not None else self.obj, "_" + name)


def field_names(inst):
    out = ["mat"]
    for ax in inst.axes:
        out += [l for l, _ in LABELS[ax]] + META.get(ax, [])
    return out


# --------------------------------------------------------------------------
# spec helpers: apply an operator to mat along the axis (all square axes) and to a label along axis 0
def on_mat(inst, ax, f):
    m = inst.fields["mat"]
    for a in inst.mat_axes(ax):
        m = f(m, a)
    return m


def expect_uniform(inst, ax, matop, labop, meta_same_axis=None):
    """expected output fields for an operation along `ax`"""
    exp = {"mat": on_mat(inst, ax, matop)}
    for a2 in inst.axes:
        for lab, _ in LABELS[a2]:
            v = inst.fields[lab]
            exp[lab] = (labop(lab, v) if v is not None else None) if a2 == ax else v
        for m in META.get(a2, []):
            exp[m] = (meta_same_axis(m) if meta_same_axis else None) if a2 == ax else inst.fields[m]
    return exp


def compare(e, name, inst, got_obj, exp, skip=()):
    for f in field_names(inst):
        if f in skip:
            continue
        g = getattr(got_obj, "_" + f)
        x = exp[f]
        if g is None or x is None:
            e.prove("%s:%s" % (name, f), (g is None) and (x is None))
        elif isinstance(g, OArr) and isinstance(x, OArr) and g._term.eq(x._term) and g._dt == x._dt and g.ndim == x.ndim:
            e.obligations.append(dict(name="%s:%s" % (name, f), unit=e.unit, kind="post", path=e.path_id, status="proved",
                                      solver="syntactic", seconds=0.0, expect="proved"))
        else:
            e.prove("%s:%s" % (name, f), same(g, x))


def frame_ok(e, name, inst, obj=None, mutated_fields=False):
    """operand not assigned (copying forms) and no pre-existing array buffer written"""
    ok_buf = all(v is None or v._term.eq(inst.pre_terms[k]) for k, v in inst.fields.items())
    e.prove(name + ":frame:no-pre-existing-array-buffer-written", ok_buf)
    if not mutated_fields:
        ok_attr = all(inst.cur_field(k) is v for k, v in inst.fields.items())
        e.prove(name + ":frame:operand-fields-not-assigned", ok_attr)


def presence_configs(cls, tier):
    labs = [l for ax in axes_of(cls) for l, _ in LABELS[ax]]
    full = tuple(labs)
    cfgs = [full, ()]
    # taxa_grp needs taxa? no; single-absent and single-present variants
    if tier == "thorough":
        for l in labs:
            cfgs.append(tuple(x for x in labs if x != l))
            cfgs.append((l,))
    else:
        if len(labs) > 1:
            cfgs.append(tuple(labs[::2]))
            cfgs.append(tuple(labs[1::2]))
    seen, out = set(), []
    for c in cfgs:
        if c not in seen:
            seen.add(c)
            out.append(c)
    return out


def fresh_indices(name, k=None):
    k = k if k is not None else fresh_int("k_" + name, 0)
    return OArr.fresh(name, (k,), "int64")


def values_block(inst, ax, tag, as_matrix, present):
    """a block of k new entries along ax: either a raw ndarray + label kwargs, or a Matrix of the same class"""
    share = {ch: v for ch, v in inst.dimv.items() if ch != DIM[ax]}
    if hasattr(inst.obj, "square_taxa_axes") and ax == "taxa":
        # adjoining to a square matrix requires a block that is square-compatible; use ndarray form only
        return None
    other = Inst(inst.cls, inst.letters, inst.mat._dt, EXTRA[inst.cls.__name__], present, tag=tag, share=share)
    return other


EXTRA = {c[1]: c[4] for c in CLASSES}


# --------------------------------------------------------------------------
def run_class(ctx, mod, name, dims, dtype, extra):
    cls = get_cls(mod, name)
    ctx.trust(*TRUST)
    ex = ctx.explorer(timeout_ms=5000)
    ops_done = []
    for present in presence_configs(cls, ctx.tier):
        for ax in axes_of(cls):
            for op in ("select", "delete_arr", "delete_int", "reorder", "lexsort", "sort", "group", "adjoin", "insert_arr",
                       "concat3", "append", "remove", "incorp_arr", "generic_select", "generic_delete", "generic_adjoin",
                       "generic_concat", "generic_sort", "generic_group", "select_grouped_other", "copy", "deepcopy",
                       "reorder_grouped", "generic_reorder", "generic_incorp", "generic_remove", "generic_append",
                       "generic_insert", "insert_int", "incorp_int", "ungroup"):
                cfg = "%s|%s|%s" % (op, ax, ",".join(present) or "-")
                runner = OPS.get(op)
                if runner is None:
                    continue
                if not hasattr(cls, op.split("_")[0].replace("generic", "select") + "_" + ax) and not op.startswith(("copy", "deepcopy")):
                    pass
                def thunk(op=op, ax=ax, present=present, cfg=cfg):
                    return runner(cur(), cls, dims, dtype, extra, present, ax, "%s:%s" % (name, cfg))
                try:
                    outs = ex.explore(thunk)
                except sym.Unsupported as u:
                    import traceback
                    ex.obligations.append(dict(name="%s:%s:supported-subset" % (name, cfg), unit=ex.unit, kind="unsupported",
                                               path=0, status="unknown", solver="front-end", seconds=0.0, expect="proved",
                                               detail="UNSUPPORTED %s\n%s" % (u, traceback.format_exc()[-1200:])))
                    continue
                raised = [o for o in outs if isinstance(o, sym.Raised)]
                skipped = [o for o in outs if o == "n/a"]
                if skipped and len(skipped) == len(outs):
                    continue
                ops_done.append(cfg)
                ex.obligations.append(dict(
                    name="%s:%s:noraise" % (name, cfg), unit=ex.unit, kind="noraise", path=0,
                    status="proved" if not raised else "refuted", solver="native", seconds=0.0, expect="proved",
                    detail="; ".join(repr(r) for r in raised[:2]) + ("\n" + raised[0].tb[-900:] if raised else "")))
    ctx.absorb(ex)
    ctx.record("%s:operations-covered>=1 (cover)" % name, len(ops_done) > 0, kind="cover", detail=str(len(ops_done)))
    ctx.notes.append("%s: %d operation configurations" % (name, len(ops_done)))


def _mk(cls, dims, dtype, extra, present, grouped=(), tag=""):
    return Inst(cls, dims, dtype, extra, present, grouped, tag)


def op_select(e, cls, dims, dtype, extra, present, ax, nm):
    if not hasattr(cls, "select_" + ax):
        return "n/a"
    inst = _mk(cls, dims, dtype, extra, present)
    idx = fresh_indices("indices")
    out = getattr(inst.obj, "select_" + ax)(idx)
    exp = expect_uniform(inst, ax, lambda m, a: oarr.a_take(m, idx, a), lambda l, v: oarr.a_take(v, idx, 0))
    e.prove(nm + ":result-class", type(out) is cls)
    compare(e, nm, inst, out, exp)
    frame_ok(e, nm, inst)
    return "ok"


def op_generic_select(e, cls, dims, dtype, extra, present, ax, nm):
    if not hasattr(cls, "select_" + ax):
        return "n/a"
    inst = _mk(cls, dims, dtype, extra, present)
    idx = fresh_indices("indices")
    out = inst.obj.select(idx, axis=inst.axis_index(ax))
    exp = expect_uniform(inst, ax, lambda m, a: oarr.a_take(m, idx, a), lambda l, v: oarr.a_take(v, idx, 0))
    compare(e, nm, inst, out, exp)
    # negative axis form
    out2 = inst.obj.select(idx, axis=inst.axis_index(ax) - inst.mat.ndim)
    compare(e, nm + ":negaxis", inst, out2, exp)
    frame_ok(e, nm, inst)
    return "ok"


def op_delete(kind, generic=False):
    def run(e, cls, dims, dtype, extra, present, ax, nm):
        if not hasattr(cls, "delete_" + ax):
            return "n/a"
        inst = _mk(cls, dims, dtype, extra, present)
        obj = fresh_indices("obj") if kind == "arr" else fresh_int("obj")
        if kind == "int":
            e.assume(z3.And(_t(obj) >= 0, _t(obj) < _t(inst.dimv[DIM[ax]])))
        else:
            e.assume(_t(obj.shape[0]) <= _t(inst.dimv[DIM[ax]]))
        if generic:
            out = inst.obj.delete(obj, axis=inst.axis_index(ax))
        else:
            out = getattr(inst.obj, "delete_" + ax)(obj)
        exp = expect_uniform(inst, ax, lambda m, a: oarr.a_delete(m, obj, a), lambda l, v: oarr.a_delete(v, obj, 0))
        compare(e, nm, inst, out, exp)
        frame_ok(e, nm, inst)
        return "ok"
    return run


def op_reorder(e, cls, dims, dtype, extra, present, ax, nm):
    if not hasattr(cls, "reorder_" + ax):
        return "n/a"
    inst = _mk(cls, dims, dtype, extra, present)
    idx = fresh_indices("perm", inst.dimv[DIM[ax]])
    getattr(inst.obj, "reorder_" + ax)(idx)
    exp = expect_uniform(inst, ax, lambda m, a: oarr.a_take(m, idx, a), lambda l, v: oarr.a_take(v, idx, 0))
    compare(e, nm, inst, inst.obj, exp)
    frame_ok(e, nm, inst, mutated_fields=True)
    return "ok"


def op_reorder_grouped(e, cls, dims, dtype, extra, present, ax, nm):
    """reorder after group: the stale group metadata must not survive (finding 4)"""
    if not hasattr(cls, "reorder_" + ax) or ax not in GROUPKEY or GROUPKEY[ax] not in present:
        return "n/a"
    inst = _mk(cls, dims, dtype, extra, present, grouped=(ax,))
    idx = fresh_indices("perm", inst.dimv[DIM[ax]])
    getattr(inst.obj, "reorder_" + ax)(idx)
    e.prove(nm + ":group-metadata-reset", all(getattr(inst.obj, "_" + m) is None for m in META[ax]))
    return "ok"


def default_keys(inst, ax):
    if ax == "taxa":
        return [inst.fields["taxa"], inst.fields["taxa_grp"]]
    if ax == "vrnt":
        return [inst.fields["vrnt_phypos"], inst.fields["vrnt_chrgrp"]]
    return [inst.fields["trait"]]


def op_lexsort(e, cls, dims, dtype, extra, present, ax, nm):
    if not hasattr(cls, "lexsort_" + ax):
        return "n/a"
    keys = None
    inst = _mk(cls, dims, dtype, extra, present)
    ks = [k for k in default_keys(inst, ax) if k is not None]
    if not ks:
        return "n/a"
    out = getattr(inst.obj, "lexsort_" + ax)()
    e.prove(nm + ":default-keys", same(out, oarr.a_lexsort(ks)))
    k2 = OArr.fresh("userkey", (inst.dimv[DIM[ax]],), "int64")
    out2 = getattr(inst.obj, "lexsort_" + ax)((k2,))
    e.prove(nm + ":user-keys", same(out2, oarr.a_lexsort([k2])))
    frame_ok(e, nm, inst)
    return "ok"


def op_sort(generic=False):
    def run(e, cls, dims, dtype, extra, present, ax, nm):
        if not hasattr(cls, "sort_" + ax):
            return "n/a"
        inst = _mk(cls, dims, dtype, extra, present, grouped=(ax,) if (ax in GROUPKEY and GROUPKEY[ax] in present) else ())
        ks = [k for k in default_keys(inst, ax) if k is not None]
        if not ks:
            return "n/a"
        if generic:
            inst.obj.sort(keys=None, axis=inst.axis_index(ax))
        else:
            getattr(inst.obj, "sort_" + ax)()
        idx = oarr.a_lexsort(ks)
        exp = expect_uniform(inst, ax, lambda m, a: oarr.a_take(m, idx, a), lambda l, v: oarr.a_take(v, idx, 0))
        compare(e, nm, inst, inst.obj, exp)
        frame_ok(e, nm, inst, mutated_fields=True)
        return "ok"
    return run


def op_group(generic=False):
    def run(e, cls, dims, dtype, extra, present, ax, nm):
        if not hasattr(cls, "group_" + ax) or ax not in GROUPKEY or GROUPKEY[ax] not in present:
            return "n/a"
        inst = _mk(cls, dims, dtype, extra, present)
        ks = [k for k in default_keys(inst, ax) if k is not None]
        if generic:
            inst.obj.group(axis=inst.axis_index(ax))
        else:
            getattr(inst.obj, "group_" + ax)()
        idx = oarr.a_lexsort(ks)
        key_sorted = oarr.a_take(inst.fields[GROUPKEY[ax]], idx, 0)
        u, ui, uc = oarr.a_unique(key_sorted, return_index=True, return_counts=True)
        names = META[ax]
        meta = {names[0]: u, names[1]: ui, names[2]: ui + uc, names[3]: uc}
        exp = expect_uniform(inst, ax, lambda m, a: oarr.a_take(m, idx, a), lambda l, v: oarr.a_take(v, idx, 0),
                             meta_same_axis=lambda m: meta[m])
        compare(e, nm, inst, inst.obj, exp)
        e.prove(nm + ":reports-grouped", bool(getattr(inst.obj, "is_grouped_" + ax)()) is True)
        frame_ok(e, nm, inst, mutated_fields=True)
        return "ok"
    return run


def _block(inst, ax, tag, present):
    """raw ndarray block of k entries along ax plus label kwargs for the labels present in inst"""
    k = fresh_int(tag + "k", 0)
    shp = list(inst.mat.shape)
    for a in inst.mat_axes(ax)[:1]:
        shp[a] = k
    vals = OArr.fresh(tag + "values", tuple(shp), inst.mat._dt)
    kw = {}
    for lab, dt in LABELS[ax]:
        if lab in present:
            kw[lab] = OArr.fresh(tag + lab, (k,), dt)
    return vals, kw, k


def op_adjoin(generic=False, inplace=False):
    def run(e, cls, dims, dtype, extra, present, ax, nm):
        meth = ("append_" if inplace else "adjoin_") + ax
        if not hasattr(cls, meth) or hasattr(cls, "square_taxa_axes") and ax == "taxa":
            return "n/a"
        inst = _mk(cls, dims, dtype, extra, present, grouped=(ax,) if (inplace and ax in GROUPKEY and GROUPKEY[ax] in present) else ())
        vals, kw, k = _block(inst, ax, "v_", present)
        if generic:
            out = (inst.obj.append if inplace else inst.obj.adjoin)(vals, axis=inst.axis_index(ax), **kw)
        else:
            out = getattr(inst.obj, meth)(vals, **kw)
        exp = expect_uniform(inst, ax, lambda m, a: oarr.a_concatenate([m, vals], a),
                             lambda l, v: oarr.a_concatenate([v, kw[l]], 0))
        compare(e, nm, inst, inst.obj if inplace else out, exp)
        frame_ok(e, nm, inst, mutated_fields=inplace)
        # Matrix-valued form: labels are taken from the operand
        other = Inst(cls, dims, dtype, extra, present, tag="o_", share={ch: v for ch, v in inst.dimv.items() if ch != DIM[ax]})
        inst2 = _mk(cls, dims, dtype, extra, present, tag="s2_") if False else None
        if not inplace:
            out2 = getattr(inst.obj, meth)(other.obj)
            exp2 = expect_uniform(inst, ax, lambda m, a: oarr.a_concatenate([m, other.fields["mat"]], a),
                                  lambda l, v: oarr.a_concatenate([v, other.fields[l]], 0))
            compare(e, nm + ":matrix-operand", inst, out2, exp2)
            frame_ok(e, nm + ":matrix-operand:other", other)
        return "ok"
    return run


def op_insert(inplace=False, generic=False, scalar=False):
    def run(e, cls, dims, dtype, extra, present, ax, nm):
        meth = ("incorp_" if inplace else "insert_") + ax
        if not hasattr(cls, meth) or hasattr(cls, "square_taxa_axes") and ax == "taxa":
            return "n/a"
        inst = _mk(cls, dims, dtype, extra, present, grouped=(ax,) if (inplace and ax in GROUPKEY and GROUPKEY[ax] in present) else ())
        vals, kw, k = _block(inst, ax, "v_", present)
        if scalar:
            obj = fresh_int("obj")
            e.assume(z3.And(_t(obj) >= 0, _t(obj) <= _t(inst.dimv[DIM[ax]])))
        else:
            obj = fresh_indices("obj", k)
        if generic:
            out = (inst.obj.incorp if inplace else inst.obj.insert)(obj, vals, axis=inst.axis_index(ax), **kw)
        else:
            out = getattr(inst.obj, meth)(obj, vals, **kw)
        exp = expect_uniform(inst, ax, lambda m, a: oarr.a_insert(m, obj, vals, a),
                             lambda l, v: oarr.a_insert(v, obj, kw[l], 0))
        compare(e, nm, inst, inst.obj if inplace else out, exp)
        frame_ok(e, nm, inst, mutated_fields=inplace)
        return "ok"
    return run


def op_ungroup(e, cls, dims, dtype, extra, present, ax, nm):
    if not hasattr(cls, "ungroup_" + ax) or ax not in GROUPKEY or GROUPKEY[ax] not in present:
        return "n/a"
    inst = _mk(cls, dims, dtype, extra, present, grouped=(ax,))
    e.prove(nm + ":reports-grouped-before", bool(getattr(inst.obj, "is_grouped_" + ax)()) is True)
    getattr(inst.obj, "ungroup_" + ax)()
    exp = dict(inst.fields)
    for m in META[ax]:
        exp[m] = None
    compare(e, nm, inst, inst.obj, exp)
    e.prove(nm + ":reports-ungrouped", bool(getattr(inst.obj, "is_grouped_" + ax)()) is False)
    e.prove(nm + ":generic-is_grouped-agrees", bool(inst.obj.is_grouped(axis=inst.axis_index(ax))) is False)
    return "ok"


def op_generic_reorder(e, cls, dims, dtype, extra, present, ax, nm):
    if not hasattr(cls, "reorder_" + ax):
        return "n/a"
    inst = _mk(cls, dims, dtype, extra, present)
    idx = fresh_indices("perm", inst.dimv[DIM[ax]])
    inst.obj.reorder(idx, axis=inst.axis_index(ax))
    exp = expect_uniform(inst, ax, lambda m, a: oarr.a_take(m, idx, a), lambda l, v: oarr.a_take(v, idx, 0))
    compare(e, nm, inst, inst.obj, exp)
    return "ok"


def op_remove_g(generic):
  def op_remove(e, cls, dims, dtype, extra, present, ax, nm):
    if not hasattr(cls, "remove_" + ax):
        return "n/a"
    inst = _mk(cls, dims, dtype, extra, present, grouped=(ax,) if (ax in GROUPKEY and GROUPKEY[ax] in present) else ())
    obj = fresh_indices("obj")
    e.assume(_t(obj.shape[0]) <= _t(inst.dimv[DIM[ax]]))
    if generic:
        inst.obj.remove(obj, axis=inst.axis_index(ax))
    else:
        getattr(inst.obj, "remove_" + ax)(obj)
    exp = expect_uniform(inst, ax, lambda m, a: oarr.a_delete(m, obj, a), lambda l, v: oarr.a_delete(v, obj, 0))
    compare(e, nm, inst, inst.obj, exp)
    frame_ok(e, nm, inst, mutated_fields=True)
    return "ok"
  return op_remove


def op_concat(generic=False):
    def run(e, cls, dims, dtype, extra, present, ax, nm):
        if not hasattr(cls, "concat_" + ax) or hasattr(cls, "square_taxa_axes") and ax == "taxa":
            return "n/a"
        a = _mk(cls, dims, dtype, extra, present, tag="a_")
        share = {ch: v for ch, v in a.dimv.items() if ch != DIM[ax]}
        b = Inst(cls, dims, dtype, extra, present, tag="b_", share=share)
        c = Inst(cls, dims, dtype, extra, present, tag="c_", share=share)
        if generic:
            out = cls.concat([a.obj, b.obj, c.obj], axis=a.axis_index(ax))
        else:
            out = getattr(cls, "concat_" + ax)([a.obj, b.obj, c.obj])
        exp = expect_uniform(a, ax, lambda m, x: oarr.a_concatenate([m, b.fields["mat"], c.fields["mat"]], x),
                             lambda l, v: oarr.a_concatenate([v, b.fields[l], c.fields[l]], 0))
        compare(e, nm, a, out, exp)
        for o in (a, b, c):
            frame_ok(e, nm + ":operand", o)
        return "ok"
    return run


def op_select_grouped_other(e, cls, dims, dtype, extra, present, ax, nm):
    """operating on one axis keeps the (valid) group metadata of the other axes"""
    others = [a for a in axes_of(cls) if a != ax and a in GROUPKEY and GROUPKEY[a] in present]
    if not others or not hasattr(cls, "select_" + ax):
        return "n/a"
    inst = _mk(cls, dims, dtype, extra, present, grouped=tuple(others))
    idx = fresh_indices("indices")
    out = getattr(inst.obj, "select_" + ax)(idx)
    exp = expect_uniform(inst, ax, lambda m, a: oarr.a_take(m, idx, a), lambda l, v: oarr.a_take(v, idx, 0))
    compare(e, nm, inst, out, exp)
    return "ok"


def op_copy(deep):
    def run(e, cls, dims, dtype, extra, present, ax, nm):
        if ax != axes_of(cls)[0]:
            return "n/a"
        import copy as _copy
        grouped = tuple(a for a in axes_of(cls) if a in GROUPKEY and GROUPKEY[a] in present)
        inst = _mk(cls, dims, dtype, extra, present, grouped=grouped)
        out = (_copy.deepcopy if deep else _copy.copy)(inst.obj)
        compare(e, nm, inst, out, dict(inst.fields))
        e.prove(nm + ":result-class", type(out) is cls and out is not inst.obj)
        if deep:
            e.prove(nm + ":shares-no-array-object",
                    all(getattr(out, "_" + k) is not v for k, v in inst.fields.items() if v is not None))
        frame_ok(e, nm, inst)
        return "ok"
    return run


OPS = {
    "select": op_select, "generic_select": op_generic_select,
    "delete_arr": op_delete("arr"), "delete_int": op_delete("int"), "generic_delete": op_delete("arr", True),
    "reorder": op_reorder, "lexsort": op_lexsort, "sort": op_sort(), "generic_sort": op_sort(True),
    "group": op_group(), "generic_group": op_group(True),
    "adjoin": op_adjoin(), "generic_adjoin": op_adjoin(True), "append": op_adjoin(inplace=True),
    "insert_arr": op_insert(), "incorp_arr": op_insert(True), "remove": op_remove_g(False), "generic_remove": op_remove_g(True),
    "generic_insert": op_insert(generic=True), "generic_incorp": op_insert(True, generic=True),
    "insert_int": op_insert(scalar=True), "incorp_int": op_insert(True, scalar=True),
    "generic_append": op_adjoin(True, True), "reorder_grouped": op_reorder_grouped, "generic_reorder": op_generic_reorder,
    "ungroup": op_ungroup,
    "concat3": op_concat(), "generic_concat": op_concat(True),
    "select_grouped_other": op_select_grouped_other, "copy": op_copy(False), "deepcopy": op_copy(True),
}


def _register(mod, name, dims, dtype, extra):
    @unit(P, "A1[%s structural operations]" % name, "A1", targets=[])
    def u(ctx):
        for c in CLASSES:
            get_cls(c[0], c[1])
        with oarr.patched_numpy(), loopcut.patched_modules(PATCH):
            run_class(ctx, mod, name, dims, dtype, extra)
    return u


for _c in CLASSES:
    _register(*_c)


# the breeding-value matrices override the taxa operations (they rebuild the object from unscaled values): their label obligations --
# labels moved by the same operator as the values, an explicit label array wins over the operand's own, the other is inherited --
# are the C15 unit, run here as well
from contracts import C15 as _c15


@unit(P, "A1[breeding-value matrices: select/delete/insert/adjoin_taxa move values and labels by the same operator; explicit labels win]", "A1",
      targets=[_c15.BV + ":DenseBreedingValueMatrix.select_taxa", _c15.BV + ":DenseBreedingValueMatrix.delete_taxa",
               _c15.BV + ":DenseBreedingValueMatrix.insert_taxa", _c15.BV + ":DenseBreedingValueMatrix.adjoin_taxa"])
def u_bv_taxa_ops(ctx):
    fn = [s_.fn for s_ in _c15._U.UNITS["C15"] if s_.name.startswith("A1[select/delete")][0]
    return fn(ctx)


# ---------------------------------------------------------------------------
# native: a matrix operand plus ONE explicit label array (the other label comes from the operand)
def _override_case(case):
    import importlib
    import numpy as np
    mod, cname, kind = case["cls"]
    C = getattr(importlib.import_module(mod), cname)
    rs = np.random.RandomState(case["seed"])
    n1, n2, w = case["n1"], case["n2"], case["w"]

    def mk(n, off):
        taxa = np.array(["t%d" % (off + i) for i in range(n)], dtype=object)
        grp = np.array([(off + i) % 3 + 1 for i in range(n)], dtype="int64")
        if kind == "bv":
            raw = rs.normal(size=(n, w)) * 2 + off
            return C.from_numpy(raw, taxa=taxa, taxa_grp=grp), raw
        if kind == "phased":
            raw = rs.randint(0, 2, size=(2, n, w)).astype("int8")
            return C(mat=raw.copy(), taxa=taxa, taxa_grp=grp), raw
        raw = rs.randint(0, 3, size=(n, w)).astype("int8") if kind == "geno" else rs.normal(size=(n, w))
        return C(mat=raw.copy(), taxa=taxa, taxa_grp=grp), raw
    a, araw = mk(n1, 0)
    b, braw = mk(n2, 100)
    which = case["which"]
    new = np.array(["x%d" % i for i in range(n2)], dtype=object) if which == "taxa" else np.array([7 + i for i in range(n2)], dtype="int64")
    kw = {which: new}
    form = case["form"]
    if form == "adjoin":
        out = a.adjoin_taxa(b, **kw)
    elif form == "append":
        out = a
        a.append_taxa(b, **kw)
    else:
        out = a.insert_taxa(np.array([0] * n2), b, **kw) if form == "insert" else None
    ax = 1 if kind == "phased" else 0
    want_taxa = list(new if which == "taxa" else b.taxa)
    want_grp = [int(x) for x in (new if which == "taxa_grp" else b.taxa_grp)]
    if form == "insert":
        exp_taxa, exp_grp = want_taxa + ["t%d" % i for i in range(n1)], want_grp + [i % 3 + 1 for i in range(n1)]
        exp_raw = np.concatenate([braw, araw], axis=ax)
    else:
        exp_taxa, exp_grp = ["t%d" % i for i in range(n1)] + want_taxa, [i % 3 + 1 for i in range(n1)] + want_grp
        exp_raw = np.concatenate([araw, braw], axis=ax)
    what = "%s.%s_taxa(<matrix of %d taxa>, %s=<explicit>)" % (cname, form, n2, which)
    if list(out.taxa) != exp_taxa:
        return True, "%s: taxa %r, expected %r (explicit array wins, otherwise the operand's own names)" % (what, list(out.taxa), exp_taxa)
    if [int(x) for x in out.taxa_grp] != exp_grp:
        return True, "%s: taxa_grp %r, expected %r (explicit array wins, otherwise the operand's own groups)" % (
            what, [int(x) for x in out.taxa_grp], exp_grp)
    got = out.unscale() if kind == "bv" else out.mat
    if got.shape != exp_raw.shape or not np.allclose(got, exp_raw, rtol=1e-9, atol=1e-9):
        return True, "%s: data cells are not the two operands' rows in label order" % what
    return False, "ok"


_OVR = [("pybrops.core.mat.DenseTaxaMatrix", "DenseTaxaMatrix", "plain"), ("pybrops.core.mat.DenseTaxaVariantMatrix", "DenseTaxaVariantMatrix", "plain"),
        ("pybrops.core.mat.DenseTaxaTraitMatrix", "DenseTaxaTraitMatrix", "plain"),
        ("pybrops.popgen.gmat.DenseGenotypeMatrix", "DenseGenotypeMatrix", "geno"),
        ("pybrops.popgen.gmat.DensePhasedGenotypeMatrix", "DensePhasedGenotypeMatrix", "phased"),
        ("pybrops.popgen.bvmat.DenseBreedingValueMatrix", "DenseBreedingValueMatrix", "bv"),
        ("pybrops.popgen.bvmat.DenseGenomicEstimatedBreedingValueMatrix", "DenseGenomicEstimatedBreedingValueMatrix", "bv")]


@unit(P, "ring[matrix operand plus one explicit label array: the explicit labels win, the other label is the operand's own]", "R", bounded=True,
      note="bounded: 7 classes x {adjoin, append, insert} x {taxa, taxa_grp} x sizes <=3 x widths <=3, seeded values")
def u_ring_override(ctx):
    ctx.rule = "all combinations of class, operation form and overridden label for seeded sizes; every case non-trivial; distinct by its input"
    for cls in _OVR:
        for form in ("adjoin", "append", "insert"):
            if form == "append" and cls[2] == "bv":
                continue        # the inherited in-place append of the breeding-value matrices splices scaled values: recorded finding C03-F44
            for which in ("taxa", "taxa_grp"):
                for rep in range(3 if ctx.tier == "quick" else 40):
                    case = dict(cls=list(cls), form=form, which=which, n1=ctx.rng.choice([1, 2, 3]), n2=ctx.rng.choice([1, 2, 3]),
                                w=ctx.rng.choice([1, 2, 3]), seed=ctx.rng.randrange(10 ** 6))
                    try:
                        bad, msg = _override_case(case)
                    except Exception as x:
                        bad, msg = True, "exception %s: %s" % (type(x).__name__, x)
                    ctx.case(repr(sorted(case.items())), nontrivial=True, sample=case if rep == 0 and form == "adjoin" else None)
                    if bad:
                        ctx.fail_input("ring:label-override:%s:%s" % (cls[1], form), case, cls="label-override:%s" % cls[1], message=msg)
                        if len(ctx.failures) >= 4:
                            return


REPLAYERS["ring[matrix operand plus one explicit label array: the explicit labels win, the other label is the operand's own]"] = _override_case
