"""C03 -- see DESIGN.md §8 C03."""
from pyvc.unit import unit
P = "C03"
REPLAYERS = {}
try:
    from contracts.rings import C03 as _ring
    REPLAYERS.update(getattr(_ring, "REPLAYERS", {}))
except ImportError:
    _ring = None
