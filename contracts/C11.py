"""C11 -- see DESIGN.md §8 C11."""
from pyvc.unit import unit
P = "C11"
REPLAYERS = {}
try:
    from contracts.rings import C11 as _ring
    REPLAYERS.update(getattr(_ring, "REPLAYERS", {}))
except ImportError:
    _ring = None

import math
import numpy, z3
from pyvc import sym, lemma
from pyvc.lemma import real, exp_pos, exp_mono, exp_zero, exp_add, log_exp, exp_log, EXP, LOG

GM = "pybrops/popgen/gmap/"


def _mapfn_obj(which):
    import importlib
    m = importlib.import_module("pybrops.popgen.gmap.%sMapFunction" % which)
    return getattr(m, "%sMapFunction" % which)()


def mapfn_lemmas(ctx, which):
    """laws of mapfn / invmapfn of one map function class; the formulas are obtained by
    executing the REAL methods on symbolic reals"""
    ctx.trust(*lemma.TRUST)
    f = _mapfn_obj(which)
    d, d2, rr = real("d"), real("d2"), real("r")
    r, r2 = f.mapfn(d), f.mapfn(d2)
    n = which + "."
    if which == "Haldane":
        facts = lambda x: [exp_pos(-2 * x.t), exp_mono(-2 * x.t, 0), exp_zero()]
        mono = [exp_mono(-2 * d2.t, -2 * d.t)]
        inv_facts = [log_exp(-2 * d.t)]
        # for r in [0, 1/2): 1-2r in (0, 1]
        inv2_facts = [exp_log(1 - 2 * rr.t)]
    else:
        facts = lambda x: [exp_pos(4 * x.t), exp_mono(0, 4 * x.t), exp_zero()]
        mono = [exp_mono(4 * d.t, 4 * d2.t), exp_pos(4 * d.t), exp_pos(4 * d2.t)]
        inv_facts = [log_exp(4 * d.t), exp_pos(4 * d.t)]
        inv2_facts = [exp_log((1 + 2 * rr.t) / (1 - 2 * rr.t))]
    ctx.prove(n + "mapfn:zero-to-zero", [exp_zero()], z3.substitute(r.t, (d.t, z3.RealVal(0))) == 0)
    ctx.prove(n + "mapfn:range-[0,1/2)-for-d>=0", [d.t >= 0] + facts(d), z3.And(r.t >= 0, r.t < z3.RealVal("1/2")))
    ctx.prove(n + "mapfn:strictly-increasing", [0 <= d.t, d.t < d2.t] + mono + facts(d) + facts(d2), r.t < r2.t)
    ctx.prove(n + "invmapfn:undoes-mapfn", [d.t >= 0] + inv_facts + facts(d), f.invmapfn(f.mapfn(d)).t == d.t)
    back = f.mapfn(f.invmapfn(rr))
    ctx.prove(n + "mapfn:undoes-invmapfn-on-[0,1/2)", [0 <= rr.t, rr.t < z3.RealVal("1/2")] + inv2_facts, back.t == rr.t)
    ctx.prove(n + "canary:mapfn-range-below-0.4", [d.t >= 0] + facts(d), r.t < z3.RealVal("2/5"), expect="fail", timeout_ms=3000)
    # IEEE special values: exhaustive for these points (native evaluation of the real code)
    with numpy.errstate(all="ignore"):
        v_inf = f.mapfn(numpy.array([numpy.inf]))[0]
        v_zero = f.mapfn(numpy.array([0.0]))[0]
        i_half = f.invmapfn(numpy.array([0.5]))[0]
        grid = numpy.concatenate([[0.0], numpy.logspace(-12, 3, 400)])
        vals = f.mapfn(grid)
        back_g = f.invmapfn(vals)
    ctx.record(n + "mapfn(+inf)==1/2 (native, IEEE)", v_inf == 0.5, kind="native", detail=v_inf)
    ctx.record(n + "mapfn(0)==0 (native, IEEE)", v_zero == 0.0, kind="native", detail=v_zero)
    ctx.record(n + "invmapfn(1/2)==+inf (native, IEEE)", i_half == numpy.inf, kind="native", detail=i_half)
    ctx.record(n + "mapfn monotone, within [0,1/2] on a 401-point float grid (native, bounded)",
               bool(numpy.all(numpy.diff(vals) >= 0) and vals.min() >= 0 and vals.max() <= 0.5), kind="native")
    if which == "Haldane":
        a, b = real("a"), real("b")
        ra, rb, rab = f.mapfn(a), f.mapfn(b), f.mapfn(a + b)
        ctx.prove(n + "mapfn:composition r(a+b)=r(a)(1-r(b))+(1-r(a))r(b)", [exp_add(-2 * a.t, -2 * b.t)],
                  rab.t == ra.t * (1 - rb.t) + (1 - ra.t) * rb.t)


@unit(P, "lemma[HaldaneMapFunction laws]", "L", targets=[GM + "HaldaneMapFunction.py:HaldaneMapFunction.mapfn",
                                                         GM + "HaldaneMapFunction.py:HaldaneMapFunction.invmapfn"])
def u_haldane(ctx):
    mapfn_lemmas(ctx, "Haldane")


@unit(P, "lemma[KosambiMapFunction laws]", "L", targets=[GM + "KosambiMapFunction.py:KosambiMapFunction.mapfn",
                                                         GM + "KosambiMapFunction.py:KosambiMapFunction.invmapfn"])
def u_kosambi(ctx):
    mapfn_lemmas(ctx, "Kosambi")
