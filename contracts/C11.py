"""C11 -- see DESIGN.md §8 C11."""
from pyvc.unit import unit
P = "C11"
REPLAYERS = {}
try:
    from contracts.rings import C11 as _ring
    REPLAYERS.update(getattr(_ring, "REPLAYERS", {}))
except ImportError:
    _ring = None

import math
import numpy, z3
from pyvc import sym, lemma
from pyvc.lemma import real, exp_pos, exp_mono, exp_zero, exp_add, log_exp, exp_log, EXP, LOG

GM = "pybrops/popgen/gmap/"


def _mapfn_obj(which):
    import importlib
    m = importlib.import_module("pybrops.popgen.gmap.%sMapFunction" % which)
    return getattr(m, "%sMapFunction" % which)()


def mapfn_lemmas(ctx, which):
    """laws of mapfn / invmapfn of one map function class; the formulas are obtained by
    executing the REAL methods on symbolic reals"""
    ctx.trust(*lemma.TRUST)
    f = _mapfn_obj(which)
    d, d2, rr = real("d"), real("d2"), real("r")
    r, r2 = f.mapfn(d), f.mapfn(d2)
    n = which + "."
    if which == "Haldane":
        facts = lambda x: [exp_pos(-2 * x.t), exp_mono(-2 * x.t, 0), exp_zero()]
        mono = [exp_mono(-2 * d2.t, -2 * d.t)]
        inv_facts = [log_exp(-2 * d.t)]
        # for r in [0, 1/2): 1-2r in (0, 1]
        inv2_facts = [exp_log(1 - 2 * rr.t)]
    else:
        facts = lambda x: [exp_pos(4 * x.t), exp_mono(0, 4 * x.t), exp_zero()]
        mono = [exp_mono(4 * d.t, 4 * d2.t), exp_pos(4 * d.t), exp_pos(4 * d2.t)]
        inv_facts = [log_exp(4 * d.t), exp_pos(4 * d.t)]
        inv2_facts = [exp_log((1 + 2 * rr.t) / (1 - 2 * rr.t))]
    ctx.prove(n + "mapfn:zero-to-zero", [exp_zero()], z3.substitute(r.t, (d.t, z3.RealVal(0))) == 0)
    ctx.prove(n + "mapfn:range-[0,1/2)-for-d>=0", [d.t >= 0] + facts(d), z3.And(r.t >= 0, r.t < z3.RealVal("1/2")))
    ctx.prove(n + "mapfn:strictly-increasing", [0 <= d.t, d.t < d2.t] + mono + facts(d) + facts(d2), r.t < r2.t)
    ctx.prove(n + "invmapfn:undoes-mapfn", [d.t >= 0] + inv_facts + facts(d), f.invmapfn(f.mapfn(d)).t == d.t)
    back = f.mapfn(f.invmapfn(rr))
    ctx.prove(n + "mapfn:undoes-invmapfn-on-[0,1/2)", [0 <= rr.t, rr.t < z3.RealVal("1/2")] + inv2_facts, back.t == rr.t)
    ctx.prove(n + "canary:mapfn-range-below-0.4", [d.t >= 0] + facts(d), r.t < z3.RealVal("2/5"), expect="fail", timeout_ms=3000)
    # IEEE special values: exhaustive for these points (native evaluation of the real code)
    with numpy.errstate(all="ignore"):
        v_inf = f.mapfn(numpy.array([numpy.inf]))[0]
        v_zero = f.mapfn(numpy.array([0.0]))[0]
        i_half = f.invmapfn(numpy.array([0.5]))[0]
        grid = numpy.concatenate([[0.0], numpy.logspace(-12, 3, 400)])
        vals = f.mapfn(grid)
        back_g = f.invmapfn(vals)
    ctx.record(n + "mapfn(+inf)==1/2 (native, IEEE)", v_inf == 0.5, kind="native", detail=v_inf)
    ctx.record(n + "mapfn(0)==0 (native, IEEE)", v_zero == 0.0, kind="native", detail=v_zero)
    ctx.record(n + "invmapfn(1/2)==+inf (native, IEEE)", i_half == numpy.inf, kind="native", detail=i_half)
    ctx.record(n + "mapfn monotone, within [0,1/2] on a 401-point float grid (native, bounded)",
               bool(numpy.all(numpy.diff(vals) >= 0) and vals.min() >= 0 and vals.max() <= 0.5), kind="native")
    if which == "Haldane":
        a, b = real("a"), real("b")
        ra, rb, rab = f.mapfn(a), f.mapfn(b), f.mapfn(a + b)
        ctx.prove(n + "mapfn:composition r(a+b)=r(a)(1-r(b))+(1-r(a))r(b)", [exp_add(-2 * a.t, -2 * b.t)],
                  rab.t == ra.t * (1 - rb.t) + (1 - ra.t) * rb.t)


@unit(P, "lemma[HaldaneMapFunction laws]", "L", targets=[GM + "HaldaneMapFunction.py:HaldaneMapFunction.mapfn",
                                                         GM + "HaldaneMapFunction.py:HaldaneMapFunction.invmapfn"])
def u_haldane(ctx):
    mapfn_lemmas(ctx, "Haldane")


@unit(P, "lemma[KosambiMapFunction laws]", "L", targets=[GM + "KosambiMapFunction.py:KosambiMapFunction.mapfn",
                                                         GM + "KosambiMapFunction.py:KosambiMapFunction.invmapfn"])
def u_kosambi(ctx):
    mapfn_lemmas(ctx, "Kosambi")


# ---------------------------------------------------------------------------
# sequential genetic distances (mode A2, loop invariant)
from pyvc import npmodel, loopcut
from pyvc.arr import EArr
from pyvc.sym import cur, _t, fresh_int


def prove_gdist1g(ctx, relpath, clsname):
    target = "%s:%s.gdist1g" % (relpath, clsname)
    box = {}

    def spec(chr_, gp, j):
        return z3.If(z3.Or(j == 0, chr_.at(j) != chr_.at(j - 1)), sym.INF, gp.at(j) - gp.at(j - 1))

    def inv(st):
        out, start, stop = st["out"], st["start"], st["stop"]
        k, N = _t(st["_k"]), _t(st["_N"])
        chr_, gp = box["chr"], box["gp"]
        n = _t(chr_.shape[0])
        j = z3.Int("q_j")
        bound = z3.If(k < N, start.at(k), n)
        d = {}
        if st["_phase"] == "preserve":
            # intermediate assertion: inside the run just written the chromosome label is constant
            kk = k - 1
            sk = start.at(kk)
            d["hint:run-in-range"] = z3.And(0 <= sk, sk < stop.at(kk), stop.at(kk) <= n, stop.at(kk) == sk + box["counts"].at(kk))
            d["hint:next-bound-is-stop"] = bound == stop.at(kk)
            uq = box["uniq"]
            d["hint:prev-run-adjacent"] = z3.Implies(kk > 0, z3.And(start.at(kk - 1) + box["counts"].at(kk - 1) == sk, start.at(kk - 1) < sk,
                                                                  uq.at(kk - 1) < uq.at(kk)))
            d["hint:prev-run-label"] = z3.Implies(kk > 0, chr_.at(sk - 1) == uq.at(kk - 1))
            d["hint:this-run-label"] = chr_.at(sk) == uq.at(kk)
            d["hint:first-run-starts-at-0"] = z3.Implies(kk == 0, sk == 0)
            d["hint:run-start-is-a-chromosome-start"] = z3.Or(sk == 0, chr_.at(sk) != chr_.at(sk - 1))
            d["hint:run-constant"] = z3.ForAll([j], z3.Implies(z3.And(sk < j, j < stop.at(kk)), chr_.at(j) == chr_.at(j - 1)))
            d["hint:written-start"] = out.at(sk) == sym.INF
            d["hint:written-run"] = z3.ForAll([j], z3.Implies(z3.And(sk < j, j < stop.at(kk)), out.at(j) == gp.at(j) - gp.at(j - 1)))
        d["stop==start+counts"] = z3.ForAll([j], z3.Implies(z3.And(0 <= j, j < N), stop.at(j) == start.at(j) + box["counts"].at(j)))
        d["prefix-done"] = z3.ForAll([j], z3.Implies(z3.And(0 <= j, j < bound), out.at(j) == spec(chr_, gp, j)))
        return d
    f = loopcut.Extracted(target, loop_specs={"0": inv}, overrides={
        "check_is_ndarray": lambda *a: None, "check_ndarray_dtype_is_integer": lambda *a: None,
        "check_ndarray_dtype_is_floating": lambda *a: None})
    ctx.trust("+inf is an opaque constant (only stored and compared)", "numpy basic slicing semantics incl. clipping")
    ex = ctx.explorer()
    real_unique = npmodel.EL_FUNCS["unique"]

    def thunk():
        e = cur()
        n = fresh_int("n", 0)
        chr_ = EArr.fresh("chr", (n,), numpy.int64)
        gp = EArr.fresh("genpos", (n,), numpy.float64)
        q = z3.Int("q_s")
        e.assume(z3.ForAll([q], z3.Implies(z3.And(0 <= q, q < n.t - 1), chr_._fn(q) <= chr_._fn(q + 1))))   # pre: sorted by chromosome
        box.update(chr=chr_, gp=gp)

        def unique(a, **kw):
            r = real_unique(a, **kw)
            box["counts"] = r[2]
            box["uniq"] = r[0]
            return r
        npmodel.EL_FUNCS["unique"] = unique
        try:
            out = f(None, chr_, gp)
        finally:
            npmodel.EL_FUNCS["unique"] = real_unique
        j1 = z3.Int(e.fresh_name("j"))
        e.assume(z3.And(0 <= j1, j1 < n.t))
        nm = clsname + ".gdist1g"
        e.prove(nm + ":post:shape", z3.And(out.ndim == 1, _t(out.shape[0]) == n.t))
        e.prove(nm + ":post:+inf-at-chromosome-starts-else-first-difference", out.at(j1) == spec(chr_, gp, j1))
        e.prove(nm + ":canary:zero-at-chromosome-starts", out.at(j1) == z3.If(z3.Or(j1 == 0, chr_.at(j1) != chr_.at(j1 - 1)),
                                                                          z3.RealVal(0), gp.at(j1) - gp.at(j1 - 1)), expect="fail", timeout_ms=1500)
        return out
    with npmodel.patched_numpy():
        outs = ex.explore(thunk)
    ctx.absorb(ex)
    raised = [o for o in outs if isinstance(o, sym.Raised)]
    ctx.record(clsname + ".gdist1g:noraise", not raised, kind="noraise", detail="; ".join(repr(r) + r.tb[-800:] for r in raised[:1]))
    ctx.record(clsname + ".gdist1g:every-loop-cut", f.loops_cut == set(f.loops), kind="cover", detail=str(f.loops))


@unit(P, "loop[StandardGeneticMap.gdist1g]", "A2", targets=[GM + "StandardGeneticMap.py:StandardGeneticMap.gdist1g"])
def u_gd1_std(ctx):
    prove_gdist1g(ctx, GM + "StandardGeneticMap.py", "StandardGeneticMap")


@unit(P, "loop[ExtendedGeneticMap.gdist1g]", "A2", targets=[GM + "ExtendedGeneticMap.py:ExtendedGeneticMap.gdist1g"])
def u_gd1_ext(ctx):
    prove_gdist1g(ctx, GM + "ExtendedGeneticMap.py", "ExtendedGeneticMap")


# the crossover-probability clause of the matrices: interp_xoprob stores mapfn(gdist1g(chr, interp_genpos(chr, phys))) of the map
# supplied NOW, whatever positions the matrix carried before (same unit as C02's)
@unit(P, "A1[interp_xoprob == mapfn(gdist1g(chr, interp_genpos(chr, phys))) and stores both]", "A1", targets=[
    "pybrops/popgen/gmap/DenseGeneticMappableMatrix.py:DenseGeneticMappableMatrix.interp_xoprob",
    "pybrops/popgen/gmap/HaldaneMapFunction.py:HaldaneMapFunction.rprob1g"])
def u_interp_xoprob(ctx):
    from contracts import C02 as _c02          # imported here: contracts.C02 itself imports this module
    return _c02.u_interp(ctx)


@unit(P, "lemma[cM2d: centiMorgans to Morgans is division by 100]", "L", targets=["pybrops/popgen/gmap/util.py:cM2d"])
def u_cm2d(ctx):
    from pybrops.popgen.gmap.util import cM2d
    x = real("cM")
    ctx.prove("cM2d(x) == x / 100 (the float constant 0.01 is read as 1/100)", [], sym._t(cM2d(x)) * 100 == x.t)
    ctx.prove("canary: cM2d(x) == x", [x.t != 0], sym._t(cM2d(x)) == x.t, expect="fail", timeout_ms=2000)


# ---------------------------------------------------------------------------
# the physical-position forms are the genetic-position forms of the interpolated positions ("sequential distances agree with the
# pairwise ones", "crossover probabilities equal the map function of consecutive interpolated distances"): wiring contracts of the
# thin wrappers gdist1p / gdist2p (both map classes) and rprob1g / rprob2g / rprob1p / rprob2p (both map functions)
@unit(P, "A1[gdist1p/gdist2p == gdist1g/gdist2g(chr, interp_genpos(chr, phys), window); rprob* == mapfn(gdist*)]", "A1", targets=[
    GM + "StandardGeneticMap.py:StandardGeneticMap.gdist1p", GM + "StandardGeneticMap.py:StandardGeneticMap.gdist2p",
    GM + "ExtendedGeneticMap.py:ExtendedGeneticMap.gdist1p", GM + "ExtendedGeneticMap.py:ExtendedGeneticMap.gdist2p",
    GM + "HaldaneMapFunction.py:HaldaneMapFunction.rprob1p", GM + "KosambiMapFunction.py:KosambiMapFunction.rprob1p"])
def u_wrappers(ctx):
    import importlib, functools
    from pyvc import oarr, loopcut
    from pyvc.oarr import OArr, same
    from pyvc.sym import cur, fresh_int
    ctx.trust("interp_genpos / gdist1g / gdist2g / mapfn stand for their contracts (their own units); opaque arrays")
    ex = ctx.explorer()

    def thunk():
        e = cur()
        for cname in ("StandardGeneticMap", "ExtendedGeneticMap"):
            cls = getattr(importlib.import_module("pybrops.popgen.gmap." + cname), cname)
            for meth, nwin in (("gdist1p", 2), ("gdist2p", 4)):
                for windowed in (False, True):
                    p = fresh_int("p", 0)
                    chr_, phy = OArr.fresh("chr", (p,), "int64"), OArr.fresh("phy", (p,), "int64")
                    win = tuple(fresh_int("w%d" % k, 0) for k in range(nwin)) if windowed else (None,) * nwin
                    calls = []
                    me = loopcut.stub_of(cls)

                    def interp_genpos(vrnt_chrgrp, vrnt_phypos, **kw):
                        calls.append(("interp_genpos", vrnt_chrgrp, vrnt_phypos, (), {k: v for k, v in kw.items() if v is not None and v != {}}))
                        me.gp = OArr.fresh("genpos", (vrnt_chrgrp.shape[0],), "float64")
                        return me.gp

                    def gd(kind):
                        def f(vrnt_chrgrp, vrnt_genpos, **kw):
                            calls.append((kind, vrnt_chrgrp, vrnt_genpos, (), kw))
                            me.d = OArr.fresh("gdist", (fresh_int("m", 0),), "float64")
                            return me.d
                        return f
                    # stand-ins accept exactly the calls the real methods accept (positional or by the library's keyword names)
                    me.interp_genpos = loopcut.like(functools.partial(cls.interp_genpos, None), interp_genpos)
                    me.gdist1g = loopcut.like(functools.partial(cls.gdist1g, None), gd("gdist1g"))
                    me.gdist2g = loopcut.like(functools.partial(cls.gdist2g, None), gd("gdist2g"))
                    out = getattr(cls, meth)(me, chr_, phy, *win)
                    n = "%s.%s%s:" % (cname, meth, "[window]" if windowed else "")
                    e.prove(n + "positions := interp_genpos(ALL chr, ALL phys)", len(calls) >= 1 and calls[0][0] == "interp_genpos"
                            and same(calls[0][1], chr_) and same(calls[0][2], phy) and not calls[0][3] and not calls[0][4])
                    tgt = meth[:-1] + "g"
                    names = ("ast", "asp") if nwin == 2 else ("rst", "rsp", "cst", "csp")

                    def window_of(c):
                        return tuple(c[4].get(nm) for nm in names)

                    def same_w(a, b):
                        return (a is None and b is None) or (a is not None and b is not None and sym._t(a).eq(sym._t(b)))
                    ok = len(calls) == 2 and calls[1][0] == tgt
                    e.prove(n + "distance := %s(ALL chr, interpolated positions, the caller's window)" % tgt,
                            ok and same(calls[1][1], chr_) and same(calls[1][2], me.gp)
                            and all(same_w(a, b) for a, b in zip(window_of(calls[1]), win)))
                    e.prove(n + "returns that distance", ok and same(out, me.d))
        for which in ("Haldane", "Kosambi"):
            MF = getattr(importlib.import_module("pybrops.popgen.gmap.%sMapFunction" % which), "%sMapFunction" % which)
            for meth, callee, gen in (("rprob1g", "gdist1g", True), ("rprob2g", "gdist2g", True),
                                      ("rprob1p", "gdist1p", False), ("rprob2p", "gdist2p", False)):
                p = fresh_int("p", 0)
                chr_ = OArr.fresh("chr", (p,), "int64")
                pos = OArr.fresh("pos", (p,), "float64" if gen else "int64")
                calls, seen = [], {}

                class GMap:
                    pass
                gm = GMap()

                def mk(kind):
                    def f(**kw):
                        vals = list(kw.values())
                        calls.append((kind, vals[0], vals[1], (), {k: v for k, v in list(kw.items())[2:] if not isinstance(v, dict) or v}))
                        gm.d = OArr.fresh("gdist", (fresh_int("m", 0),), "float64")
                        return gm.d
                    return f
                from pybrops.popgen.gmap.StandardGeneticMap import StandardGeneticMap as _SGM
                for k in ("gdist1g", "gdist2g", "gdist1p", "gdist2p"):
                    setattr(gm, k, loopcut.like(functools.partial(getattr(_SGM, k), None), mk(k)))
                mf = loopcut.stub_of(MF)

                def mapfn(d):
                    seen["arg"] = d
                    seen["out"] = OArr.fresh("r", d.shape, "float64")
                    return seen["out"]
                mf.mapfn = loopcut.like(functools.partial(MF.mapfn, None), mapfn)
                out = getattr(MF, meth)(mf, gm, chr_, pos)
                n = "%sMapFunction.%s:" % (which, meth)
                e.prove(n + "distance := gmap.%s(chr, positions), whole arrays, no window" % callee,
                        len(calls) == 1 and calls[0][0] == callee and same(calls[0][1], chr_) and same(calls[0][2], pos)
                        and all(v is None for v in calls[0][4].values()))
                e.prove(n + "returns mapfn(that distance)", len(calls) == 1 and seen.get("arg") is gm.d and same(out, seen.get("out")))
        return "ok"
    with oarr.patched_numpy(), loopcut.patched_modules(["pybrops.*"]):
        outs = ex.explore(thunk)
    ctx.absorb(ex)
    raised = [o for o in outs if isinstance(o, sym.Raised)]
    ctx.record("wrappers:noraise", not raised, kind="noraise", detail="; ".join(repr(r) + r.tb[-700:] for r in raised[:1]))
    ctx.record("wrappers:cover:returns", any(o == "ok" for o in outs), kind="cover")


# ---------------------------------------------------------------------------
# pairwise distances with row / column windows: the window is the corresponding block of the full matrix
@unit(P, "B[gdist2g(rows, cols) == |g_i - g_j| within a chromosome, +inf across chromosomes, for every row / column window]", "B", bounded=True,
      targets=[GM + "StandardGeneticMap.py:StandardGeneticMap.gdist2g", GM + "ExtendedGeneticMap.py:ExtendedGeneticMap.gdist2g"],
      note="bounded(shape): <=5 markers on 1-3 chromosomes (concrete chromosome labels), every window pair from a small grid incl. "
           "off-diagonal and rectangular ones; genetic positions symbolic reals")
def u_b_gdist2g(ctx):
    import importlib
    from pyvc import barr, modeb
    from pyvc.sym import _t
    R = lambda x: (z3.ToReal(_t(x)) if _t(x).sort() == z3.IntSort() else _t(x))

    def body(e, shape, tag):
        cname, chrs = shape
        cls = getattr(importlib.import_module("pybrops.popgen.gmap." + cname), cname)
        me = object.__new__(cls)
        n = len(chrs)
        chr_ = numpy.array(chrs, dtype="int64")
        g = barr.fresh("g", (n,), "float64")
        fr = modeb.Frame(g=g)
        wins = [(None, None), (0, 2), (1, 3), (1, n), (n - 2, n), (1, 2)]
        span = lambda w: len(list(range(n))[w[0]:w[1]])
        # square tiles first (a routine that only fails on rectangular tiles still gets its square tiles checked)
        for rw, cw in sorted(((r, c) for r in wins for c in wins), key=lambda rc: span(rc[0]) != span(rc[1])):
            if True:
                out = cls.gdist2g(me, chr_, g, rw[0], rw[1], cw[0], cw[1])
                rows = list(range(n))[rw[0]:rw[1]]
                cols = list(range(n))[cw[0]:cw[1]]
                nm = "%s:rows[%s:%s],cols[%s:%s]" % (tag, rw[0], rw[1], cw[0], cw[1])
                if tuple(out.shape) != (len(rows), len(cols)):
                    e.prove(nm + ":shape", False)
                    continue
                cs = []
                for a, i in enumerate(rows):
                    for b, j in enumerate(cols):
                        d = R(g[i]) - R(g[j])
                        cs.append(R(out[a, b]) == (z3.If(d >= 0, d, -d) if chrs[i] == chrs[j] else sym.INF))
                e.prove(nm + ":block-of-the-full-matrix", z3.And(*cs) if cs else True)
        e.prove(tag + ":frame:positions-not-written", fr.unchanged())
        return "ok"
    shapes = [(c, chrs) for c in ("StandardGeneticMap", "ExtendedGeneticMap") for chrs in ((1, 1, 2, 2), (1, 2, 2, 3, 3))]
    modeb.run_shapes(ctx, "gdist2g", shapes, body)
