import sys, time
sys.path.insert(0, '/verif')
import pyvc; pyvc.install_shim()
import numpy, z3
from pyvc import sym, arr, npmodel, loopcut
from pyvc.sym import *
from pyvc.sym import _t
from pyvc.arr import EArr

GH = {}
class SymRng:
    def uniform(self, lo, hi, shape):
        a = EArr.fresh("rnd", tuple(shape), numpy.float64)
        i,j = z3.Ints("q_i q_j")
        cur().assume(z3.ForAll([i,j], z3.And(a._fn(i,j) >= lo, a._fn(i,j) < hi)))
        GH['on_draw'](a)
        return a

def inv_outer(st, k):
    g, geno, sel, xoprob = st['gamete'], st['geno'], st['sel'], st['xoprob']
    PH = GH['ph']
    r, j = z3.Ints("q_r q_j")
    p = _t(xoprob.shape[0])
    return z3.ForAll([r,j], z3.Implies(z3.And(0<=r, r<_t(k), 0<=j, j<p), g.at(r,j) == geno.at(PH(r,j), sel.at(r), j)))

def specs_outer(st):
    d = {}
    if st['_phase'] == 'preserve':
        PH = GH['ph']; j = z3.Int("q_j"); p = _t(st['xoprob'].shape[0])
        d["hint:tail"] = z3.ForAll([j], z3.Implies(z3.And(_t(st['stix']) <= j, j < p), PH(_t(st['i']), j) == _t(st['phase'])))
        g, geno = st['gamete'], st['geno']
        d["hint:row"] = z3.ForAll([j], z3.Implies(z3.And(0 <= j, j < p), g.at(_t(st['i']), j) == geno.at(PH(_t(st['i']), j), _t(st['s']), j)))
    d["rows_done"] = inv_outer(st, st['_k'])
    return d
def specs_inner(st):
    PH = GH['ph']
    g, geno, xoix = st['gamete'], st['geno'], st['xoix']
    i, s = st['i'], st['s']
    stix, phase, k = st['stix'], st['phase'], st['_k']
    p = _t(st['xoprob'].shape[0])
    j = z3.Int("q_j")
    ti, ts, tst, tph, tk = _t(i), _t(s), _t(stix), _t(phase), _t(k)
    d = {}
    d["stix"] = z3.And(z3.Implies(tk == 0, tst == 0), z3.Implies(tk > 0, tst == xoix.at(tk-1)), 0 <= tst, tst <= p)
    d["phase"] = z3.And(z3.Or(tph==0, tph==1), z3.Implies(tk == 0, z3.And(tph == 0, tph == PH(ti, -1))), z3.Implies(tk > 0, tph == PH(ti, tst)))
    d["prefix"] = z3.ForAll([j], z3.Implies(z3.And(0<=j, j<tst), g.at(ti,j) == geno.at(PH(ti,j), ts, j)))
    d["rows_done"] = inv_outer(st, i)
    return d

def main(target="pybrops/breed/prot/mate/util.py:mat_meiosis"):
    ex = Explorer(unit="mat_meiosis")
    f = loopcut.Extracted(target, loop_specs={"0": specs_outer, "0.0": specs_inner})
    def thunk():
        e = cur()
        n = fresh_int("n", 0); p = fresh_int("p", 0); t = fresh_int("t", 1)
        geno = EArr.fresh("geno", (2, t, p), numpy.int8)
        sel = EArr.fresh("sel", (n,), numpy.int64)
        xoprob = EArr.fresh("xoprob", (p,), numpy.float64)
        q = z3.Int("q_k")
        e.assume(z3.ForAll([q], z3.Implies(z3.And(0<=q, q<n.t), z3.And(0 <= sel._fn(q), sel._fn(q) < t.t))))
        ph = z3.Function(e.fresh_name("ph"), z3.IntSort(), z3.IntSort(), z3.IntSort())
        GH['ph'] = ph
        def on_draw(rnd):
            r, j, a, tt = z3.Ints("q_r q_j q_a q_t")
            hit = lambda r_, t_: rnd._fn(r_, t_) < xoprob._fn(t_)
            GH['hit'] = hit
            e.assume(z3.ForAll([r], ph(r, -1) == 0))
            e.assume(z3.ForAll([r, j], z3.Implies(j >= 0, ph(r, j) == z3.If(hit(r, j), 1 - ph(r, j-1), ph(r, j-1))), patterns=[ph(r,j)]))
            # lemma SEG by induction on j
            r0, a0, j0 = z3.Int(e.fresh_name("r")), z3.Int(e.fresh_name("a")), z3.Int(e.fresh_name("j"))
            P = lambda rr, aa, jj: z3.Implies(z3.And(-1 <= aa, aa <= jj, z3.ForAll([tt], z3.Implies(z3.And(aa < tt, tt <= jj), z3.Not(hit(rr, tt))))), ph(rr, jj) == ph(rr, aa))
            e.prove("lemma:SEG:base", P(r0, a0, a0), kind="lemma")
            # step
            saved = list(e.assumptions)
            e.assume(a0 <= j0); e.assume(P(r0, a0, j0))
            e.prove("lemma:SEG:step", P(r0, a0, j0+1), kind="lemma")
            e.assumptions[:] = saved
            e.assume(z3.ForAll([r, a, j], P(r, a, j), patterns=[z3.MultiPattern(ph(r,j), ph(r,a))]))
        GH['on_draw'] = on_draw
        res = f(geno, sel, xoprob, SymRng())
        # post
        r, j = z3.Ints("q_r q_j")
        e.prove("post:shape", z3.And(_t(res.shape[0]) == n.t, _t(res.shape[1]) == p.t))
        r1, j1 = z3.Int(e.fresh_name("r")), z3.Int(e.fresh_name("j"))
        e.assume(z3.And(0 <= r1, r1 < n.t, 0 <= j1, j1 < p.t))
        e.prove("post:mosaic", res.at(r1, j1) == geno.at(ph(r1, j1), sel.at(r1), j1))
        e.prove("canary:shifted", res.at(r1, j1) == geno.at(1-ph(r1, j1), sel.at(r1), j1), expect="fail", timeout_ms=1500)
        return res
    t0=time.time()
    with npmodel.patched_numpy():
        outs = ex.explore(thunk)
    print(time.time()-t0, len(outs))
    for o in outs: print(o if not isinstance(o, sym.Raised) else (o, o.tb))
    for ob in ex.obligations: print(ob['name'], ob['path'], ob['status'], ob['seconds'], ob['solver'])
main(*sys.argv[1:])
