import sys, time
sys.path.insert(0, '/verif')
import pyvc; pyvc.install_shim()
import numpy, z3
from pyvc import sym, arr, npmodel, loopcut
from pyvc.sym import *
from pyvc.sym import _t
from pyvc.arr import EArr

class SymRng:
    def __init__(self): self.draws=[]
    def uniform(self, lo, hi, shape):
        a = EArr.fresh("rnd", tuple(shape), numpy.float64)
        i,j = z3.Ints("q_i q_j")
        cur().assume(z3.ForAll([i,j], z3.And(a._fn(i,j) >= lo, a._fn(i,j) < hi)))
        self.draws.append(a)
        return a

def inv_outer(st):
    # rows < k final
    g, geno, sel, rnd, xoprob = st['gamete'], st['geno'], st['sel'], st['rnd'], st['xoprob']
    PH = st['_ghost_ph']
    k = st['_k']
    r, j = z3.Ints("q_r q_j")
    p = _t(xoprob.shape[0])
    return z3.ForAll([r,j], z3.Implies(z3.And(0<=r, r<_t(k), 0<=j, j<p), g.at(r,j) == geno.at(PH(r,j), sel.at(r), j)))

def main():
    ex = Explorer(unit="mat_meiosis")
    def specs_outer(st):
        st['_ghost_ph'] = GH['ph']
        return {"rows_done": inv_outer(st)}
    def specs_inner(st):
        PH = GH['ph']
        g, geno, xoix = st['gamete'], st['geno'], st['xoix']
        i, s = st['i'], st['s']
        stix, phase, k = st['stix'], st['phase'], st['_k']
        p = _t(st['xoprob'].shape[0])
        j = z3.Int("q_j")
        ti, ts, tst, tph, tk = _t(i), _t(s), _t(stix), _t(phase), _t(k)
        d = {}
        d["stix"] = z3.And(z3.Implies(tk == 0, tst == 0), z3.Implies(tk > 0, tst == xoix.at(tk-1)), 0 <= tst, tst <= p)
        d["phase"] = z3.And(z3.Or(tph==0, tph==1), z3.Implies(tk == 0, tph == 0), z3.Implies(tk > 0, tph == PH(ti, tst)))
        d["prefix"] = z3.ForAll([j], z3.Implies(z3.And(0<=j, j<tst), g.at(ti,j) == geno.at(PH(ti,j), ts, j)))
        st2 = dict(st); st2['_k'] = i
        d["rows_done"] = inv_outer({**st, '_k': i, '_ghost_ph': PH})
        return d
    GH = {}
    f = loopcut.Extracted("pybrops/breed/prot/mate/util.py:mat_meiosis", loop_specs={"0": specs_outer, "0.0": specs_inner})
    def thunk():
        n = fresh_int("n", 0); p = fresh_int("p", 0); t = fresh_int("t", 1)
        geno = EArr.fresh("geno", (2, t, p), numpy.int8)
        sel = EArr.fresh("sel", (n,), numpy.int64)
        xoprob = EArr.fresh("xoprob", (p,), numpy.float64)
        q = z3.Int("q_k")
        cur().assume(z3.ForAll([q], z3.Implies(z3.And(0<=q, q<n.t), z3.And(0 <= sel._fn(q), sel._fn(q) < t.t))))
        rng = SymRng()
        # ghost ph
        ph = z3.Function(cur().fresh_name("ph"), z3.IntSort(), z3.IntSort(), z3.IntSort())
        GH['ph'] = ph
        res = f(geno, sel, xoprob, rng)
        return res
    t0=time.time()
    with npmodel.patched_numpy():
        outs = ex.explore(thunk)
    print(time.time()-t0, len(outs))
    for o in outs: print(o if not isinstance(o, sym.Raised) else (o, o.tb))
    for ob in ex.obligations: print(ob)
main()
