#!/bin/sh
# usage: tools/seedtest_scratch.sh <seed id> [<property>] : like seedtest.sh but on a scratch export of /repo's HEAD ($SCRATCH, default
# /var/tmp/pbh) with a scratch evidence directory -- for use while /repo itself is busy (a matrix run).  Development aid, not registered.
ID="$1"; HERE="$(cd "$(dirname "$0")/.." && pwd)"; SCRATCH="${SCRATCH:-/var/tmp/pbh}"
[ -d "$SCRATCH/pybrops" ] || { mkdir -p "$SCRATCH" && git -C /repo archive HEAD | tar -x -C "$SCRATCH"; }   # scratch export of /repo HEAD (outside /repo and /verif; remove it when done)
PID="${2:-$(python3 -c "import json;print(json.load(open('$HERE/seeded/$ID/meta.json'))['property'])")}"
( cd "$SCRATCH" && patch -p1 -s < "$HERE/seeded/$ID/patch.diff" ) || exit 9
mkdir -p /var/tmp/ev /var/tmp/thorough
PYBROPS_REPO="$SCRATCH" PYVC_EVIDENCE_DIR=/var/tmp/ev "$HERE/check" "$PID" > /var/tmp/thorough/seedtest-$ID-$PID.log 2>&1; RC=$?
( cd "$SCRATCH" && patch -R -p1 -s < "$HERE/seeded/$ID/patch.diff" )
L=/var/tmp/thorough/seedtest-$ID-$PID.log
echo "$ID $PID exit=$RC violations=$(grep -c '^VIOLATION' $L) no_input=$(grep -c 'no-failing-input-found' $L) proof_lost=$(grep -c '^PROOF-LOST' $L) failed_obl=$(grep -c 'FAILED-OBLIGATION' $L) $(grep 'failed obligation' $L | head -1 | cut -c1-140)"
