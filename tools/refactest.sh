#!/bin/sh
# usage: tools/refactest.sh <worktree> <property> : behaviour-preserving refactorings (refactor_<k>.diff in the worktree) must NOT
# raise an alarm.  Each is applied to a scratch export of /repo's HEAD ($SCRATCH, default /var/tmp/pbh), the quick check runs there.
WT="$(cd "$1" && pwd)"; PID="$2"; SCRATCH="${SCRATCH:-/var/tmp/pbh}"; HERE="$(cd "$(dirname "$0")/.." && pwd)"
[ -d "$SCRATCH/pybrops" ] || { mkdir -p "$SCRATCH" && git -C /repo archive HEAD | tar -x -C "$SCRATCH"; }   # scratch export of /repo HEAD (outside /repo and /verif; remove it when done)
mkdir -p /var/tmp/thorough/ev
for d in "$WT"/refactor_*.diff; do
  [ -s "$d" ] || continue
  k=$(basename "$d" .diff)
  ( cd "$SCRATCH" && patch -p1 -s < "$d" ) || { echo "$(basename "$WT") $k: patch does not apply"; continue; }
  PYBROPS_REPO="$SCRATCH" PYVC_EVIDENCE_DIR=/var/tmp/thorough/ev "$HERE/check" "$PID" > /var/tmp/thorough/refac-$PID-$k.log 2>&1; rc=$?
  ( cd "$SCRATCH" && patch -R -p1 -s < "$d" )
  echo "$(basename "$WT") $k: exit=$rc violations=$(grep -c '^VIOLATION' /var/tmp/thorough/refac-$PID-$k.log) proof_lost=$(grep -c '^PROOF-LOST' /var/tmp/thorough/refac-$PID-$k.log) $(grep -E '^(UNDECIDED|TOOL-ERROR|RING-STOPPED)' /var/tmp/thorough/refac-$PID-$k.log | head -1 | cut -c1-120)"
done
