# read by tools/mkmanifest.py
SOURCE_COMMITS = []
TRUST_COMMON = ("Trusted: numpy/scipy/h5py/pandas/pymoo contracts of DESIGN §4.3 as listed per run in evidence.trusted_base; "
                "floats read as reals and machine integers as mathematical integers except in named float-exact obligations; "
                "numpy-2 compatibility shim in the harness process. ")
CLAIMED["C01"] = dict(
    level="proof",
    technique="deductive: loop-invariant VCs generated from the real source (AST loop cutting, CPython proxy execution), z3/cvc5; native ring as bounded stand-in for the protocol classes",
    text="The meiosis kernels (mat_meiosis, dense_meiosis) are proved against the ghost copy-function contract for all array "
         "sizes, index vectors, crossover vectors and generator outcomes (loop invariants, induction lemmas); mat_mate/mat_dh/"
         "dense_cross/dense_dh are proved modularly against the kernel contract. The seven mate() methods are covered by a "
         "bounded native ring with provenance-coded founders (labelled bounded in evidence, not counted as proved).",
    note=TRUST_COMMON + "Assumed contracts: numpy.flatnonzero, numpy.stack, numpy.empty, Generator.uniform range. "
         "Progeny counters below 10^7 (zero-padded names keep generation order).",
)
CLAIMED["C20"] = dict(
    level="proof",
    technique="deductive: loop-invariant VCs over a ghost operator trace, generated from the real evolve/advance/reset source (loop cutting + CPython proxy execution with havoc operators), z3",
    text="evolve, advance and reset are proved for all replicate/generation counts and arbitrary (havoc) operator and logbook "
         "implementations: per-cycle operator order, exactly-once, state hand-over by identity, time index, logging after each step, "
         "deep-copied replicate start, start containers never passed to an operator nor reassigned. A native ring with "
         "instrumented mutating operators is the bounded stand-in / replay route.",
    note=TRUST_COMMON + "Assumed: copy.deepcopy returns an equal object sharing no mutable state; operators cannot reach the "
         "start_* containers except through their arguments (frame argument).",
)
CLAIMED["C11"] = dict(
    level="proof",
    technique="deductive lemmas (z3 nonlinear real arithmetic) over the formulas obtained by executing the real mapfn/invmapfn on symbolic reals; native ring for the map classes",
    text="Haldane/Kosambi laws (0->0, range [0,1/2), strict monotonicity, inverse pairs, Haldane composition) are proved for all "
         "real distances from the real methods' formulas with explicit instances of the exp/log laws; IEEE special values are "
         "checked natively. Genetic-map distance/interpolation clauses are covered by the bounded native ring.",
    note=TRUST_COMMON + "exp/log laws are trusted instances; scipy interp1d behaviour is outside the contracts (ring only).",
)
import subprocess as _sp
SOURCE_COMMITS += [l.split()[0][:8] for l in _sp.check_output(["git","-C","/repo","log","--format=%h %s"]).decode().splitlines() if l.split(" ",1)[1].startswith("fix:")][::-1]
CLAIMED["C03"] = dict(
    level="proof",
    technique="deductive, proxy execution: the real matrix-class methods run on opaque symbolic arrays (uninterpreted numpy operators, symbolic shapes); per-operation uniformity/frame/WF obligations discharged by congruence (z3); induction over histories by the class invariant",
    text="For 11 concrete matrix classes (taxa, variant, trait, taxa-variant, phased, taxa-trait, square-taxa, square-taxa-trait, "
         "unphased/phased genotype, coancestry) and ~30 structural operations each (axis-specific and axis-generic select, delete, "
         "insert, adjoin, concat, append, remove, incorp, reorder, lexsort, sort, group, ungroup, copy, deepcopy), in several "
         "label-presence configurations, every output field is proved equal to the same numpy operator with the same index argument "
         "applied to the corresponding input field, other axes untouched, operands and pre-existing buffers unmodified, constructor "
         "checks (WF) passing for all shapes. Random operation histories on id-coded matrices are the bounded native ring. Two genuine "
         "defects were repaired (fix: commits), two are recorded as known findings with guarded twins still proved.",
    note=TRUST_COMMON + "numpy structural operators are opaque functions with assumed shape rules (pyvc/oarr.py); the element-level "
         "position-map lemma per operator (take/delete/insert/concatenate) is assumed from numpy's documentation and differential-tested "
         "by the ring. DenseBreedingValueMatrix structural operations are handled under C15.",
)

RING = ("A bounded native ring (real code, oracle written from the statement, seeded + exhaustive small scopes; bounds in evidence) is the "
        "stand-in for everything not proved and the replay route for counterexamples. ")

def _claim(pid, level, technique, text, note):
    CLAIMED[pid] = dict(level=level, technique=technique, text=text, note=TRUST_COMMON + note)

_claim("C02", "exploration",
       "bounded native enumeration of the exact gamete law with scripted generators (stand-in); the deterministic reduction is carried by the C01 kernel contract and the C11 map-function lemmas",
       "The distributional statement is reduced to deterministic facts: switch between j-1 and j iff the draw is below xoprob[j] (kernel contract, proved under C01), "
       "Haldane composition and map-function range (lemmas proved under C11). What is checked here is bounded: the exact outcome law of the real kernels and of all "
       "seven mate() protocols is enumerated with scripted generators for p<=4 markers and compared with the law written from the statement; interp_xoprob is "
       "compared with mapfn(distance to previous marker) on seeded maps. Convergence itself (law of large numbers, i.i.d. draws) is an assumption.",
       "i.i.d. U[0,1) draws and the law of large numbers are assumed, not verified.")
_claim("C04", "exploration", "bounded native ring (deductive units for the linear forms are planned; none claimed yet)",
       "Bounded: predictions, variances, allele summaries and rrBLUP clauses are compared with loop oracles on seeded and exhaustive small cases incl. >127 taxa "
       "and bad copy numbers. Two genuine defects are recorded as known findings, one was repaired.", "rrBLUP convergence is outside the reach of contracts (iterative floating point).")
_claim("C05", "exploration", "bounded native ring over all ~60 problem classes (no deductive unit claimed yet)",
       "Bounded: latent functions vs independent definitions, encoding agreement, order/scale invariance, evalfn == weights x transformations, factory data, "
       "for n<=8 candidates. Three genuine defects repaired, five recorded.", "")
_claim("C06", "exploration", "bounded native ring (tiny optimiser budgets, exhaustive small subset problems)",
       "Bounded: every optimiser class is run on small problems with trap objectives; decision-space membership, exact re-evaluation, non-domination, problem "
       "immutability, brute-force optimum of the sorting optimiser and exchange-local optimality of the hill-climbers. pymoo internals are an assumed contract.",
       "pymoo 0.6.2 behaviour is assumed; OS-entropy seeding is pinned in the ring (see C08 findings).")
_claim("C07", "exploration", "bounded native ring",
       "Bounded: sample_xconfig of every configuration class (shape, membership, multiplicities, exchange-local optimality by brute force), cross-map index "
       "generators exhaustively, truncation exactness and equivariance with the exact optimiser, select() data flow for 6 protocol families x 4 encodings.", "")
_claim("C08", "exploration", "bounded native ring of seeded programs and explicit-generator isolation, with a guarded twin for the known pymoo-entropy defect",
       "Bounded: random programs of stochastic API calls are re-run after re-seeding under different interpreter histories and compared bit for bit; with an explicit "
       "generator the result must depend only on its state and the global streams must be untouched. Five genuine defect classes are recorded as known findings; "
       "the guarded twin (pymoo's OS entropy pinned) must pass.", "Determinism of numpy/python generators given their state is assumed.")
_claim("C09", "other",
       "bounded symbolic execution of the real methods (mode B: real numpy on symbolic scalars, all allele patterns for small shapes, z3) + exhaustive float enumeration over copy numbers (mode F) + native ring",
       "Not a proof: every statistic of both genotype classes is proved equal to its textbook definition for ALL allele patterns but only for shapes up to 3 taxa x 3 "
       "markers (bounded in shape, unbounded in values), phased == unphased projection likewise; float exactness of the frequencies at 0 and 1 is enumerated "
       "exhaustively for every copy number up to 6000 (quick) on the real methods. Two genuine defects were repaired.", "")
_claim("C10", "other",
       "deductive lemmas (z3) for the per-locus bracket, tightening and closure steps + bounded symbolic execution (mode B) of the real usl/lsl formulas + native ring of closed breeding histories",
       "The induction step of the history property is proved: per-locus bracket ploidy*u*I_low <= u*d <= ploidy*u*I_up, monotone tightening when availability shrinks, "
       "and closure (the meiosis contract of C01 and the TAKE position map of C03 cannot regenerate a lost allele). That usl/lsl compute exactly that indicator sum is "
       "bounded-symbolic (all values, shapes <= 3x2x2), and float exactness of p is the C09 enumeration; so the whole is not claimed as proof.", "")
_claim("C12", "exploration", "bounded native ring against exhaustive gamete enumeration",
       "Bounded: all 2^p haplotypes (p<=6) are enumerated with exact Haldane probabilities through the literal cross scheme and compared with the variance / "
       "covariance matrices, for several selfing depths and chunk sizes; symmetry, zero for identical parents, chunk invariance, permutation equivariance, usefulness "
       "criteria. Two defect families are recorded as known findings.", "The general theorem (formula == gamete variance for all p) is not formalised.")
_claim("C13", "other",
       "bounded symbolic execution (mode B) of the real from_gmat formulas against independent definitions + deductive identities (z3) + native ring",
       "Molecular coancestry == twice the mean IBS probability, VanRaden / generalized-weighted formulas, symmetry and label carry-over are proved for all allele "
       "patterns, reference frequencies and weights for shapes <= 3x3 (bounded in shape); the per-locus IBS identity and positive semidefiniteness of Gram matrices "
       "are proved as lemmas. Larger shapes, summaries and int8 accumulation limits are covered by the bounded native ring.", "")
_claim("C14", "exploration", "bounded native ring with recording/scripted generators",
       "Bounded: record structure and labels, zero-noise truth, additive noise structure by classifying recorded draws, heritability ratio, mean-phenotype "
       "alignment/invariance/missing taxa. Statistical convergence is an assumption.", "i.i.d. normal draws and the law of large numbers are assumed.")
_claim("C15", "proof",
       "deductive, proxy execution (mode A1): the real select/delete/insert/adjoin_taxa run on opaque symbolic arrays and must hand from_numpy exactly OP(unscale()) with labels moved by the same OP; round trip and summaries bounded-symbolic (mode B); native ring",
       "Proved for all shapes and contents (3 classes x 6 operation forms x 3 label configurations): the structural operation passes OP(unscaled values) and OP(labels) to "
       "from_numpy, so every retained taxon keeps its raw values and labels (modular: the round-trip contract unscale(from_numpy(x)) == x is the bounded-symbolic B unit, "
       "proved for all values for shapes <= 3x2 incl. the constant-column branch). Original-scale summaries are bounded-symbolic. Inherited concat/append/incorp/remove and "
       "the constant-trait statistics are recorded known findings.", "from_numpy/unscale round trip is bounded in shape (mode B).")
_claim("C16", "other",
       "bounded symbolic execution of the real h5py_File_write_dict over an abstract file map (keys <= 3, arbitrary contents and pre-states) + A1 copy/deepcopy obligations of C03 + native round-trip ring",
       "Last-write-wins, nothing stale, other paths untouched are proved for the real write routine for dictionaries of <= 3 keys (arrays, None, nested) under every "
       "pre-state of the touched paths, contents arbitrary; copy/deepcopy field equality and non-sharing for 11 matrix classes are proved under C03. HDF5/pandas/CSV/VCF "
       "round trips and write sequences are the bounded native ring. Two genuine defects repaired, seven recorded.", "h5py modelled as a finite path->value map; pandas/cyvcf2 internals outside the contracts.")
_claim("C17", "exploration", "bounded native ring with scripted offsets and exact rational counts",
       "Bounded: SUS counts floor/ceil with exact fractions at scripted float-edge offsets, tiled_choice balance, axis_shuffle slices, outcross_shuffle multiset / "
       "monotone / brute-force local optimality, same-state repeatability. Two genuine SUS defects repaired, float-rounding and edge-argument classes recorded.", "")
_claim("C18", "exploration", "bounded native ring incl. exhaustive small marker layouts and NaN-poisoned allocation",
       "Bounded: apportionment, bins, run-length bounds on exhaustive small grids and seeded layouts; block values conserve additive value; OHV/OPV vs brute force and "
       "the doubled-haploid bound. Four genuine defect classes of the partition routines are recorded as known findings.", "")
_claim("C19", "other",
       "bounded symbolic execution (mode B) of the real Pareto filter and dominance predicate for all real coordinates (npt<=4, nobj<=3) + native ring incl. exhaustive grids",
       "For every real-valued point set of up to 4 points x 2 objectives (3 objectives up to 3 points; thorough 5 points) and every sign vector the real filter is proved "
       "to mark exactly the non-dominated points (soundness and completeness, mask == index form), path-exhaustively; `dominates` is proved equal to its definition for "
       "nobj<=3. Distance transforms, invariances and larger sets are the bounded native ring. Two genuine defects of the distance transforms were repaired.", "")
