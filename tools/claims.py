# read by tools/mkmanifest.py
SOURCE_COMMITS = []
TRUST_COMMON = ("Trusted: numpy/scipy/h5py/pandas/pymoo contracts of DESIGN §4.3 as listed per run in evidence.trusted_base; "
                "floats read as reals and machine integers as mathematical integers except in named float-exact obligations; "
                "numpy-2 compatibility shim in the harness process. ")
CLAIMED["C01"] = dict(
    level="proof",
    technique="deductive: loop-invariant VCs generated from the real source (AST loop cutting, CPython proxy execution), z3/cvc5; native ring as bounded stand-in for the protocol classes",
    text="The meiosis kernels (mat_meiosis, dense_meiosis) are proved against the ghost copy-function contract for all array "
         "sizes, index vectors, crossover vectors and generator outcomes (loop invariants, induction lemmas); mat_mate/mat_dh/"
         "dense_cross/dense_dh are proved modularly against the kernel contract. The seven mate() methods are covered by a "
         "bounded native ring with provenance-coded founders (labelled bounded in evidence, not counted as proved).",
    note=TRUST_COMMON + "Assumed contracts: numpy.flatnonzero, numpy.stack, numpy.empty, Generator.uniform range. "
         "Progeny counters below 10^7 (zero-padded names keep generation order).",
)
CLAIMED["C20"] = dict(
    level="proof",
    technique="deductive: loop-invariant VCs over a ghost operator trace, generated from the real evolve/advance/reset source (loop cutting + CPython proxy execution with havoc operators), z3",
    text="evolve, advance and reset are proved for all replicate/generation counts and arbitrary (havoc) operator and logbook "
         "implementations: per-cycle operator order, exactly-once, state hand-over by identity, time index, logging after each step, "
         "deep-copied replicate start, start containers never passed to an operator nor reassigned. A native ring with "
         "instrumented mutating operators is the bounded stand-in / replay route.",
    note=TRUST_COMMON + "Assumed: copy.deepcopy returns an equal object sharing no mutable state; operators cannot reach the "
         "start_* containers except through their arguments (frame argument).",
)
CLAIMED["C11"] = dict(
    level="proof",
    technique="deductive lemmas (z3 nonlinear real arithmetic) over the formulas obtained by executing the real mapfn/invmapfn on symbolic reals; native ring for the map classes",
    text="Haldane/Kosambi laws (0->0, range [0,1/2), strict monotonicity, inverse pairs, Haldane composition) are proved for all "
         "real distances from the real methods' formulas with explicit instances of the exp/log laws; IEEE special values are "
         "checked natively. Genetic-map distance/interpolation clauses are covered by the bounded native ring.",
    note=TRUST_COMMON + "exp/log laws are trusted instances; scipy interp1d behaviour is outside the contracts (ring only).",
)
SOURCE_COMMITS += ["ee6306b2", "0c304bf0", "bec7efd2", "ea4b9347", "27a5b242", "edfc47a7", "026496e9", "40b2a60c", "17c431ae", "8014ccf5", "e63286ed"]
CLAIMED["C03"] = dict(
    level="proof",
    technique="deductive, proxy execution: the real matrix-class methods run on opaque symbolic arrays (uninterpreted numpy operators, symbolic shapes); per-operation uniformity/frame/WF obligations discharged by congruence (z3); induction over histories by the class invariant",
    text="For 11 concrete matrix classes (taxa, variant, trait, taxa-variant, phased, taxa-trait, square-taxa, square-taxa-trait, "
         "unphased/phased genotype, coancestry) and ~30 structural operations each (axis-specific and axis-generic select, delete, "
         "insert, adjoin, concat, append, remove, incorp, reorder, lexsort, sort, group, ungroup, copy, deepcopy), in several "
         "label-presence configurations, every output field is proved equal to the same numpy operator with the same index argument "
         "applied to the corresponding input field, other axes untouched, operands and pre-existing buffers unmodified, constructor "
         "checks (WF) passing for all shapes. Random operation histories on id-coded matrices are the bounded native ring. Two genuine "
         "defects were repaired (fix: commits), two are recorded as known findings with guarded twins still proved.",
    note=TRUST_COMMON + "numpy structural operators are opaque functions with assumed shape rules (pyvc/oarr.py); the element-level "
         "position-map lemma per operator (take/delete/insert/concatenate) is assumed from numpy's documentation and differential-tested "
         "by the ring. DenseBreedingValueMatrix structural operations are handled under C15.",
)
for _k in ["C02", "C03", "C04", "C05", "C06", "C07", "C08", "C09", "C10", "C11", "C12", "C13", "C14", "C15", "C16",
           "C17", "C18", "C19", "C20"]:
    NA[_k] = "check not built yet in this session (work in progress; see DESIGN.md §8 for the plan)"
