# read by tools/mkmanifest.py
SOURCE_COMMITS = []
TRUST_COMMON = ("Trusted: numpy/scipy/h5py/pandas/pymoo contracts of DESIGN §4.3 as listed per run in evidence.trusted_base; "
                "floats read as reals and machine integers as mathematical integers except in named float-exact obligations; "
                "numpy-2 compatibility shim in the harness process. ")
CLAIMED["C01"] = dict(
    level="proof",
    technique="deductive: loop-invariant VCs generated from the real source (AST loop cutting, CPython proxy execution), z3/cvc5, modular over three layers (meiosis kernel -> gamete stacking -> the seven mate() protocols); native ring as counterexample search and replay route",
    text="The meiosis kernels (mat_meiosis, dense_meiosis) are proved against the ghost copy-function contract for all array "
         "sizes, index vectors, crossover vectors and generator outcomes (loop invariants, induction lemmas); mat_mate/mat_dh/"
         "dense_cross/dense_dh are proved modularly against the kernel contract; all seven mate() methods (scalar and per-cross "
         "array counts, symbolic selfing depth) are proved modularly against the stacking contracts: progeny count == sum of "
         "nmating*nprogeny, the stage tree behind every progeny is exactly the configured cross scheme (which parental column "
         "feeds which side of which cross, row by row through the numpy.repeat position maps), every allele descends from a "
         "configured parent of the progeny's family, doubled haploids are homozygous, names are prefix + zero-padded progeny "
         "number (pairwise distinct), family labels and both counters follow the counts exactly, marker metadata is handed on "
         "by identity and the parental arrays are never written. The progeny matrix constructor is a recording stand-in (its "
         "well-formedness and group_taxa are C03 contracts). A bounded native ring with provenance-coded founders is the "
         "counterexample search (labelled bounded in evidence, not counted as proved).",
    note=TRUST_COMMON + "Assumed contracts: numpy.flatnonzero, numpy.stack, numpy.empty, numpy.repeat position map (ghost prefix sums) "
         "and its composition law repeat(x, m*g) == repeat(repeat(x, m), repeat(g, m)) (checked natively each run), Generator.uniform "
         "range, python str/zfill/concatenation injectivity. Progeny counters below 10^7 (zero-padded names keep generation order).",
)
CLAIMED["C20"] = dict(
    level="proof",
    technique="deductive: loop-invariant VCs over a ghost operator trace, generated from the real evolve/advance/reset source (loop cutting + CPython proxy execution with havoc operators), z3",
    text="evolve, advance and reset are proved for all replicate/generation counts and arbitrary (havoc) operator and logbook "
         "implementations: per-cycle operator order, exactly-once, state hand-over by identity, time index, logging after each step, "
         "deep-copied replicate start, start containers never passed to an operator nor reassigned. A native ring with "
         "instrumented mutating operators is the bounded stand-in / replay route.",
    note=TRUST_COMMON + "Assumed: copy.deepcopy returns an equal object sharing no mutable state; operators cannot reach the "
         "start_* containers except through their arguments (frame argument).",
)
CLAIMED["C11"] = dict(
    level="proof",
    technique="deductive lemmas (z3 nonlinear real arithmetic) over the formulas obtained by executing the real mapfn/invmapfn on symbolic reals; native ring for the map classes",
    text="Haldane/Kosambi laws (0->0, range [0,1/2), strict monotonicity, inverse pairs, Haldane composition) are proved for all "
         "real distances from the real methods' formulas with explicit instances of the exp/log laws; IEEE special values are "
         "checked natively. Genetic-map distance/interpolation clauses are covered by the bounded native ring.",
    note=TRUST_COMMON + "exp/log laws are trusted instances; scipy interp1d behaviour is outside the contracts (ring only).",
)
import subprocess as _sp
SOURCE_COMMITS += [l.split()[0][:8] for l in _sp.check_output(["git","-C","/repo","log","--format=%h %s"]).decode().splitlines() if l.split(" ",1)[1].startswith("fix:")][::-1]
CLAIMED["C03"] = dict(
    level="proof",
    technique="deductive, proxy execution: the real matrix-class methods run on opaque symbolic arrays (uninterpreted numpy operators, symbolic shapes); per-operation uniformity/frame/WF obligations discharged by congruence (z3); induction over histories by the class invariant",
    text="For 11 concrete matrix classes (taxa, variant, trait, taxa-variant, phased, taxa-trait, square-taxa, square-taxa-trait, "
         "unphased/phased genotype, coancestry) and ~30 structural operations each (axis-specific and axis-generic select, delete, "
         "insert, adjoin, concat, append, remove, incorp, reorder, lexsort, sort, group, ungroup, copy, deepcopy), in several "
         "label-presence configurations, every output field is proved equal to the same numpy operator with the same index argument "
         "applied to the corresponding input field, other axes untouched, operands and pre-existing buffers unmodified, constructor "
         "checks (WF) passing for all shapes. Random operation histories on id-coded matrices are the bounded native ring. Two genuine "
         "defects were repaired (fix: commits), two are recorded as known findings with guarded twins still proved.",
    note=TRUST_COMMON + "numpy structural operators are opaque functions with assumed shape rules (pyvc/oarr.py); the element-level "
         "position-map lemma per operator (take/delete/insert/concatenate) is assumed from numpy's documentation and differential-tested "
         "by the ring. DenseBreedingValueMatrix structural operations are handled under C15.",
)

RING = ("A bounded native ring (real code, oracle written from the statement, seeded + exhaustive small scopes; bounds in evidence) is the "
        "stand-in for everything not proved and the replay route for counterexamples. ")

def _claim(pid, level, technique, text, note):
    CLAIMED[pid] = dict(level=level, technique=technique, text=text, note=TRUST_COMMON + note)

_claim("C02", "other",
       "deductive reduction: kernel contract (A2 loop invariants, z3) + gdist1g loop proof + probability-algebra and Haldane lemmas + interp_xoprob data flow (A1); exact gamete law enumerated by scripted generators as bounded stand-in; i.i.d. draws and LLN assumed",
       "The distributional statement is reduced to deterministic obligations that are proved for all sizes: the copy switches between j-1 and j iff the draw is below "
       "xoprob[j] and every draw is used once (both kernels); gdist1g returns +inf exactly at chromosome starts, so xoprob there is mapfn(+inf) = 1/2 (checked natively); "
       "interp_xoprob stores mapfn(gdist1g(chr, interp_genpos(chr, phys))); Haldane composition, parity composition of independent switches and the fixed point 1/2 are "
       "lemmas. Convergence itself needs i.i.d. U[0,1) draws and the law of large numbers, which are assumptions - hence level 'other', not proof. Bounded: the exact "
       "outcome law of the real kernels and of all seven mate() protocols is enumerated with scripted generators for p<=4 markers.",
       "i.i.d. U[0,1) draws and the law of large numbers are assumed, not verified.")
_claim("C04", "other",
       "bounded symbolic execution (mode B: the real gebv/gegv/gebv_numpy and allele-summary methods on symbolic genotypes, effects and intercepts, z3) + native ring",
       "Not a proof: gebv/gegv are proved equal to intercept contrast + dosage x additive effects (+ heterozygosity x dominance effects) with labels carried and "
       "independent of the input form (phased / unphased / raw) for ALL values at shapes <= 2 taxa x 2 markers x 2 traits (thorough 3 taxa); favourable / deleterious / "
       "neutral allele counts, availability, fixation and polymorphism flags equal their definitions for all allele patterns and effect signs at the same shapes. "
       "Variances, larger shapes, >127 taxa, bad copy numbers and rrBLUP clauses are the bounded native ring. Two genuine defects are recorded as known findings, one was repaired.",
       "rrBLUP convergence is outside the reach of contracts (iterative floating point). The scaled output matrix is intercepted at from_numpy (its round trip is C15).")
_claim("C05", "other",
       "bounded symbolic execution (mode B) of the real latentfn of seven linear criterion families in all four encodings + data-flow contract of SelectionProblem.evalfn (A1, opaque arrays, z3) + native ring over all ~60 problem classes",
       "Not a proof: for EBV, GEBV, generalized-weighted GEBV, EMBV, OHV, Random and usefulness-criterion problems the real latent function is proved equal to its definition "
       "in subset, real, integer and binary encodings, order-invariant and scale-equivariant, for ALL breeding-value / weight values at n<=3 candidates; evalfn is proved to "
       "hand exactly obj_wt * obj_trans(latentfn(x)) and the constraint counterparts for arbitrary transformations. Every other family, factory data and larger n are the "
       "bounded native ring. Three genuine defects repaired, five recorded.", "")
_claim("C06", "other",
       "bounded symbolic execution (mode B) of the real sorting optimiser on symbolic separable objectives + rounding lemma (z3) + native ring with tiny optimiser budgets",
       "Not a proof: SortingSubsetOptimizationAlgorithm.minimize is executed on symbolic per-candidate scores (n<=4, k<=3, every ordering explored): the returned members are "
       "distinct, are the k best, the reported objective values are the true values of the returned decision, and the result equals the brute-force optimum. Every other "
       "optimiser class is covered only by the bounded native ring (decision-space membership, exact re-evaluation, non-domination, problem immutability, exchange-local "
       "optimality of the hill-climbers). pymoo internals are an assumed contract.",
       "pymoo 0.6.2 behaviour is assumed; OS-entropy seeding is pinned in the ring (see C08 findings).")
_claim("C07", "other",
       "bounded symbolic execution (mode B) of the real select() of the four single-encoding protocol base classes with stub problem / optimiser / transformation objects (z3) + native ring",
       "Not a proof: for Subset / Real / Integer / Binary SelectionProtocol.select the configuration returned is proved to be built from exactly the solution that the "
       "declared preference (ndset_wt * ndset_trans) ranks best, for ALL symbolic objective values of up to 3 candidate solutions, with the protocol's ncross / nparent / "
       "nmating / nprogeny handed through unchanged. sample_xconfig of every configuration class, cross-map index generators, truncation exactness and equivariance are the "
       "bounded native ring.", "")
_claim("C08", "other",
       "frame contracts read from the current AST (DrawsOnlyFrom(designated generator) for 29 stochastic functions; trace contract of prng.seed/spawn by proxy execution with recording modules) + native ring of seeded programs and explicit-generator isolation",
       "Not a proof of reproducibility (numpy/python generator determinism is assumed): each stochastic function under contract is shown to reference no entropy source but "
       "its designated generator (module streams, global_prng outside the rng=None default, generator constructors, clock / OS entropy are frame violations; syntactic, per "
       "function); prng.seed is shown by proxy execution to seed the python stream with s first, to re-seed numpy's global stream through its seed() entry point with a value "
       "drawn from the freshly seeded python stream, and to touch nothing else; spawn seeds new generators from the python stream only. Random programs re-run after re-seeding "
       "under different histories and the explicit-generator isolation are the bounded native ring; five genuine defect classes are recorded as known findings, with a guarded "
       "twin (pymoo's OS entropy pinned) that must pass.", "Determinism of numpy/python generators given their state is assumed; the frame analysis is syntactic and per function.")
_claim("C09", "other",
       "bounded symbolic execution of the real methods (mode B: real numpy on symbolic scalars, all allele patterns for small shapes, z3) + exhaustive float enumeration over copy numbers (mode F) + native ring",
       "Not a proof: every statistic of both genotype classes is proved equal to its textbook definition for ALL allele patterns but only for shapes up to 3 taxa x 3 "
       "markers (bounded in shape, unbounded in values), phased == unphased projection likewise; float exactness of the frequencies at 0 and 1 is enumerated "
       "exhaustively for every copy number up to 6000 (quick) on the real methods. Two genuine defects were repaired.", "")
_claim("C10", "other",
       "deductive lemmas (z3) for the per-locus bracket, tightening and closure steps + bounded symbolic execution (mode B) of the real usl/lsl formulas + native ring of closed breeding histories",
       "The induction step of the history property is proved: per-locus bracket ploidy*u*I_low <= u*d <= ploidy*u*I_up, monotone tightening when availability shrinks, "
       "and closure (the meiosis contract of C01 and the TAKE position map of C03 cannot regenerate a lost allele). That usl/lsl compute exactly that indicator sum is "
       "bounded-symbolic (all values, shapes <= 3x2x2), and float exactness of p is the C09 enumeration; so the whole is not claimed as proof.", "")
_claim("C12", "other",
       "deductive lemmas (z3, real arithmetic) on the formulas obtained by running the real rprob_filial / cov_D1s / cov_D2s on symbolic reals + bounded symbolic execution (mode B) of the real two-way from_algmod + native ring against exhaustive gamete enumeration",
       "Not a proof: the closed form of rprob_filial is proved to satisfy the selfing recurrence r_{k+1} = r + (1/2)(1-2r) r_k with r_1 = r and the fixed point at infinity, "
       "and D1 = 1-2r_k, D2 = 1-4r+4r r_k for all r in [0,1/2] (pow laws as explicit instances); the real two-way genetic and genic from_algmod are executed on symbolic "
       "haplotypes, effects and genetic positions (<=3 taxa, <=3 markers on 1-2 chromosomes, <=2 traits, nself 0/1/2/inf, chunk 1/2/None) and proved equal to the blocked "
       "double sum with the real mapfn / cov_D1s at the symbolic distance, symmetric, zero for identical parents, chunk-invariant. That this formula equals the enumerated "
       "gamete variance, the three-/four-way and dihybrid classes, and the usefulness criteria are the bounded native ring (all 2^p haplotypes, p<=6). Two defect families are known findings.",
       "The general theorem (formula == gamete variance for all p) is not formalised; exp / pow are uninterpreted with trusted law instances.")
_claim("C13", "other",
       "bounded symbolic execution (mode B) of the real from_gmat formulas against independent definitions + deductive identities (z3) + native ring",
       "Molecular coancestry == twice the mean IBS probability, VanRaden / generalized-weighted formulas, symmetry and label carry-over are proved for all allele "
       "patterns, reference frequencies and weights for shapes <= 3x3 (bounded in shape); the per-locus IBS identity and positive semidefiniteness of Gram matrices "
       "are proved as lemmas. Larger shapes, summaries and int8 accumulation limits are covered by the bounded native ring.", "")
_claim("C14", "other",
       "bounded symbolic execution (mode B) of the real phenotype() with symbolic genotypic values, variances and scripted symbolic normal draws + deductive lemma (z3) for set_h2 / set_H2 + native ring",
       "Not a proof: phenotype() is executed on symbolic true values for <= 3 taxa, <= 2 traits, <= 2 environments with 0-2 replicates each (equal and unequal): "
       "exactly one record per taxon x environment x replicate in env-major order, each with its taxon's labels, value == true value + environment draw + replicate draw + "
       "error draw, every draw requested with mean 0 and diag(variance) of the right component, and records equal to the true values when all variances are zero; "
       "set_h2 / set_H2 (extracted from the current source, genomic model stubbed by symbolic variances) are proved to fix var_err so that var/(var+var_err) equals the "
       "target for all 0 < h2 <= 1 and var > 0. Mean-phenotype alignment / invariance / missing taxa (pandas groupby) and the statistical clauses are the bounded native ring.",
       "i.i.d. normal draws and the law of large numbers are assumed; a draw with zero variance equals its mean (assumed numpy contract); pandas internals outside the contracts.")
_claim("C15", "proof",
       "deductive, proxy execution (mode A1): the real select/delete/insert/adjoin_taxa run on opaque symbolic arrays and must hand from_numpy exactly OP(unscale()) with labels moved by the same OP; round trip and summaries bounded-symbolic (mode B); native ring",
       "Proved for all shapes and contents (3 classes x 6 operation forms x 3 label configurations): the structural operation passes OP(unscaled values) and OP(labels) to "
       "from_numpy, so every retained taxon keeps its raw values and labels (modular: the round-trip contract unscale(from_numpy(x)) == x is the bounded-symbolic B unit, "
       "proved for all values for shapes <= 3x2 incl. the constant-column branch). Original-scale summaries are bounded-symbolic. Inherited concat/append/incorp/remove and "
       "the constant-trait statistics are recorded known findings.", "from_numpy/unscale round trip is bounded in shape (mode B).")
_claim("C16", "other",
       "bounded symbolic execution of the real h5py_File_write_dict over an abstract file map (keys <= 3, arbitrary contents and pre-states) + proxy execution (A1) of the real to_hdf5/from_hdf5 of 12 classes on token-valued fields over the abstract file + frame obligation on every copy method + A1 copy/deepcopy obligations of C03 + native round-trip ring",
       "Last-write-wins, nothing stale, other paths untouched are proved for the real write routine for dictionaries of <= 3 keys (arrays, None, nested) under every "
       "pre-state of the touched paths, contents arbitrary. For 12 persistable classes the real to_hdf5 and from_hdf5 are executed on opaque field tokens with the write "
       "routine replaced by that contract: every field is read back from exactly what the same field stored (with a reader of its kind: utf-8 for text, dict for hyper-"
       "parameters), nothing is invented, absent optional fields come back as None even over a file that held them, the caller's handle stays open, at root and in a group "
       "(580 obligations). No copy/deepcopy method of the package keeps state between calls (mutable defaults; 104 methods); copy/deepcopy field equality and non-sharing "
       "for 11 matrix classes are proved under C03. Value round trips through h5py/pandas/CSV/VCF and write sequences are the bounded native ring. Two genuine defects "
       "repaired, seven recorded.", "h5py modelled as a finite path->value map; pandas/cyvcf2 internals outside the contracts.")
_claim("C17", "other",
       "deductive: loop-invariant VCs generated from the real stochastic_universal_sampling source (nested for/while loops cut, python list and numpy sum/argsort/cumsum/count_nonzero by assumed contracts, z3) + lemmas for the pointer lattice and tiling arithmetic + native ring with scripted offsets and exact rational counts",
       "stochastic_universal_sampling is proved in real arithmetic for all n, k, weights >= 0 with positive sum and every generator outcome: exactly k draws; pointer g is "
       "offset + g*sum/k with 0 <= offset < sum/k from one uniform draw on the given generator; each pointer is served by the sorted position that owns it (all earlier "
       "running sums <= pointer, pointer < its running sum or it is the last positive position); that position has positive weight, so zero weight is never selected; "
       "the output is a[.] of a permutation of the selections. The floor/ceil count law then follows from the lattice lemma (proved at specification level). The float "
       "behaviour, tiled_choice, axis_shuffle and outcross_shuffle are the bounded native ring, so the property as a whole is not claimed as proof. Two genuine SUS "
       "defects repaired, float-rounding and edge-argument classes recorded.",
       "Assumed numpy contracts: sum (ghost prefix sums), argsort (sorting permutation), cumsum, count_nonzero (positives are the tail of the sorted order), Generator.uniform in [low, high], shuffle is a permutation; a positive sum of non-negative terms has a positive term.")
_claim("C18", "other",
       "deductive: loop-invariant VCs generated from the real haplobin_bounds source (AST loop cutting, symbolic list model, z3) + OHV/OPV bound lemmas + native ring incl. exhaustive small marker layouts",
       "haplobin_bounds is proved for label arrays of every length: starts/stops chain from 0 to n, lengths are stops - starts >= 1, labels are constant inside each block and "
       "change across each boundary (unbounded, loop invariant over python lists of symbolic length). The OHV/OPV doubled-haploid bound is a lemma over the specification. "
       "Apportionment (haplobin), block values, OHV/OPV vs brute force are the bounded native ring, so the property as a whole is not claimed as proof. Four genuine defect "
       "classes of the partition routines are recorded as known findings.", "python list append / numpy.int_ of a list are modelled (pyvc/loopcut.py SymList).")
_claim("C19", "other",
       "deductive: loop-invariant VCs generated from the real is_pareto_efficient source (while loop cut, boolean-mask compression / any(axis=1) / prefix count by ghost contracts, z3 + cvc5) + bounded symbolic execution (mode B) of the Pareto filter, the dominance predicate and both distance transforms + native ring incl. exhaustive grids",
       "For every real-valued point set of up to 4 points x 2 objectives (3 objectives up to 3 points; thorough 5 points) and every sign vector the real filter is proved "
       "to mark exactly the non-dominated points (soundness and completeness, mask == index form), path-exhaustively; `dominates` is proved equal to its definition for "
       "nobj<=3. Distance transforms, invariances and larger sets are the bounded native ring. Two genuine defects of the distance transforms were repaired.", "")

# additions made after the third seeding round (units added; same levels)
_EXTRA = {
    "C04": " Additive-variance clauses: var_A == population variance of the breeding values, var_a == ploidy^2 * sum u^2 p(1-p) and the Bulmer ratio are "
           "proved bounded-symbolically (<=3 taxa x 2 markers x 2 traits) for phased, unphased and raw inputs.",
    "C05": " The norm-type criteria (mean genomic relationship, optimal contribution, L2 genomic distance) are proved bounded-symbolically to return the "
           "2-norm of factor x normalised contributions (and minus the contribution-weighted mean breeding values for OCS) in all four encodings, order- and "
           "scale-invariant. The usefulness-criterion helper _calc_uc is proved (bounded shapes, all values) to be sum_k epgc_k*bv[parent_k] + intensity*sqrt(var[cross]) with the "
           "variance factory's own, possibly unequal, expected parental contributions for 2-, 3- and 4-parent designs.",
    "C06": " SteepestDescentSubsetHillClimber.minimize is executed with an independent symbolic objective value and constraint violation per subset (<=4 candidates, "
           "thorough 5): it terminates, stops only where no single exchange improves (violation first, then score), never ends worse than it started, reports truthful values; "
           "the sorting variant (start = k best single members) likewise for <=3 candidates (thorough 4).",
    "C07": " sample_xconfig of all eight configuration classes is executed with recording stand-ins for the sampling subroutines (used through their C17 "
           "contracts): the right sampler gets the right option set (the subset / each index repeated by its count) or weights, replacement off, the "
           "requested shape and the configuration's own generator, followed by outcross_shuffle and axis_shuffle(axis 0) (or generator shuffle and cross-map "
           "lookup for mate encodings) on the same array, which is stored and returned.",
    "C08": " Copy methods of stochastic components that mention rng are executed on a source whose rng is global_prng with cloning stand-ins for copy/deepcopy: the copy "
           "must be handed global_prng itself (a clone would not follow prng.seed).",
    "C09": " The float-exactness enumeration also visits sparse very large populations (up to 2e6 taxa, thorough 6e7) where a frequency one copy away from 0 or 1 is "
           "within 1e-5 (1e-8) of it.",
    "C12": " The usefulness-criterion helper _calc_uc is proved bounded-symbolically to be the expected-parental-contribution mean plus intensity times the square root "
           "of the variance of that cross.",
    "C18": " nhaploblk_chrom is PROVED for every number of chromosomes and blocks (mode A2, greedy loop cut by the invariant 'every count >= 1 and the "
           "counts sum to nchr + i'; the sum is a ghost prefix sum and the increment a point update related to the previous sum by an induction lemma "
           "whose step is proved on the spot): every chromosome gets at least one block and the counts add up to exactly the requested total; an "
           "exception is raised only for fewer blocks than chromosomes. _calc_ohvmat == ploidy * sum over blocks of the best haplotype among the cross's parents, bounding every block-wise doubled haploid, chunk-invariant, and "
           "haplomat's block values (which conserve the additive value) are proved bounded-symbolically for all block values / alleles / effects.",
    "C19": " is_pareto_efficient is additionally PROVED for every number of points and objectives (mode A2: the while loop over the shrinking "
           "survivor list is cut by an invariant -- survivors are increasing original indices, rows are their weighted points, every processed "
           "pivot is beaten somewhere by every other survivor, every original point is weakly dominated by a survivor -- with boolean-mask "
           "compression through the ghost enumeration of the mask): the result is a non-dominated cover in index and in mask form."
           " Both trans_ndpt_to_vec_dist implementations are proved (fronts of <=2 points x 2 objectives, thorough 3; coordinates symbolic) to return the distance of the "
           "range-normalised weighted point to the preference ray, every positive range being rescaled however small and exactly constant objectives contributing 0.",
}
_EXTRA2 = {
    "C01": " The parental matrix of the protocol units carries symbolic chromosome-group index vectors, so a protocol that edits the crossover "
           "probabilities at group boundaries fails the 'kernel gets the parental matrix's probabilities' obligation; the native ring uses several chromosomes. In-place operations on the marker axis of the progeny (group_vrnt, sort_vrnt, ...) are modelled as a havoc of the marker metadata and refute 'metadata carried by identity'; the ring also uses parental matrices whose markers are stored unsorted and ungrouped.",
    "C02": " The Kosambi map function has the same lemma unit as Haldane (values in [0,1/2], zero to zero, +inf to exactly one half on IEEE doubles).",
    "C03": " The breeding-value matrices' overridden taxa operations are proved (the C15 unit, registered here too) to move values and labels by the same operator, an explicit label array winning over the operand's own. The three- and four-way variance matrices (three / four square taxa axes, all structural operations inherited) are classes of the A1 proof and of the "
           "native history ring; numpy.ix_ and nested takes along different axes are part of the opaque array algebra (canonical axis order).",
    "C05": " SelectionProblem._evaluate (what the optimisers see) is proved on bounded shapes to label the three parts of evalfn F / G / H and to leave out exactly the empty ones, for vector and matrix input.",
    "C20": " __init__ is under a straight-line unit: every operator and each of the five start containers is stored under its own name (the object passed or a copy with the same content), t_cur starts at 0.",
    "C04": " rrBLUPModel0.fit is executed on stand-ins: fit_numpy gets the unscaled phenotypes and the {0,1,2} dosages (the coding every prediction routine uses) of the objects passed, raw arrays untouched. The numpy-level var_a_numpy / bulmer_numpy are also proved for an explicit tetraploid ploidy. TrueBreedingValue.estimate is executed against a model stand-in that answers gebv and gegv differently: exactly one call, gebv, on the genotypes passed in, result returned as is.",
    "C08": " A seeded expected-maximum-breeding-value simulation is checked natively not to depend on the content of uninitialised buffers. A second frame obligation per function: no call to a third-party helper that owns a generator seeded from the operating system (pymoo helpers decorated @default_random_state, called without random_state=) and no unseeded default_rng()/RandomState(); the operator module's tiling helper is checked natively to be a function of prng.seed.",
    "C09": " The phased unit also runs haploid and triploid matrices (one and three chromosome copies). Every statistic is proved again after new allele calls were written in place through the array that .mat hands out (no statistic may be served from a stale cache).",
    "C11": " The physical-position wrappers gdist1p / gdist2p (both map classes, with and without index windows) and rprob1g/2g/1p/2p (both map functions) are "
           "executed on recording stand-ins: positions are interpolated for ALL markers, the genetic-position routine gets those and the caller's window, its result is returned (through mapfn for rprob*). gdist2g is proved (<=5 markers on 1-3 chromosomes, positions symbolic) to return for every pair of row / column windows, square or rectangular, on or off the diagonal, the corresponding block of |g_i - g_j| / +inf.",
    "C13": " The kinship format is proved to be half of the coancestry the matrix holds NOW, also after reorder_taxa and after an in-place write through .mat.",
    "C15": " DenseScaledMatrix itself is under a bounded-symbolic unit: unscale(inplace=False) == mat*scale+location and leaves matrix, location and scale untouched (twice in a row), transform/untransform(copy=True) are inverse and do not write their argument, unscale(inplace=True) leaves raw values with location 0 and scale 1.",
    "C19": " The stochastic-descent memetic hill climber is checked natively to return mutually non-dominated individuals. The USE of the dominance predicate by the memetic hill climber is checked natively (bounded): the leader it returns is never dominated by a solution it evaluated, with constraint values reported as signed slacks. The third implementation of the distance transformation (core/util/trans.py trans_ndpt_pseudo_dist) is part of the same bounded-symbolic unit.",
    "C14": " TrueBreedingValue.estimate is under the C04 wiring unit here too (its result is the model's gebv of the genotypes passed in, never its phenotype argument, also when that is a breeding-value matrix of matching size). TruePhenotyping.phenotype is proved (bounded shapes) to report exactly the bound model's true genotypic values (gegv, not gebv) with the labels carried.",
    "C18": " The OPV and genotype-builder latentfn are proved (bounded shapes, all block values) to equal minus ploidy times the block-wise best value among the selected "
           "individuals for the block values the problem holds NOW: on construction, after the haplomat setter and after an in-place write. The three _calc_haplomat copies (OHV, OPV, genotype builder) are proved like haplo.haplomat, with a model stand-in whose u (miscellaneous + additive effects), u_misc and beta differ from u_a: block values are sums of ADDITIVE marker effects.",
}
for _k, _v in list(_EXTRA.items()) + list(_EXTRA2.items()):
    CLAIMED[_k]["text"] += _v
