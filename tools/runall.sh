#!/bin/sh
# usage: tools/runall.sh [quick|thorough] [--pin]   run every claimed check on /repo's working tree, then validate the evidence
HERE="$(cd "$(dirname "$0")/.." && pwd)"; cd "$HERE"
TIER="${1:-quick}"; PIN="$2"; RC=0
for p in 01 02 03 04 05 06 07 08 09 10 11 12 13 14 15 16 17 18 19 20; do
  ./check C$p --tier $TIER $PIN > /tmp/runall-C$p.log 2>&1; rc=$?
  echo "C$p exit=$rc $(grep -E '^(OK|VIOLATION|UNDECIDED|TOOL-ERROR)' /tmp/runall-C$p.log | tail -1 | cut -c1-160)"
  [ $rc -ne 0 ] && RC=1
done
python3-vt tools/validate.py || RC=1
exit $RC
