#!/usr/bin/env python3
"""Generate /verif/MANIFEST.json from the table below (kept in one place)."""
import json, os
HERE = os.path.dirname(os.path.dirname(os.path.abspath(__file__)))
props = [json.loads(l) for l in open(os.path.join(HERE, "properties.jsonl"))]

# id -> (level, technique, level text, level note, design ref)
CLAIMED = {}
NA = {}
exec(open(os.path.join(HERE, "tools", "claims.py")).read())

checks = []
for p in props:
    pid = p["id"]
    if pid in CLAIMED:
        c = CLAIMED[pid]
        checks.append(dict(
            property_id=pid,
            quick_cmd="./check %s --tier quick" % pid,
            thorough_cmd="./check %s --tier thorough" % pid,
            evidence_file="evidence/%s.json" % pid,
            replay_cmd_template="./check %s --replay {path}" % pid,
            engine="pyvc",
            level_claimed=dict(category=c["level"], text=c["text"], design_ref=c.get("ref", "DESIGN.md §8 " + pid)),
            level_note=c["note"],
            technique=c["technique"],
        ))
man = dict(
    version=1,
    setup_cmd="./tools/setup.sh",
    hooks=dict(guard="PYBROPS_VERIF", enable="none needed: contracts are sidecar files; no source hook exists in /repo and nothing reads "
                                            "the guard. source_commits lists the unguarded 'fix:' commits (repairs of genuine defects, "
                                            "recorded in known_findings.jsonl); they change existing lines, hence add_only is false",
               baseline_off_cmd="cd /repo && /venv/bin/python -m pytest -ra -q -p no:cacheprovider --timeout=900 --continue-on-collection-errors",
               source_commits=SOURCE_COMMITS, add_only=False),
    engines=[dict(name="pyvc", path="pyvc/", serves_properties=sorted(CLAIMED),
                  kind_free_text="contract-based deductive verifier for the real Python code: sidecar contracts, VCs generated "
                                 "from /repo's current source (AST loop cutting + CPython proxy execution), z3/cvc5 back ends, "
                                 "native replay rings as bounded stand-ins")],
    checks=checks,
    notes="See DESIGN.md. Exit codes: 0 held, 1 violation (VIOLATION line), 2 undecided (solver could not decide on unchanged source), 3 tool error.",
    not_applicable=[dict(property_id=k, reason=v) for k, v in sorted(NA.items()) if k not in CLAIMED],
)
json.dump(man, open(os.path.join(HERE, "MANIFEST.json"), "w"), indent=1)
print("claimed", sorted(CLAIMED), "n/a", sorted(k for k in NA if k not in CLAIMED))
