#!/bin/sh
# usage: tools/refacmatrix.sh : every stored behaviour-preserving refactoring (refactors/<id>/refactor_<k>.diff) is applied to a scratch
# export of /repo's HEAD and the property's quick check must NOT report a violation (PROOF-LOST is acceptable).  Writes refactors/RESULTS.tsv
HERE="$(cd "$(dirname "$0")/.." && pwd)"; cd "$HERE"
SCRATCH="${SCRATCH:-/var/tmp/pbh-refac}"; export SCRATCH
rm -rf "$SCRATCH"; mkdir -p "$SCRATCH" /var/tmp/thorough/ev; git -C /repo archive HEAD | tar -x -C "$SCRATCH"
: > refactors/RESULTS.tsv
for d in refactors/C*/; do
  pid=$(basename $d | cut -d- -f1)
  tools/refactest.sh "$d" "$pid" | tee -a refactors/RESULTS.tsv
done
rm -rf "$SCRATCH"
grep -c "exit=0" refactors/RESULTS.tsv
