#!/usr/bin/env python3
"""validate MANIFEST.json and evidence/*.json against the schemas and the cross-file rules the harness applies"""
import json, sys, os
import jsonschema
HERE = os.path.dirname(os.path.dirname(os.path.abspath(__file__)))
man = json.load(open(os.path.join(HERE, "MANIFEST.json")))
jsonschema.validate(man, json.load(open("/root/.vp/MANIFEST.schema.json")))
es = json.load(open("/root/.vp/EVIDENCE.schema.json"))
bad = 0
for c in man["checks"]:
    pid = c["property_id"]
    p = os.path.join(HERE, c["evidence_file"]) if not os.path.isabs(c["evidence_file"]) else c["evidence_file"]
    try:
        ev = json.load(open(p))
        jsonschema.validate(ev, es)
        lvl = c["level_claimed"]["category"]
        cov = ev["coverage"]
        msgs = []
        if ev["level"] != lvl:
            msgs.append("level %s != manifest %s" % (ev["level"], lvl))
        if ev["level"] == "proof":
            if cov.get("obligations", 0) < 1 or cov.get("discharged", 0) != cov.get("obligations"):
                msgs.append("proof: obligations=%s discharged=%s" % (cov.get("obligations"), cov.get("discharged")))
        if not cov.get("samples"):
            msgs.append("no samples")
        if cov.get("distinct_nontrivial", 0) > cov.get("evaluations", 0):
            msgs.append("distinct > evaluations")
        print(pid, ev["level"], "obl=%s dis=%s eval=%s distinct=%s" % (cov.get("obligations"), cov.get("discharged"), cov.get("evaluations"), cov.get("distinct_nontrivial")), "; ".join(msgs) or "ok")
        bad += bool(msgs)
    except Exception as e:
        print(pid, "INVALID", str(e)[:300])
        bad += 1
sys.exit(1 if bad else 0)
