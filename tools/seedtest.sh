#!/bin/sh
# usage: tools/seedtest.sh <seed id> [<property> [tier]] : apply seeded/<id>/patch.diff to /repo, run the check, undo.
ID="$1"; HERE="$(cd "$(dirname "$0")/.." && pwd)"
PID="${2:-$(python3 -c "import json;print(json.load(open('$HERE/seeded/$ID/meta.json'))['property'])")}"
TIER="${3:-quick}"
git -C /repo diff --quiet || { echo "/repo has uncommitted changes; refusing"; exit 9; }
git -C /repo apply "$HERE/seeded/$ID/patch.diff" || exit 9
trap 'git -C /repo checkout -- .' EXIT INT TERM
cd "$HERE" && ./check "$PID" --tier "$TIER" > /tmp/seedtest-$ID-$PID.log 2>&1
RC=$?
echo "== seed $ID against $PID ($TIER): exit $RC"
grep -E "VIOLATION|PROOF-LOST|UNDECIDED|TOOL-ERROR|KNOWN-FINDING|^OK" /tmp/seedtest-$ID-$PID.log | head -6
exit 0
