#!/bin/sh
# usage: tools/collect_seed.sh <worktree> <id> ; verifies the seeded change independently and stores it under seeded/<id>/
# (demo passes on unchanged code, fails with the patch, baseline tests still 92 passed)
WT="$1"; ID="$2"; PID="$3"
set -e
HERE="$(cd "$(dirname "$0")/.." && pwd)"
cd "$WT"
git diff -- pybrops > /tmp/seed-$ID.diff
[ -s /tmp/seed-$ID.diff ] || { echo "$ID: empty diff"; exit 1; }
DEMO=$(ls demo_*.py | head -1)
git checkout -- pybrops
set +e
/venv/bin/python $DEMO > /tmp/seed-$ID.un.log 2>&1; UN=$?
git apply /tmp/seed-$ID.diff
/venv/bin/python $DEMO > /tmp/seed-$ID.ch.log 2>&1; CH=$?
T=$(/venv/bin/python -m pytest -q -p no:cacheprovider --timeout=900 --continue-on-collection-errors 2>&1 | tail -1)
set -e
echo "$ID: demo unchanged=$UN changed=$CH tests: $T"
case "$T" in *"92 passed"*) ;; *) echo "$ID: tests differ"; exit 1;; esac
[ "$UN" = 0 ] && [ "$CH" != 0 ] || { echo "$ID: demo does not discriminate"; exit 1; }
D="$HERE/seeded/$ID"; mkdir -p "$D"
cp /tmp/seed-$ID.diff "$D/patch.diff"; cp $DEMO "$D/"
python3 - "$WT/meta.json" "$D/meta.json" "$PID" "$UN" "$CH" "$T" <<'PY'
import json,sys
src,dst,pid,un,ch,t=sys.argv[1:]
try: m=json.load(open(src))
except Exception: m={}
m["property"]=pid
m["confirmed_by_builder"]=dict(demo_exit_unchanged=int(un),demo_exit_changed=int(ch),baseline_tests=t,
  how="tools/collect_seed.sh: git checkout -- pybrops; run demo; git apply patch; run demo; run the baseline pytest command in the scratch worktree")
json.dump(m,open(dst,"w"),indent=1)
PY
