#!/bin/sh
# Build the overlay venv /verif/.venv offline (idempotent).
set -e
HERE="$(cd "$(dirname "$0")/.." && pwd)"
V="$HERE/.venv"
if [ -x "$V/bin/python" ] && "$V/bin/python" -c "import z3, cvc5, numpy, jsonschema" >/dev/null 2>&1; then
  exit 0
fi
rm -rf "$V"
/venv/bin/python -m venv "$V"
PIP_NO_INDEX=1 "$V/bin/pip" install -q --no-index --find-links /opt/veriftools/wheels \
    z3-solver cvc5 deal icontract crosshair-tool jsonschema hypothesis >/dev/null
SP="$("$V/bin/python" -c 'import sysconfig; print(sysconfig.get_paths()["purelib"])')"
echo "import site; site.addsitedir('/venv/lib/python3.12/site-packages')" > "$SP/_ov.pth"
"$V/bin/python" -c "import z3, cvc5, numpy, jsonschema"
