#!/bin/sh
# usage: tools/seedmatrix.sh [glob]  run seeded changes against their property's quick check; append to seeded/RESULTS.tsv
HERE="$(cd "$(dirname "$0")/.." && pwd)"; cd "$HERE"
PAT="${1:-*}"
OUT=seeded/RESULTS.tsv; touch $OUT
for d in seeded/$PAT/; do
  id=$(basename $d); [ -f "$d/patch.diff" ] || continue
  tools/seedtest.sh $id > /tmp/sm-$id.out 2>&1
  rc=$(grep -o "exit [0-9]*" /tmp/sm-$id.out | head -1 | cut -d' ' -f2)
  pid=$(grep -o "against C[0-9]*" /tmp/sm-$id.out | head -1 | cut -d' ' -f2)
  v=$(grep -c "^VIOLATION" /tmp/seedtest-$id-$pid.log 2>/dev/null)
  nf=$(grep -c "no-failing-input-found" /tmp/seedtest-$id-$pid.log 2>/dev/null)
  pl=$(grep -c "^PROOF-LOST" /tmp/seedtest-$id-$pid.log 2>/dev/null)
  fo=$(grep -c "FAILED-OBLIGATION" /tmp/seedtest-$id-$pid.log 2>/dev/null)
  fu=$(grep "FAILED-OBLIGATION" /tmp/seedtest-$id-$pid.log 2>/dev/null | sed -n 's/.* \[\([A-Za-z0-9]*\)\[.*/\1/p' | sort -u | tr '\n' ',')
  first=$(grep "failed obligation" /tmp/seedtest-$id-$pid.log | head -1 | cut -c1-160)
  grep -v "^$id	" $OUT > $OUT.tmp; mv $OUT.tmp $OUT
  printf "%s\t%s\texit=%s\tviolations=%s\tno_input=%s\tproof_lost=%s\tfailed_obligations=%s(%s)\t%s\n" "$id" "$pid" "$rc" "$v" "$nf" "$pl" "$fo" "$fu" "$first" >> $OUT
  printf "%s\t%s\texit=%s\tviolations=%s\tno_input=%s\tproof_lost=%s\tfailed_obligations=%s(%s)\t%s\n" "$id" "$pid" "$rc" "$v" "$nf" "$pl" "$fo" "$fu" "$first" | cut -c1-210
done
sort -o $OUT $OUT
